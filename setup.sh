#!/bin/bash
# Run once after a fresh restore, offline: warms the Go build cache for the harness and checks the tools.
set -e
export GOFLAGS=-mod=mod GOPROXY=off GOSUMDB=off GOTOOLCHAIN=local
cd "$(dirname "$0")"
tmp=$(mktemp -d)
trap 'rm -rf "$tmp"' EXIT
cp -r harness "$tmp/harness"
cp /repo/go.sum "$tmp/harness/go.sum"
(cd "$tmp/harness" && go build -tags verif -o "$tmp/mxjconf" ./cmd/mxjconf)
java -version >/dev/null 2>&1
test -f /opt/veriftools/tla/tla2tools.jar
mkdir -p evidence replays
echo "setup ok"
