#!/usr/bin/env python3
"""Regenerates MANIFEST.json from the table below (kept next to props.py)."""
import json, os, subprocess
V = os.path.dirname(os.path.abspath(__file__))

TLC_NOTE = ("Trusted: TLC 2026.09.04 and the CommunityModules Json module (ASCII/small-int subset), the harness's tagged "
            "value codec, Go's reflect-free deep comparison in the harness; bounded: exhaustive only inside the constants of the .cfg files.")

CHECKS = {
 "C07": dict(
   text="TLA+ specification of the path language (MxjPath: operational Old/VFA plus a declarative location-based "
        "statement of what a path denotes); TLC checks the declarative/operational agreement and the per-parent index rule "
        "on every Map of the bounded space, prints every (Map, path, expected values) and the Go harness replays all of them "
        "on the real ValuesForPath/ValueForPath/Exists/ValueForPathString. Exhaustive inside the bounds, which is the right level "
        "for a pure query whose defects are shape dependent (the pinned defect needed two indexed steps). Parametric families extend the reach: MC_Wide (lists/maps of 31-65 entries under four SetArraySize settings) and MC_Deep (four-level Maps, every path over the key chain with each step plain, indexed in/out of range or wildcard: 780 paths per Map). The same document held as a graph (equal sub-documents as one object) must give the same values; lists of 300 members with three-digit indexes.",
   ref="DESIGN.md section 4, C07", technique="TLA+ spec + TLC exhaustive enumeration, spec->code replay of every behaviour + code->spec trace validation (recorded sessions; every such call the repository's own tests make, observed through wrapped methods in a scratch copy, validated by Trace_Path.tla)"),
 "C08": dict(
   text="TLA+ specification of ValuesForKey, PathsForKey, PathForKeyShortest and the sub-key predicate (typed, wildcard, negated); TLC checks on every "
        "Map of the bounded space that key search equals the union over the key's paths, that sub-keys are a pure filter and that the shortest path is minimal, "
        "and prints expected results for every (Map, key, condition set); the harness replays them under both field separators. Sessions of Mxj.tla: sub-key STRINGS that are legal under both field separators (and denote different conditions), every history of SetFieldSeparator calls interleaved with key searches, compared after every search.",
   ref="DESIGN.md section 4, C08", technique="TLA+ spec + TLC exhaustive enumeration, spec->code replay + code->spec trace validation (recorded sessions; every such call the repository's own tests make, observed through wrapped methods in a scratch copy, validated by Trace_Path.tla)"),
 "C09": dict(
   text="TLA+ specification of LeafNodes (exact path strings, both notations, no-attr option); TLC checks one leaf per scalar, resolution through the indexed "
        "path semantics and the no-attr clause on every Map of the bounded space (keys include the empty key, an attribute key and the text key); the harness "
        "replays LeafNodes/LeafPaths/LeafValues under three attribute prefixes and resolves every returned path through the real ValuesForPath. Sessions of Mxj.tla: every history of LeafUseDotNotation (set / clear / toggle) and SetAttrPrefix calls interleaved with LeafNodes, compared after every call.",
   ref="DESIGN.md section 4, C09", technique="TLA+ spec + TLC exhaustive enumeration, spec->code replay + code->spec trace validation (recorded sessions; every such call the repository's own tests make, observed through wrapped methods in a scratch copy, validated by Trace_Path.tla)"),
 "C10": dict(
   text="Operational TLA+ specification of UpdateValuesForPath (one branch per code case) checked by TLC against an independently written declarative frame "
        "condition (only entries under the key, at locations the path addresses, where the conditions hold; count = number of replaced values; read-back clause) "
        "for every Map x key x path x condition set of the bounded space; every transition (pre, args, post, count) is replayed on the real code in all three newVal forms.",
   ref="DESIGN.md section 4, C10", technique="TLA+ operational spec vs declarative frame theorem (TLC), transitions replayed on the code + code->spec trace validation (recorded sessions; every such call the repository's own tests make, observed through wrapped methods in a scratch copy, validated by Trace_Path.tla)"),
 "C11": dict(
   text="TLA+ specification of SetValueForPath / Remove / RenameKey with explicit outcome classes and declarative frame conditions checked by TLC on every Map "
        "without empty lists x every path through maps; every operation is replayed on the real code (outcome class, post-state, read-back), a panic never matches.",
   ref="DESIGN.md section 4, C11", technique="TLA+ spec + TLC exhaustive enumeration, spec->code replay + code->spec trace validation (recorded sessions; every such call the repository's own tests make, observed through wrapped methods in a scratch copy, validated by Trace_Path.tla)"),
 "C12": dict(
   text="TLA+ specification of NewMap (pair folding over the indexed path semantics) with a declarative content rule checked by TLC; every (Map, pair list) of the "
        "bounded space is replayed on real objects: the receiver is deep-compared before/after every call including overlapping pairs, the content is compared when no "
        "new path equals or extends another, malformed pairs must be rejected.",
   ref="DESIGN.md section 4, C12", technique="TLA+ spec + TLC exhaustive enumeration, spec->code replay on live objects + code->spec trace validation (recorded sessions; every such call the repository's own tests make, observed through wrapped methods in a scratch copy, validated by Trace_Path.tla)"),
 "C13": dict(
   text="TLA+ specification MxjStream of source (every legal per-byte outcome of io.Reader.Read: data, data+EOF, (0,nil), EOF), byte adaptor, decoder, "
        "single-call loop and bulk handlers with nondeterministic verdicts; XML document boundaries by construction, the JSON brace scanner modelled at character level over "
        "streams constructed from abstract objects (braces, quotes, escaped quotes and backslashes in strings). TLC checks exhaustively for every stream profile and "
        "every schedule: no loss/duplication, no over-read, results = documents in order then EOF, Raw exact, handler discipline, termination under fairness; every complete "
        "behaviour is replayed by a scripted io.Reader against all reader entry points, and every profile (whole and cut at every byte) through real temporary files. Unbounded stream length: the byte adaptor's safety is additionally discharged by an inductive invariant in Apalache (AdaptorInd.tla). The four XML readers are also run with the cast argument (reference: the direct decode with the cast argument), the file writers over existing longer files are read back (file family of C19), and a candidate that no sequential replay reproduces is replayed by 8 goroutines at once before it is dismissed.",
   ref="DESIGN.md section 4, C13", technique="TLA+ spec of reader/adaptor/decoder/handler processes, TLC exhaustive over schedules incl. liveness, schedule replay with scripted io.Reader"),
 "C18": dict(
   text="TLA+ specification MxjOptions of the ~21 package-level option registers as a state machine with one action per setter form; TLC explores the COMPLETE reachable register "
        "space (no depth bound) and checks idempotence of explicit setters, the documented meaning of argument-less forms, the frame of every call, mutual exclusion of the two "
        "escaping switches and restorability (both orders). All histories of two calls and seeded random walks of 30 calls are replayed through the public setters: the code's registers "
        "(hook VerifOptions, incl. derived lenAttrPrefix/trimRunes/special keys) must equal the specification state after EVERY call; at the end of each history every operation class "
        "must be unaffected by resetting the registers the specification declares irrelevant for it, and after the explicit restore sequence all probes must equal a fresh process. The integrated specification Mxj.tla composes the register machine with the codec and query specifications: seeded random sessions of 24 steps over all setters and six operation classes (decode, cast decode, sequence decode, encode, leaf nodes, key search, leaf cast); TLC checks in every state that operations are functions of the registers (Functional) and depend only on their relevant registers (OnlyRelevant); the real package is stepped through each session and compared after every operation, and a snapshot of all registers is compared around every operation (operations leave the registers alone). Exhaustive session configurations add XMPP stream-tag handling (HandleXMPPStreamTag with the four decoder entry points on a <stream:stream> document) and calls of the legacy wrappers in between.",
   ref="DESIGN.md section 4, C18", technique="TLA+ register state machine, complete state space in TLC, history replay with state comparison after every call"),
 "C01": dict(
   text="TLA+ specification MxjXml of abstract XML documents and of the documented XML->Map conventions (Decode) written from the documentation, with character-level trimming, case folding, "
        "snake-casing and escaping; TLC enumerates documents by builder actions in factorised families (names incl. namespace prefixes and folding collisions; ordered attributes; text placement, "
        "blank runs, comments) and evaluates Decode under EVERY option combination of the domain (2^7 switches x 3 attribute prefixes x 2 key prefixes), checking one-root, accounting "
        "(every attribute/text/empty element appears exactly once) and that tag sequence numbers only add entries; every (document, option combination, expected Map) is replayed on the real "
        "decoders through the public setters, each document rendered in one of three concrete syntaxes (quotes, empty-element form, CDATA / numeric references, XML declaration, BOM, leading comment). Sessions of the integrated specification Mxj.tla (every history of key-folding / prefix setter calls interleaved with decodes, the result compared after every decode) show that a decode depends on nothing but the registers at the time of the call. Code->spec: seeded random sessions on the real package (setter calls interleaved with decodes of random documents of up to ~40 elements) are recorded and validated by the trace specification Trace_Xml.tla, which advances its own registers from the logged setter calls; and every NewMapXml call made by the repository's own test suite (observation hook VerifOnDecode) is validated against the decode specification.",
   ref="DESIGN.md section 4, C01", technique="TLA+ transcription of the decode conventions, TLC enumeration of documents x all option combinations, spec->code replay; recorded sessions and the repository's own tests validated by a TLA+ trace specification"),
 "C02": dict(
   text="TLA+ specification MxjXmlEncode of the Map->XML encoder (attribute/text/element classification, sorting, list expansion, root rule) with an exact-bytes renderer; over the C01 document "
        "space and every symmetric option combination TLC checks the fixed point Decode(Encode(Decode(d))) = Decode(d) with a single well-formed root on the specification (character-level, incl. "
        "encoder-side vs decoder-side escaping), and prints the decoded Map with the exact bytes Map.Xml() must produce; the harness compares Map.Xml() byte for byte, XmlIndent token-wise, and executes the real round trip for both encoders. Code->spec: recorded sessions (Trace_Xml.tla) validate Map.Xml() of decoded random documents byte for byte against the encoder specification under the session's registers, and the re-decode where exactly one escaping switch is on.",
   ref="DESIGN.md section 4, C02", technique="TLA+ encoder/decoder specs, fixed-point theorem in TLC, byte-exact spec->code replay plus real round trip"),
 "C03": dict(
   text="Same encoder specification applied to JSON-shaped values enumerated by the Map builder (attribute and text keys, empty containers, nil, nested/mixed lists, special characters, number and boolean tokens): "
        "TLC checks per key path that the leaf sequences of the value and of Decode(Encode(value)) agree, one root, and an error exactly for non-scalar attribute entries; the harness compares the exact bytes of "
        "Map.Xml(), Map.Xml(root), AnyXml (Map and every top-level value) under both empty-element syntaxes, token equivalence of the indented forms, and the real decode of the output with the specification's. The whole space is run a second time under the attribute prefix @ and the reserved-key prefix _; bytes returned by an encoder are compared again after later encoder calls (held-result oracle). MC_C03t extends the value space to the Go-typed values a caller may put into a Map (int, int32, int64, float32, json.Number, []byte, []string, []map[string]interface{}): the bytes must be those of the untyped value.",
   ref="DESIGN.md section 4, C03", technique="TLA+ encoder spec + declarative leaf-preservation theorem (TLC), byte-exact spec->code replay + code->spec trace validation (recorded sessions; every Map.Xml call of the repository's own tests validated by Trace_Xml.tla)"),
 "C04": dict(
   text="TLA+ specification MxjSeq of the sequence-preserving codec: DecodeSeq (per-parent counter over children, text, comments, directives, processing instructions; attribute positions; prefix-preserving names) "
        "and EncodeSeq (attributes by position, text first, entries by sequence number with lists unrolled) with an exact-bytes renderer. TLC checks Encode(Decode(d)) = d (canonical form) for every document of the builder "
        "families (all ordered attribute choices incl. xmlns and prefixed ones, interleavings of identically/differently named siblings, extras at every position, text alone or before children); the harness compares "
        "NewMapXmlSeq[Reader] with DecodeSeq, MapSeq.Xml byte for byte, XmlIndent / BeautifyXml / NewMapFormattedXmlSeq token-wise, and executes the real round trip. Code->spec: recorded sessions (Trace_Xml.tla) validate NewMapXmlSeqReader and MapSeq.Xml() on random documents against DecodeSeq / RenderSeq and the canonical-form theorem on the observed data.",
   ref="DESIGN.md section 4, C04", technique="TLA+ codec spec with round-trip theorem (TLC), byte-exact spec->code replay"),
 "C05": dict(
   text="Character-level TLA+ definitions of XmlEscape / XmlUnescape and of the raw-text well-formedness predicate; TLC enumerates every string of <= N chunks over the five special characters, ';', '#', a letter, "
        "a blank and the chunks &amp; &#x41; ]]> <![CDATA[ and checks: unescape(escape(s)) = s, the escaped form has no raw special character and every '&' starts an entity (no double escaping), the decoder-side stored value is well formed raw and stable. "
        "For every string the harness runs element / attribute / mixed positions through Map.Xml, Map.XmlIndent, MapSeq.Xml, MapSeq.XmlIndent in the three escaping modes: exact bytes (encoder-side), decode-back equality, "
        "well-formed-or-error with the validity check (oracle encoding/xml), reproduction of stored values (decoder-side); the internal escapeChars is bound directly through the hook.",
   ref="DESIGN.md section 4, C05", technique="TLA+ character-level escaping theorems (TLC, exhaustive strings), spec->code replay with encoding/xml as well-formedness oracle"),
 "C06": dict(
   text="Character-level TLA+ specification MxjJson of encoding/json's string escaping in default and safe mode and of the exact bytes of Map.Json (sorted keys); TLC enumerates strings of <= N chunks over < > & backslash quote letter U+0001 newline "
        "and the literal six-character sequences \\u003c \\u003e \\u0026 (as values, keys and nested) and checks unescape(escape(s)) = s, safe output free of < > &, default output holding them literally; the acceptance rule of NewMapJson is enumerated over "
        "[ws] value [ws] [trailer] inputs. The harness compares Json bytes exactly, validity, decode-back equality for Json/JsonIndent, writer forms and Copy, and NewMapJson's acceptance and value against encoding/json on the same bytes (JsonUseNumber on/off).",
   ref="DESIGN.md section 4, C06", technique="TLA+ character-level JSON string codec (TLC), byte-exact spec->code replay, encoding/json as oracle"),
 "C14": dict(
   text="TLA+ specification MxjCast of the cast decision chain over classification predicates (denotes int64 / uint64 / float64 / NaN-or-Inf / bool) supplied by a constants module that the harness generates from strconv on every run; "
        "TLC checks for every catalogue text (64-bit boundaries, decimal/exponent/hex floats, overflow, every case and sign variant of nan/inf/infinity, ParseBool's accepted and rejected spellings, ordinary text) and all 2^6 combinations of "
        "cast flag, int, float, bool, NaN/Inf and skip-tag options: no cast without the flag, never NaN/Inf unless asked, the chosen kind is one the text denotes. Every (text, combination) is replayed in element, attribute and text-key position "
        "through NewMapXml, NewMapXmlSeq and the internal cast (hook), and Map.Json() must succeed whenever CastNanInf is off. Sessions of Mxj.tla: every history of four cast-register setter calls (set / clear / toggle) interleaved with cast decodes of eight leaf texts, compared after every decode. Text ahead of a child element is a fourth position; keys and nesting of every cast decode must equal those of the un-cast decode.",
   ref="DESIGN.md section 4, C14", technique="TLA+ decision-chain spec over strconv-generated classification, exhaustive catalogue x options in TLC, spec->code replay"),
 "C16": dict(
   text="Encoding is specified as an operator of Map content (EncodeRoot / JsonOf of the encoder specifications, ascending key order checked by TLC); the state of MC_C16 is the content plus a construction history (insert / overwrite / delete), "
        "all histories of bounded length are enumerated and each is replayed into real Go maps of four capacities; the resulting Map is encoded three times through ~30 entry points (Xml, XmlWriter, XmlIndent[Writer], AnyXml, Json[Indent][Writer][Raw], "
        "Maps.*String / *File forms, MapSeq.Xml[Writer][Indent]) and every output must equal the specification's bytes (compact), be token-equivalent (indented), equal the byte-returning form (Writer/Raw), or be the concatenation (Maps); failing sinks must surface their error. Every JSON writer form under every spelling of the safe flag and three indent pairs, every XML variant again under XmlCheckIsValid(true), a single key holding a mixed list in either order, and sessions in which the DECODER's registers are toggled between encodings of a Map whose keys differ in case only (Mxj_enc).",
   ref="DESIGN.md section 4, C16", technique="TLA+ history enumeration (TLC) + content-function encoder spec, replay through all encoder variants with byte comparison"),
 "C17": dict(
   text="Purity: every Map of the builder's space is passed to every read-only method (all ValuesFor*/PathsFor*/Leaf*/Exists/Elements/Attributes/Root queries, XML/JSON/gob encoders, Copy, StringIndent, NewMap, MapSeq encoders) and deep-compared afterwards; "
        "Copy is followed by a mutation of every container of the copy (and of the original) with the other side compared. Concurrency: TLA+ specification MxjConc of G goroutines x programs x gate segments; TLC checks for every interleaving that the shared Map is "
        "never written, results equal sequential results, and termination; every interleaving is then ENFORCED on real goroutines parked at the gate hook (build tag verif) and the results / shared Map compared, under a -race build, plus free-running stress (8 goroutines) where the race detector reports memory-level races. Fixed richer Maps (lists of records below indexed steps) are queried with indexed variants of every path and sub-keys taken from their content; the concurrent programs include the reader entry points over readers without ReadByte. Read-only calls must also leave every container OBJECT in place (identity), and the exotic Map carries a []byte with spare capacity and a sequence-shaped sub-document with float64 sequence numbers; free runs start with a series of failing calls.",
   ref="DESIGN.md section 4, C17", technique="TLA+ interleaving spec (TLC exhaustive), schedule replay with goroutine gates under the Go race detector, purity replay"),
 "C15": dict(
   text="(a) Character-level TLA+ specification MxjArgs of the path, sub-key, new-value and key-pair languages (split rules, index parsing, type names, error classes); TLC enumerates every string of <= N chunks over the significant characters "
        "and evaluates all operators (totality of the specification) on a Map with empty keys; every string is applied to every string-taking method under recover: a panic is a violation, the error class and (for paths) the values must agree. "
        "(b) Token-level corruptions (delete, duplicate, swap, stray end tag) of the document builder's documents with the specification's class of the first document (ok / err / eof), cross-checked against an independent encoding/xml Token loop, and for each "
        "document every byte-level truncation, deletion and nine substitutions per position classified by that loop; applied to eight XML decoder forms, the bulk handlers and BeautifyXml (no panic, class agrees, no partial Map, returned Maps encode without panic); JSON and gob inputs likewise.",
   ref="DESIGN.md section 4, C15", technique="TLA+ character-level argument parsers + token-level corruption classes (TLC enumeration), replay under recover with stdlib tokenizers as second oracle"),
 "C19": dict(
   text="A file is specified as a stream (MxjStream): framing iterated to EOF, Maps read so far plus an error when a document is cut. Writer half: MC_C19 enumerates every list of one or two Maps of the pair-mode builder (attribute keys, strings with braces, "
        "quotes and backslashes, numbers) with the exact file content the writers must produce (concatenation of the encoder specifications' bytes) and the Maps the readers must return (XML: fixed point of each Map's own round trip, checked as a theorem; JSON/gob/Copy: identity); "
        "the harness writes real temporary files with XmlFile/XmlFileIndent/JsonFile/JsonFileIndent (three indent strings) and reads them back with the four readers incl. Raw. Reader half: every stream profile whole and cut at every byte offset through real files, and the cut profiles through all reader schedules.",
   ref="DESIGN.md section 4, C19", technique="TLA+ stream + encoder specs (TLC), exact file content and read-back replay through real temporary files"),
 "C20": dict(
   text="TLA+ module MxjLegacy: every exported function of j2x, x2j and x2j-wrapper with a core counterpart is listed with the composition it must equal, and x2j-wrapper's own walkers (PathsForKey, PathForKeyShortest, ValuesFromKeyPath, ValuesAtKeyPath) are specified "
        "declaratively over the core path semantics (attribute entries skipped at wildcard steps unless requested); TLC checks their agreement with the core operators on every Map of the bounded space and prints the expected results. The harness calls EVERY bound function "
        "(the binding list is compared with the exported identifiers parsed from the three packages with go/parser: an unbound export or an uncalled binding fails the check) and compares with the specification's prediction and with the composition executed on the real core. MC_C20_deep adds chains 3-10 levels deep with a sibling after every hit; update wrappers are followed by read wrappers on the byte-identical document (wrappers are functions of their arguments); value lists returned by the walkers are compared again after later calls. Sessions of Mxj.tla (operation `legacy`) show that the wrappers are the core under the registers in force and leave the registers alone.",
   ref="DESIGN.md section 4, C20", technique="TLA+ declarative wrapper specs + binding table (TLC), spec->code replay and differential against the core composition"),
}
NOT_YET = "machinery for this property is not built yet in this round (design in DESIGN.md section 4); no claim is made"

def main():
    props = [json.loads(l)["id"] for l in open(os.path.join(V, "properties.jsonl"))]
    hooks = []
    try:
        out = subprocess.run(["git", "-C", "/repo", "log", "--format=%h %s"], stdout=subprocess.PIPE, text=True).stdout
        hooks = [l.split()[0] for l in out.splitlines() if l.split(" ", 1)[1].startswith("verif:")]
    except Exception:
        pass
    man = {
      "version": 1,
      "setup_cmd": "cd /verif && ./setup.sh",
      "hooks": {"guard": "verif", "enable": "go build -tags verif (the harness module replaces github.com/clbanning/mxj/v2 => /repo)",
                "baseline_off_cmd": "/verif/baseline_off.sh", "source_commits": hooks, "add_only": True},
      "engines": [{"name": "tlc+mxjconf", "path": "/verif/check.py",
                   "serves_properties": sorted(CHECKS),
                   "kind_free_text": "explicit TLA+ specification (spec/*.tla) model-checked by TLC; behaviours replayed on the real code and recorded traces validated against the specification by the Go harness (harness/cmd/mxjconf)"}],
      "checks": [], "not_applicable": [],
      "notes": "check.py <id> --tier quick|thorough; VERIF_SEED seeds every random choice; exit 2 = machinery failure (never a violation)",
    }
    for p in props:
        if p in CHECKS:
            c = CHECKS[p]
            man["checks"].append({
              "property_id": p,
              "quick_cmd": "python3 check.py %s --tier quick" % p,
              "thorough_cmd": "python3 check.py %s --tier thorough" % p,
              "evidence_file": "/verif/evidence/%s.json" % p,
              "replay_cmd_template": "python3 check.py replay {path}",
              "engine": "tlc+mxjconf",
              "level_claimed": {"category": c.get("category", "model_checking"), "text": c["text"], "design_ref": c["ref"]},
              "level_note": c.get("note", TLC_NOTE),
              "technique": c["technique"],
            })
        else:
            man["not_applicable"].append({"property_id": p, "reason": NOT_YET})
    json.dump(man, open(os.path.join(V, "MANIFEST.json"), "w"), indent=1)
    print("MANIFEST.json:", len(man["checks"]), "checks,", len(man["not_applicable"]), "not applicable")

if __name__ == "__main__":
    main()
