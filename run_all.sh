#!/bin/bash
# run_all.sh [quick|thorough] [ids...] : runs the registered checks one after another and prints a summary line each
TIER=${1:-quick}; shift
IDS=${@:-C01 C02 C03 C04 C05 C06 C07 C08 C09 C10 C11 C12 C13 C14 C15 C16 C17 C18 C19 C20}
cd "$(dirname "$0")"
bad=0
for c in $IDS; do
  s=$(date +%s)
  out=$(python3 check.py $c --tier $TIER 2>&1); rc=$?
  echo "$c rc=$rc $(( $(date +%s) - s ))s :: $(echo "$out" | tail -1 | cut -c1-200)"
  if [ $rc -ne 0 ]; then bad=1; echo "$out" | grep -m5 "VIOLATION\|MACHINERY\|KNOWN" | cut -c1-300; fi
done
exit $bad
