#!/bin/bash
# Runs the repository's own test suite with the verif build tag OFF and compares the set of
# passing tests with /root/.vp/BASELINE.json (177 stable tests).  exit 0 iff all of them pass.
export GOFLAGS=-mod=mod GOPROXY=off GOSUMDB=off GOTOOLCHAIN=local
REPO=${VERIF_REPO:-/repo}
out=$(mktemp)
for m in . ./j2x ./x2j-wrapper; do (cd $REPO/$m && go test -json -vet=off -count=1 -timeout 25m . ) ; done > $out 2>&1
python3 - "$out" <<'PY'
import json,sys
passed=set()
for l in open(sys.argv[1]):
    try: e=json.loads(l)
    except Exception: continue
    if e.get("Action")=="pass" and e.get("Test"):
        passed.add(e["Package"]+"::"+e["Test"])
base=json.load(open("/root/.vp/BASELINE.json"))["stable_pass"]
missing=[t for t in base if t not in passed]
print("baseline tests passing: %d/%d"%(len(base)-len(missing),len(base)))
for t in missing[:20]: print("  NOT PASSING:",t)
sys.exit(1 if missing else 0)
PY
rc=$?
rm -f $out
exit $rc
