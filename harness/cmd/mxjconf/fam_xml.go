package main

import (
	"bytes"
	"encoding/json"
	"encoding/xml"
	"fmt"
	"io"
	"strings"

	mxj "github.com/clbanning/mxj/v2"
	"verif/harness/tagged"
)

// ---------------------------------------------------------------------------
// abstract XML documents (MxjXml.tla) and their concrete renderings
// ---------------------------------------------------------------------------
type xName struct {
	P string   `json:"p"`
	L []string `json:"l"`
}
type xAttr struct {
	Nm xName    `json:"nm"`
	V  []string `json:"v"`
}
type xNode struct {
	K  string   `json:"k"`
	Nm xName    `json:"nm"`
	At []xAttr  `json:"at"`
	Ch []*xNode `json:"ch"`
	Tx []string `json:"tx"`
}

func (n xName) String() string {
	l := strings.Join(n.L, "")
	if n.P != "" {
		return n.P + ":" + l
	}
	return l
}

func escText(s string, variant int) string {
	if variant == 1 && !strings.Contains(s, "]]>") && strings.TrimSpace(s) != "" {
		return "<![CDATA[" + s + "]]>"
	}
	r := strings.NewReplacer("&", "&amp;", "<", "&lt;", ">", "&gt;")
	if variant == 2 {
		r = strings.NewReplacer("&", "&#38;", "<", "&#x3C;", ">", "&gt;")
	}
	return r.Replace(s)
}

func escAttr(s string, q string) string {
	r := strings.NewReplacer("&", "&amp;", "<", "&lt;", q, map[string]string{`"`: "&quot;", `'`: "&apos;"}[q], "\n", "&#xA;", "\t", "&#x9;")
	return r.Replace(s)
}

// render writes the document in one of several concrete syntaxes (variant 0..2)
func (n *xNode) render(b *strings.Builder, variant int) {
	switch n.K {
	case "t":
		b.WriteString(escText(strings.Join(n.Tx, ""), variant))
		return
	case "c":
		b.WriteString("<!--" + strings.Join(n.Tx, "") + "-->")
		return
	}
	q := `"`
	if variant == 1 {
		q = `'`
	}
	b.WriteString("<" + n.Nm.String())
	for _, a := range n.At {
		b.WriteString(" " + a.Nm.String() + "=" + q + escAttr(strings.Join(a.V, ""), q) + q)
	}
	if len(n.Ch) == 0 {
		if variant == 0 {
			b.WriteString("/>")
		} else {
			b.WriteString("></" + n.Nm.String() + ">")
		}
		return
	}
	b.WriteString(">")
	for _, c := range n.Ch {
		c.render(b, variant)
	}
	b.WriteString("</" + n.Nm.String() + ">")
}

func renderDoc(n *xNode, variant int) []byte {
	var b strings.Builder
	switch variant {
	case 1:
		b.WriteString("<?xml version=\"1.0\"?>\n<!-- lead -->\n")
	case 2:
		b.WriteString("\xef\xbb\xbf \n")
	}
	n.render(&b, variant)
	if variant == 1 {
		b.WriteString("\n")
	}
	return []byte(b.String())
}

// tokensOf: the token stream encoding/xml sees (self-check of the renderer and well-formedness oracle)
func tokensOf(doc []byte) ([]string, error) {
	d := xml.NewDecoder(bytes.NewReader(doc))
	var toks []string
	for {
		t, err := d.RawToken()
		if err == io.EOF {
			return toks, nil
		}
		if err != nil {
			return toks, err
		}
		switch x := t.(type) {
		case xml.StartElement:
			s := "<" + rawName(x.Name)
			for _, a := range x.Attr {
				s += " " + rawName(a.Name) + "=" + a.Value
			}
			toks = append(toks, s)
		case xml.EndElement:
			toks = append(toks, "</"+rawName(x.Name))
		case xml.CharData:
			toks = append(toks, "T:"+string(x))
		case xml.Comment:
			toks = append(toks, "C:"+string(x))
		case xml.ProcInst:
			toks = append(toks, "P:"+x.Target+" "+string(x.Inst))
		case xml.Directive:
			toks = append(toks, "D:"+string(x))
		}
	}
}

func rawName(n xml.Name) string {
	if n.Space != "" {
		return n.Space + ":" + n.Local
	}
	return n.Local
}

// ---------------------------------------------------------------------------
// decoder options from the compact code "LSAKETC|apfx|kpfx" used by MC_C01
// ---------------------------------------------------------------------------
type decOpt struct {
	lower, snake, asmap, keep, escdec, tagseq, cast bool
	apfx, kpfx                                      string
}

func parseOptCode(c string) decOpt {
	parts := strings.SplitN(c, "|", 3)
	f := parts[0]
	return decOpt{f[0] == '1', f[1] == '1', f[2] == '1', f[3] == '1', f[4] == '1', f[5] == '1', f[6] == '1', parts[1], parts[2]}
}

func (o decOpt) apply() {
	mxj.CoerceKeysToLower(o.lower)
	mxj.CoerceKeysToSnakeCase(o.snake)
	mxj.DecodeSimpleValuesAsMap(o.asmap)
	mxj.DisableTrimWhiteSpace(o.keep)
	mxj.XMLEscapeCharsDecoder(o.escdec)
	mxj.IncludeTagSeqNum(o.tagseq)
	mxj.SetAttrPrefix(o.apfx)
	mxj.SetGlobalKeyMapPrefix(o.kpfx)
}

func resetDecOpts() {
	decOpt{apfx: "-", kpfx: "#"}.apply()
}

type hideByteReader struct{ r io.Reader }

func (h hideByteReader) Read(p []byte) (int, error) { return h.r.Read(p) }

// ---------------------------------------------------------------------------
// family "dec" (C01): document + expected Maps grouped by option combination
// ---------------------------------------------------------------------------
type decGroup struct {
	R  *tagged.TV `json:"r"`
	Os []string   `json:"os"`
}
type decLine struct {
	F string     `json:"f"`
	D *xNode     `json:"d"`
	G []decGroup `json:"g"`
}

var decLineNo int

func replayDec(line []byte, a *Acc) {
	var l decLine
	if err := json.Unmarshal(line, &l); err != nil {
		panic(err)
	}
	decLineNo++
	defer resetDecOpts()
	variant := decLineNo % 3
	doc := renderDoc(l.D, variant)
	plain := renderDoc(l.D, 0)
	// renderer self-check: all variants present the same token stream up to syntax (elements, attributes, text)
	if _, err := tokensOf(doc); err != nil {
		a.mu.Lock()
		a.Fatal = fmt.Sprintf("renderer produced ill-formed XML %q: %v", doc, err)
		a.mu.Unlock()
		return
	}
	cases, nontriv := 0, 0
	for _, g := range l.G {
		exp := g.R.Norm()
		for _, code := range g.Os {
			o := parseOptCode(code)
			o.apply()
			cases++
			if len(l.D.Ch) > 0 || len(l.D.At) > 0 {
				nontriv++
			}
			one := func(sig, detail string) {
				a.Mis(sig, fmt.Sprintf("options %s, document %s: %s", code, plain, detail), decLine{F: "dec", D: l.D, G: []decGroup{{R: g.R, Os: []string{code}}}})
			}
			var m mxj.Map
			var err error
			entry := "NewMapXml"
			if p := guard(func() {
				switch (decLineNo + cases) % 4 {
				case 1:
					entry = "NewMapXmlReader"
					m, err = mxj.NewMapXmlReader(hideByteReader{bytes.NewReader(doc)}, o.cast)
				case 2:
					entry = "NewMapXmlReaderRaw"
					m, _, err = mxj.NewMapXmlReaderRaw(bytes.NewReader(doc), o.cast)
				default:
					m, err = mxj.NewMapXml(doc, o.cast)
				}
			}); p != "" {
				one("dec:panic", entry+": "+p)
				continue
			}
			if err != nil {
				one("dec:error", fmt.Sprintf("%s(%q) unexpected error %v", entry, doc, err))
				continue
			}
			if got := tagged.CanonGo(m); got != exp {
				one("dec:differs:"+decDiffClass(o), fmt.Sprintf("%s(%q) = %s, conventions give %s", entry, doc, short(got), short(exp)))
			}
		}
	}
	a.Count(cases, nontriv)
	if len(l.G) > 4 && len(l.D.Ch) > 1 {
		a.Sample(map[string]interface{}{"document": string(plain), "distinct_results": len(l.G), "one_result": l.G[0].R.Norm(), "under_options": l.G[0].Os[0]})
	}
}

func decDiffClass(o decOpt) string {
	var on []string
	for _, kv := range []struct {
		n string
		b bool
	}{{"lower", o.lower}, {"snake", o.snake}, {"asmap", o.asmap}, {"keep", o.keep}, {"escdec", o.escdec}, {"tagseq", o.tagseq}, {"cast", o.cast}} {
		if kv.b {
			on = append(on, kv.n)
		}
	}
	return strings.Join(on, "+") + ":apfx=" + o.apfx + ":kpfx=" + o.kpfx
}

func init() {
	register("dec", &family{replay: replayDec, serial: true,
		rule: "one case = (abstract document rendered in one of three concrete syntaxes, option combination, entry point NewMapXml/NewMapXmlReader/NewMapXmlReaderRaw); documents are the distinct TLC states of the document builder, option combinations all members of the domain; non-trivial = the root has attributes or children"})
}
