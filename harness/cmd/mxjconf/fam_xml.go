package main

import (
	"bytes"
	"encoding/json"
	"encoding/xml"
	"fmt"
	"io"
	"regexp"
	"strings"

	mxj "github.com/clbanning/mxj/v2"
	"verif/harness/tagged"
)

// ---------------------------------------------------------------------------
// abstract XML documents (MxjXml.tla) and their concrete renderings
// ---------------------------------------------------------------------------
type xName struct {
	P string   `json:"p"`
	L []string `json:"l"`
}
type xAttr struct {
	Nm xName    `json:"nm"`
	V  []string `json:"v"`
}
type xNode struct {
	K  string   `json:"k"`
	Nm xName    `json:"nm"`
	At []xAttr  `json:"at"`
	Ch []*xNode `json:"ch"`
	Tx []string `json:"tx"`
}

func (n xName) String() string {
	l := strings.Join(n.L, "")
	if n.P != "" {
		return n.P + ":" + l
	}
	return l
}

func escText(s string, variant int) string {
	if variant == 1 && !strings.Contains(s, "]]>") && strings.TrimSpace(s) != "" {
		return "<![CDATA[" + s + "]]>"
	}
	r := strings.NewReplacer("&", "&amp;", "<", "&lt;", ">", "&gt;")
	if variant == 2 {
		r = strings.NewReplacer("&", "&#38;", "<", "&#x3C;", ">", "&gt;")
	}
	return r.Replace(s)
}

func escAttr(s string, q string) string {
	r := strings.NewReplacer("&", "&amp;", "<", "&lt;", ">", "&gt;", q, map[string]string{`"`: "&quot;", `'`: "&apos;"}[q], "\n", "&#xA;", "\t", "&#x9;")
	return r.Replace(s)
}

// render writes the document in one of several concrete syntaxes (variant 0..2)
func (n *xNode) render(b *strings.Builder, variant int) {
	switch n.K {
	case "t":
		b.WriteString(escText(strings.Join(n.Tx, ""), variant))
		return
	case "c":
		b.WriteString("<!--" + strings.Join(n.Tx, "") + "-->")
		return
	case "d":
		b.WriteString("<!" + strings.Join(n.Tx, "") + ">")
		return
	case "p":
		b.WriteString("<?" + strings.Join(n.Nm.L, "") + " " + strings.Join(n.Tx, "") + "?>")
		return
	}
	q := `"`
	if variant == 1 {
		q = `'`
	}
	b.WriteString("<" + n.Nm.String())
	for _, a := range n.At {
		b.WriteString(" " + a.Nm.String() + "=" + q + escAttr(strings.Join(a.V, ""), q) + q)
	}
	if len(n.Ch) == 0 {
		if variant == 0 {
			b.WriteString("/>")
		} else {
			b.WriteString("></" + n.Nm.String() + ">")
		}
		return
	}
	b.WriteString(">")
	for _, c := range n.Ch {
		c.render(b, variant)
	}
	b.WriteString("</" + n.Nm.String() + ">")
}

func renderDoc(n *xNode, variant int) []byte {
	return []byte(subst1(string(renderDocRaw(n, variant))))
}

func renderDocRaw(n *xNode, variant int) []byte {
	var b strings.Builder
	switch variant {
	case 1:
		b.WriteString("<?xml version=\"1.0\"?>\n<!-- lead -->\n")
	case 2:
		b.WriteString("\xef\xbb\xbf \n")
	}
	n.render(&b, variant)
	if variant == 1 {
		b.WriteString("\n")
	}
	return []byte(b.String())
}

// tokensOf: the token stream encoding/xml sees (self-check of the renderer and well-formedness oracle)
// simpleTexts: (start tag, text) of every element whose whole content is one text run, verbatim -- the text of such an element
// is no inter-element white space, whatever it consists of
func simpleTexts(doc []byte) []string {
	toks, err := tokensOf(doc)
	if err != nil {
		return []string{"!" + err.Error()}
	}
	var out []string
	for i := 1; i+1 < len(toks); i++ {
		if strings.HasPrefix(toks[i], "T:") && strings.HasPrefix(toks[i-1], "<") && !strings.HasPrefix(toks[i-1], "</") && strings.HasPrefix(toks[i+1], "</") {
			out = append(out, toks[i-1]+"|"+toks[i])
		}
	}
	return out
}

func tokensOf(doc []byte) ([]string, error) {
	d := xml.NewDecoder(bytes.NewReader(doc))
	var toks []string
	for {
		t, err := d.RawToken()
		if err == io.EOF {
			return toks, nil
		}
		if err != nil {
			return toks, err
		}
		switch x := t.(type) {
		case xml.StartElement:
			s := "<" + rawName(x.Name)
			for _, a := range x.Attr {
				s += " " + rawName(a.Name) + "=" + a.Value
			}
			toks = append(toks, s)
		case xml.EndElement:
			toks = append(toks, "</"+rawName(x.Name))
		case xml.CharData:
			toks = append(toks, "T:"+string(x))
		case xml.Comment:
			toks = append(toks, "C:"+string(x))
		case xml.ProcInst:
			toks = append(toks, "P:"+x.Target+" "+string(x.Inst))
		case xml.Directive:
			toks = append(toks, "D:"+string(x))
		}
	}
}

func rawName(n xml.Name) string {
	if n.Space != "" {
		return n.Space + ":" + n.Local
	}
	return n.Local
}

// ---------------------------------------------------------------------------
// decoder options from the compact code "LSAKETC|apfx|kpfx" used by MC_C01
// ---------------------------------------------------------------------------
type decOpt struct {
	lower, snake, asmap, keep, escdec, tagseq, cast bool
	apfx, kpfx                                      string
}

func parseOptCode(c string) decOpt {
	parts := strings.SplitN(c, "|", 3)
	f := parts[0]
	return decOpt{f[0] == '1', f[1] == '1', f[2] == '1', f[3] == '1', f[4] == '1', f[5] == '1', f[6] == '1', subst1(parts[1]), parts[2]}
}

func (o decOpt) apply() {
	mxj.CoerceKeysToLower(o.lower)
	mxj.CoerceKeysToSnakeCase(o.snake)
	mxj.DecodeSimpleValuesAsMap(o.asmap)
	mxj.DisableTrimWhiteSpace(o.keep)
	mxj.XMLEscapeCharsDecoder(o.escdec)
	mxj.IncludeTagSeqNum(o.tagseq)
	mxj.SetAttrPrefix(o.apfx)
	mxj.SetGlobalKeyMapPrefix(o.kpfx)
}

func resetDecOpts() {
	decOpt{apfx: "-", kpfx: "#"}.apply()
}

type hideByteReader struct{ r io.Reader }

func (h hideByteReader) Read(p []byte) (int, error) { return h.r.Read(p) }

// ---------------------------------------------------------------------------
// family "dec" (C01): document + expected Maps grouped by option combination
// ---------------------------------------------------------------------------
type decGroup struct {
	R  *tagged.TV `json:"r"`
	Os []string   `json:"os"`
}
type decLine struct {
	F string     `json:"f"`
	D *xNode     `json:"d"`
	G []decGroup `json:"g"`
}

var decLineNo int
var decFailingDoc = []byte("<a><b>text<c></b></a>")

func replayDec(line []byte, a *Acc) {
	var l decLine
	if err := json.Unmarshal(line, &l); err != nil {
		panic(err)
	}
	decLineNo++
	defer resetDecOpts()
	variant := decLineNo % 3
	doc := renderDoc(l.D, variant)
	plain := renderDoc(l.D, 0)
	// renderer self-check: all variants present the same token stream up to syntax (elements, attributes, text)
	if _, err := tokensOf(doc); err != nil {
		a.mu.Lock()
		a.Fatal = fmt.Sprintf("renderer produced ill-formed XML %q: %v", doc, err)
		a.mu.Unlock()
		return
	}
	cases, nontriv := 0, 0
	for _, g := range l.G {
		exp := g.R.Norm()
		for _, code := range g.Os {
			o := parseOptCode(code)
			o.apply()
			cases++
			if len(l.D.Ch) > 0 || len(l.D.At) > 0 {
				nontriv++
			}
			one := func(sig, detail string) {
				a.Mis(sig, fmt.Sprintf("options %s, document %s: %s", code, plain, detail), decLine{F: "dec", D: l.D, G: []decGroup{{R: g.R, Os: []string{code}}}})
			}
			var m mxj.Map
			var err error
			entry := "NewMapXml"
			// a decode that FAILS (mismatched end tag after text and a child) comes first: nothing of it may show in the next result
			mxj.NewMapXml(decFailingDoc, o.cast)
			if p := guard(func() {
				switch (decLineNo + cases) % 4 {
				case 1:
					entry = "NewMapXmlReader"
					m, err = mxj.NewMapXmlReader(hideByteReader{bytes.NewReader(doc)}, o.cast)
				case 2:
					entry = "NewMapXmlReaderRaw"
					m, _, err = mxj.NewMapXmlReaderRaw(bytes.NewReader(doc), o.cast)
				default:
					m, err = mxj.NewMapXml(doc, o.cast)
				}
			}); p != "" {
				one("dec:panic", entry+": "+p)
				continue
			}
			if err != nil {
				one("dec:error", fmt.Sprintf("%s(%q) unexpected error %v", entry, doc, err))
				continue
			}
			if got := tagged.CanonGo(m); got != exp {
				one("dec:differs:"+decDiffClass(o), fmt.Sprintf("%s(%q) = %s, conventions give %s", entry, doc, short(got), short(exp)))
				continue
			}
			// the returned Map belongs to the caller: after it was filled, the same document decodes to the same Map again (sampled)
			if (decLineNo+cases)%8 == 0 && m != nil {
				m["zz-added-by-caller"] = "1"
				for k, v := range m {
					if mm, ok := v.(map[string]interface{}); ok {
						mm["zz-added-by-caller"] = "1"
						_ = k
					}
				}
				m2, err2 := mxj.NewMapXml(doc, o.cast)
				if err2 != nil || tagged.CanonGo(m2) != exp {
					one("dec:second-call-differs", fmt.Sprintf("after the Map returned for %q was filled by the caller, NewMapXml gives %s (err %v), conventions give %s", doc, short(tagged.CanonGo(m2)), err2, short(exp)))
				}
			}
		}
	}
	a.Count(cases, nontriv)
	if len(l.G) > 4 && len(l.D.Ch) > 1 {
		a.Sample(map[string]interface{}{"document": string(plain), "distinct_results": len(l.G), "one_result": l.G[0].R.Norm(), "under_options": l.G[0].Os[0]})
	}
}

func decDiffClass(o decOpt) string {
	var on []string
	for _, kv := range []struct {
		n string
		b bool
	}{{"lower", o.lower}, {"snake", o.snake}, {"asmap", o.asmap}, {"keep", o.keep}, {"escdec", o.escdec}, {"tagseq", o.tagseq}, {"cast", o.cast}} {
		if kv.b {
			on = append(on, kv.n)
		}
	}
	return strings.Join(on, "+") + ":apfx=" + o.apfx + ":kpfx=" + o.kpfx
}

func init() {
	register("dec", &family{replay: replayDec, serial: true,
		rule: "one case = (abstract document rendered in one of three concrete syntaxes, option combination, entry point NewMapXml/NewMapXmlReader/NewMapXmlReaderRaw); documents are the distinct TLC states of the document builder, option combinations all members of the domain; non-trivial = the root has attributes or children"})
}

// ---------------------------------------------------------------------------
// family "enc" (C02): document, option combinations, the Map the conventions give and the
// EXACT bytes Map.Xml() must produce for it; the real round trip is executed as well.
// ---------------------------------------------------------------------------
type encGroup struct {
	R  *tagged.TV `json:"r"`
	X  string     `json:"x"`
	Os []string   `json:"os"`
}
type encLine struct {
	F string     `json:"f"`
	D *xNode     `json:"d"`
	G []encGroup `json:"g"`
}

// significantTokens: the token stream with white-space-only character data dropped and the
// remaining character data trimmed (what "differs only in inter-element white space" means)
func significantTokens(doc []byte, keep bool) ([]string, error) {
	toks, err := tokensOf(doc)
	if err != nil {
		return nil, err
	}
	var out []string
	for _, t := range toks {
		if strings.HasPrefix(t, "T:") {
			body := t[2:]
			if strings.Trim(body, " \t\r\n") == "" {
				continue
			}
			if !keep {
				t = "T:" + strings.Trim(body, " \t\r\n")
			} else {
				// keep-spaces: blanks are content, tabs and newlines (the indentation used) are not
				t = "T:" + strings.Trim(body, "\t\r\n")
			}
		}
		out = append(out, t)
	}
	// <a></a> and <a/> are the same stream already (start + end token)
	return out, nil
}

var encLineNo int

func replayEnc(line []byte, a *Acc) {
	var l encLine
	if err := json.Unmarshal(line, &l); err != nil {
		panic(err)
	}
	encLineNo++
	defer func() { resetDecOpts(); mxj.XMLEscapeChars(false) }()
	doc := renderDoc(l.D, encLineNo%3)
	plain := renderDoc(l.D, 0)
	cases, nontriv := 0, 0
	var hl held
	defer hl.check(func(name, was, now string) {
		a.Mis("enc:result-changed-later", fmt.Sprintf("document %s: the result of %s was %q when returned and reads %q after later calls", plain, name, was, now), l)
	})
	for _, g := range l.G {
		expMap := g.R.Norm()
		for _, code := range g.Os {
			o := parseOptCode(code)
			o.apply()
			mxj.XMLEscapeChars(!o.escdec)
			cases++
			if strings.ContainsAny(g.X, "&") || len(l.D.Ch) > 1 {
				nontriv++
			}
			one := func(sig, detail string) {
				a.Mis(sig, fmt.Sprintf("options %s, document %s: %s", code, plain, detail), encLine{F: "enc", D: l.D, G: []encGroup{{R: g.R, X: g.X, Os: []string{code}}}})
			}
			m, err := mxj.NewMapXml(doc, o.cast)
			if err != nil || tagged.CanonGo(m) != expMap {
				one("enc:decode-differs", fmt.Sprintf("NewMapXml(%q) = %s, %v; conventions give %s", doc, tagged.CanonGo(m), err, short(expMap)))
				continue
			}
			before := tagged.CanonGo(m)
			var b, bi []byte
			var e1, e2 error
			if p := guard(func() { b, e1 = m.Xml(); bi, e2 = m.XmlIndent("", "\t") }); p != "" {
				one("enc:panic", p)
				continue
			}
			hl.add("Map.Xml() under "+code, b)
			hl.add("Map.XmlIndent() under "+code, bi)
			if e1 != nil || e2 != nil {
				one("enc:error", fmt.Sprintf("Xml/XmlIndent returned errors %v / %v", e1, e2))
				continue
			}
			if string(b) != subst1(g.X) {
				one("enc:bytes:"+decDiffClass(o), fmt.Sprintf("Map.Xml() = %q, specification gives %q", b, subst1(g.X)))
				continue
			}
			// well formed, single root
			ts, terr := significantTokens(b, o.keep)
			if terr != nil {
				one("enc:ill-formed", fmt.Sprintf("Map.Xml() = %q does not tokenize: %v", b, terr))
				continue
			}
			ti, tierr := significantTokens(bi, o.keep)
			if tierr != nil || strings.Join(ti, "\x00") != strings.Join(ts, "\x00") {
				one("enc:indent-differs:"+decDiffClass(o), fmt.Sprintf("XmlIndent = %q is not the compact form %q up to inter-element white space (%v)", bi, b, tierr))
				continue
			}
			// the round trip on the real code, both encoders
			for i, enc := range [][]byte{b, bi} {
				m2, err := mxj.NewMapXml(enc, o.cast)
				if err != nil || tagged.CanonGo(m2) != expMap {
					which := "Xml"
					if i == 1 {
						which = "XmlIndent"
					}
					one("enc:roundtrip:"+which+":"+decDiffClass(o), fmt.Sprintf("NewMapXml(%s = %q) = %s (err %v), first decode gave %s", which, enc, short(tagged.CanonGo(m2)), err, short(expMap)))
					break
				}
			}
			if tagged.CanonGo(m) != before {
				one("enc:receiver-modified", "encoding modified the Map")
			}
		}
	}
	a.Count(cases, nontriv)
	if len(l.G) > 3 && len(l.D.Ch) > 1 {
		a.Sample(map[string]interface{}{"document": string(plain), "options": l.G[0].Os[0], "map": l.G[0].R.Norm(), "expected_xml": l.G[0].X})
	}
}

// values of application types whose text is the string
type escLabel string

// onlyWriter: an io.Writer with no other method (no WriteString, no ReadFrom)
type onlyWriter struct{ b []byte }

func (w *onlyWriter) Write(p []byte) (int, error) { w.b = append(w.b, p...); return len(p), nil }

// subst1 maps the non-ASCII placeholder of the specification's alphabet
func subst1(s string) string {
	return strings.ReplaceAll(strings.ReplaceAll(s, "~", "é"), "`", "\u00a0")
}

func init() {
	register("enc", &family{replay: replayEnc, serial: true,
		rule: "one case = (document, symmetric option combination): decode, Map.Xml() compared byte for byte with the specification's rendering, XmlIndent token-equivalent, both re-decoded and compared with the first Map; non-trivial = the expected bytes contain an escaped character or the root has several children"})
}

func init() {
	tagged.Placeholders["~"] = "é"
	tagged.Placeholders["`"] = "\u00a0" // no-break space: white space for Unicode, DATA for XML (not trimmed)
}

// ---------------------------------------------------------------------------
// family "encv" (C03): JSON-shaped values, exact bytes of Map.Xml / Xml(root) / AnyXml under both
// empty-element syntaxes, indented forms token-equivalent, decode of the output = the
// specification's Decode(Encode(v)).
// ---------------------------------------------------------------------------
type encvCase struct {
	Kind string     `json:"kind"`
	Go   bool       `json:"go"`
	X    string     `json:"x"`
	One  bool       `json:"one"`
	Dec  *tagged.TV `json:"dec"`
}
type encvVal struct {
	Key string `json:"key"`
	Go  bool   `json:"go"`
	X   string `json:"x"`
}
type encvLine struct {
	F  string     `json:"f"`
	Ap string     `json:"ap,omitempty"`
	Kp string     `json:"kp,omitempty"`
	M  *tagged.TV `json:"m"`
	Cs []encvCase `json:"cs"`
	Vs []encvVal  `json:"vs"`
}

func replayEncv(line []byte, a *Acc) {
	var l encvLine
	if err := json.Unmarshal(line, &l); err != nil {
		panic(err)
	}
	defer func() {
		mxj.XmlDefaultEmptyElemSyntax()
		mxj.XMLEscapeChars(false)
		mxj.SetAttrPrefix("-")
		mxj.SetGlobalKeyMapPrefix("#")
	}()
	mxj.XMLEscapeChars(true)
	if l.Kp != "" {
		mxj.SetAttrPrefix(l.Ap)
		mxj.SetGlobalKeyMapPrefix(l.Kp)
	}
	mv := l.M.ToMap()
	before := tagged.CanonGo(mv)
	nontriv := 0
	setGo := func(g bool) {
		if g {
			mxj.XmlGoEmptyElemSyntax()
		} else {
			mxj.XmlDefaultEmptyElemSyntax()
		}
	}
	var hl held
	defer hl.check(func(name, was, now string) {
		a.Mis("encv:result-changed-later", fmt.Sprintf("value %s: the result of %s was %q when returned and reads %q after later encoder calls", short(before), name, was, now), l)
	})
	for _, c := range l.Cs {
		setGo(c.Go)
		one := func(sig, detail string) {
			a.Mis(sig, fmt.Sprintf("value %s (go-empty-syntax %v): %s", short(before), c.Go, detail), encvLine{F: "encv", Ap: l.Ap, Kp: l.Kp, M: l.M, Cs: []encvCase{c}})
		}
		if c.One {
			nontriv++
		}
		var b, bi []byte
		var err, erri error
		name := ""
		if p := guard(func() {
			switch c.Kind {
			case "xml":
				name = "Map.Xml()"
				b, err = mv.Xml()
			case "xmlroot":
				name = `Map.Xml("r")`
				b, err = mv.Xml("r")
				bi, erri = mv.XmlIndent("", "  ", "r")
			case "indentroot":
				name = "Map.XmlIndent()"
				bi, erri = mv.XmlIndent("", "  ")
			case "any":
				name = `AnyXml(m,"r")`
				b, err = mxj.AnyXml(map[string]interface{}(mv), "r")
				bi, erri = mxj.AnyXmlIndent(map[string]interface{}(mv), "", "  ", "r")
			case "xmlroota":
				name = `Map.Xml("a")`
				b, err = mv.Xml("a")
				bi, erri = mv.XmlIndent("", "  ", "a")
			case "anya":
				name = `AnyXml(m,"a")`
				b, err = mxj.AnyXml(map[string]interface{}(mv), "a")
				bi, erri = mxj.AnyXmlIndent(map[string]interface{}(mv), "", "  ", "a")
			}
		}); p != "" {
			one("encv:panic:"+c.Kind, name+": "+p)
			continue
		}
		hl.add(name, b)
		hl.add(name+" (indented)", bi)
		wantErr := c.X == "!ERR"
		if c.Kind != "indentroot" {
			if (err != nil) != wantErr {
				one(fmt.Sprintf("encv:%s:error-class:go=%v", c.Kind, c.Go), fmt.Sprintf("%s returned (%q, %v), specification says %q", name, b, err, c.X))
				continue
			}
			if !wantErr && string(b) != c.X {
				one(fmt.Sprintf("encv:%s:bytes:go=%v", c.Kind, c.Go), fmt.Sprintf("%s = %q, specification gives %q", name, b, c.X))
				continue
			}
		}
		if c.Kind == "xml" && !wantErr {
			// the writer forms put the same bytes into ANY io.Writer: one that has nothing but Write (a pipe, a hash, a compressor)
			var ow onlyWriter
			if e := mv.XmlWriter(&ow); e != nil || string(ow.b) != string(b) {
				one("encv:writer:bytes", fmt.Sprintf("XmlWriter into a writer that has only Write wrote %q (err %v), Map.Xml() = %q", ow.b, e, b))
				continue
			}
			wi, ei := mv.XmlIndent("", " ")
			ow.b = nil
			if e := mv.XmlIndentWriter(&ow, "", " "); (e != nil) != (ei != nil) || (ei == nil && string(ow.b) != string(wi)) {
				one("encv:writer:bytes", fmt.Sprintf("XmlIndentWriter into a writer that has only Write wrote %q (err %v), Map.XmlIndent = %q (err %v)", ow.b, e, wi, ei))
				continue
			}
		}
		if wantErr {
			if bi != nil && erri == nil {
				one("encv:"+c.Kind+":indent-no-error", fmt.Sprintf("indented form returned %q without error", bi))
			}
			continue
		}
		if bi != nil || c.Kind == "indentroot" {
			if erri != nil {
				one("encv:"+c.Kind+":indent-error", fmt.Sprintf("indented form of %s failed: %v", name, erri))
				continue
			}
			ts, e1 := significantTokens([]byte(c.X), false)
			ti, e2 := significantTokens(bi, false)
			if e1 != nil || e2 != nil || strings.Join(ts, "\x00") != strings.Join(ti, "\x00") {
				one(fmt.Sprintf("encv:%s:indent-differs:go=%v", c.Kind, c.Go), fmt.Sprintf("indented form %q is not %q up to inter-element white space (%v %v)", bi, c.X, e1, e2))
				continue
			}
		}
		// the validity check on top: a well-formed result is returned unchanged (compact and indented), an ill-formed one is an error
		if c.Kind == "xml" || c.Kind == "indentroot" {
			mxj.XmlCheckIsValid(true)
			var vb, vbi []byte
			var ve, vei error
			p := guard(func() { vb, ve = mv.Xml(); vbi, vei = mv.XmlIndent("", "  ") })
			mxj.XmlCheckIsValid(false)
			if p != "" {
				one("encv:checkvalid-panic", p)
			} else if c.Kind == "xml" {
				if wf := wellFormed([]byte(c.X)) == nil; wf && (ve != nil || string(vb) != c.X) {
					one("encv:xml:checkvalid:bytes", fmt.Sprintf("with XmlCheckIsValid(true) Map.Xml() = %q (err %v), without it %q", vb, ve, c.X))
				} else if !wf && ve == nil {
					one("encv:xml:checkvalid:silent", fmt.Sprintf("with XmlCheckIsValid(true) Map.Xml() returned the ill-formed %q without an error", vb))
				}
			} else if bi != nil && erri == nil {
				if wf := wellFormed(bi) == nil; wf && (vei != nil || string(vbi) != string(bi)) {
					one("encv:indentroot:checkvalid:bytes", fmt.Sprintf("with XmlCheckIsValid(true) Map.XmlIndent() = %q (err %v), without it %q", vbi, vei, bi))
				}
			}
		}
		if c.One && c.Kind != "indentroot" {
			m2, derr := mxj.NewMapXml(b)
			if derr != nil || tagged.CanonGo(m2) != c.Dec.Norm() {
				one("encv:"+c.Kind+":decode", fmt.Sprintf("NewMapXml(%q) = %s (err %v), specification gives %s", b, tagged.CanonGo(m2), derr, c.Dec.Norm()))
			}
		}
	}
	for _, c := range l.Vs {
		setGo(c.Go)
		v := map[string]interface{}(mv)[c.Key]
		var b []byte
		var err error
		if p := guard(func() { b, err = mxj.AnyXml(v, "r") }); p != "" {
			a.Mis("encv:anyval:panic", p, encvLine{F: "encv", Ap: l.Ap, Kp: l.Kp, M: l.M, Vs: []encvVal{c}})
			continue
		}
		if (err != nil) != (c.X == "!ERR") || (err == nil && string(b) != c.X) {
			a.Mis(fmt.Sprintf("encv:anyval:bytes:go=%v", c.Go), fmt.Sprintf("AnyXml(%s, \"r\") = (%q, %v), specification gives %q", tagged.CanonGo(v), b, err, c.X), encvLine{F: "encv", Ap: l.Ap, Kp: l.Kp, M: l.M, Vs: []encvVal{c}})
		}
	}
	if tagged.CanonGo(mv) != before {
		a.Mis("encv:receiver-modified", "encoding modified the value "+before, l)
	}
	// ... and this value twice in one list: as two equal trees, and as one object met twice
	if len(mv) > 0 {
		mxj.XmlDefaultEmptyElemSyntax()
		inner := map[string]interface{}(mv)
		tree := mxj.Map{"p": []interface{}{inner, tagged.DeepCopyGo(inner)}}
		graph := mxj.Map{"p": []interface{}{inner, inner}}
		b1, e1 := tree.Xml()
		b2, e2 := graph.Xml()
		if string(b1) != string(b2) || (e1 != nil) != (e2 != nil) {
			a.Mis("encv:shared-subdocuments", fmt.Sprintf("value %s twice in a list: as two equal trees Map.Xml() = (%q, %v); as one object met twice (%q, %v)", short(before), b1, e1, b2, e2), l)
		}
	}
	// the same document with equal sub-documents held as ONE object (a graph without cycles is still this document): same bytes
	if shared, ok := tagged.InternGo(map[string]interface{}(mv)).(map[string]interface{}); ok && tagged.SharedContainer(shared) != "" {
		mxj.XmlDefaultEmptyElemSyntax()
		b1, e1 := mv.Xml()
		b2, e2 := mxj.Map(shared).Xml()
		i1, e3 := mv.XmlIndent("", " ")
		i2, e4 := mxj.Map(shared).XmlIndent("", " ")
		if string(b1) != string(b2) || (e1 != nil) != (e2 != nil) || string(i1) != string(i2) || (e3 != nil) != (e4 != nil) {
			a.Mis("encv:shared-subdocuments", fmt.Sprintf("value %s: Map.Xml() = (%q, %v); with equal sub-documents held as one object (%q, %v); indented (%v / %v)", short(before), b1, e1, b2, e2, e3, e4), l)
		}
	}
	a.Count(len(l.Cs)+len(l.Vs), nontriv)
	if len(l.M.KV) > 2 {
		a.Sample(map[string]interface{}{"value": before, "expected": l.Cs[0]})
	}
}

func init() {
	register("encv", &family{replay: replayEncv, serial: true,
		rule: "one case = (JSON-shaped Map, entry point Xml / Xml(root) / XmlIndent / AnyXml(+Indent) or AnyXml on a top-level value, empty-element syntax); non-trivial = the encoding has a single root"})
}

// ---------------------------------------------------------------------------
// family "seq" (C04): NewMapXmlSeq / MapSeq.Xml / XmlIndent / BeautifyXml / NewMapFormattedXmlSeq
// ---------------------------------------------------------------------------
type seqGroup struct {
	Code string     `json:"code"`
	R    *tagged.TV `json:"r"`
	X    string     `json:"x"`
}
type seqLine struct {
	F string     `json:"f"`
	D *xNode     `json:"d"`
	G []seqGroup `json:"g"`
}

var seqLineNo int

// ">ws<" inside a comment, directive or processing instruction of the indented output
var formattedBlunt = regexp.MustCompile(`(?s)<!--[^>]*>[\n\t\r ]*<.*?-->|<\?[^>]*>[\n\t\r ]*<.*?\?>`)

func hasMixed(n *xNode) bool {
	txt, el := false, false
	for _, c := range n.Ch {
		if c.K == "t" && strings.TrimSpace(strings.Join(c.Tx, "")) != "" {
			txt = true
		}
		if c.K == "e" {
			el = true
			if hasMixed(c) {
				return true
			}
		}
	}
	return txt && el
}

func replaySeq(line []byte, a *Acc) {
	var l seqLine
	if err := json.Unmarshal(line, &l); err != nil {
		panic(err)
	}
	seqLineNo++
	defer func() {
		mxj.CoerceKeysToSnakeCase(false)
		mxj.SetGlobalKeyMapPrefix("#")
		mxj.XMLEscapeChars(false)
		mxj.XmlDefaultEmptyElemSyntax()
	}()
	mxj.XMLEscapeChars(true)
	variant := 0
	if seqLineNo%2 == 1 {
		variant = 1 // single quotes, <a></a>, CDATA -- but NO declaration/leading comment (that is the NoRoot case)
	}
	var sb strings.Builder
	l.D.render(&sb, variant)
	doc := []byte(subst1(sb.String()))
	var pb strings.Builder
	l.D.render(&pb, 0)
	plain := pb.String()
	mixed := "plain"
	if hasMixed(l.D) {
		mixed = "mixed"
	}
	cases := 0
	var hl held
	defer hl.check(func(name, was, now string) {
		a.Mis("seq:result-changed-later", fmt.Sprintf("document %s: the result of %s was %q when returned and reads %q after later calls", plain, name, was, now), l)
	})
	for _, g := range l.G {
		parts := strings.SplitN(g.Code, "|", 3)
		mxj.CoerceKeysToSnakeCase(parts[0] == "1")
		mxj.SetGlobalKeyMapPrefix(parts[1])
		if parts[2] == "1" {
			mxj.XmlGoEmptyElemSyntax()
		} else {
			mxj.XmlDefaultEmptyElemSyntax()
		}
		cases++
		one := func(sig, detail string) {
			a.Mis(sig, fmt.Sprintf("options %s, document %s: %s", g.Code, plain, detail), seqLine{F: "seq", D: l.D, G: []seqGroup{g}})
		}
		var ms mxj.MapSeq
		var err error
		if p := guard(func() {
			if cases%2 == 0 {
				ms, err = mxj.NewMapXmlSeq(doc)
			} else {
				ms, err = mxj.NewMapXmlSeqReader(hideByteReader{bytes.NewReader(doc)})
			}
		}); p != "" {
			one("seq:decode-panic", p)
			continue
		}
		if err != nil || tagged.CanonGo(map[string]interface{}(ms)) != g.R.Norm() {
			one("seq:decode:"+mixed, fmt.Sprintf("NewMapXmlSeq(%q) = %s (err %v), specification gives %s", doc, short(tagged.CanonGo(map[string]interface{}(ms))), err, short(g.R.Norm())))
			continue
		}
		var b, bi, bb []byte
		var e1, e2, e3 error
		if p := guard(func() { b, e1 = ms.Xml() }); p != "" {
			one("seq:encode-panic:"+mixed, "MapSeq.Xml: "+p)
			continue
		}
		if e1 != nil || string(b) != subst1(g.X) {
			one("seq:bytes:"+mixed, fmt.Sprintf("MapSeq.Xml() = %q (err %v), specification gives %q", b, e1, subst1(g.X)))
			continue
		}
		if p := guard(func() { bi, e2 = ms.XmlIndent("", "  "); bb, e3 = mxj.BeautifyXml(doc, "", " ") }); p != "" {
			one("seq:indent-panic:"+mixed, p)
			continue
		}
		// the same MapSeq after a JSON round trip (Copy): its sequence numbers are float64 now, the encoding is the same
		if cp, cerr := mxj.Map(ms).Copy(); cerr == nil {
			var cb []byte
			var ce error
			if p := guard(func() { cb, ce = mxj.MapSeq(cp).Xml() }); p != "" {
				one("seq:after-copy-panic:"+mixed, p)
			} else if ce != nil || string(cb) != string(b) {
				one("seq:after-copy:"+mixed, fmt.Sprintf("MapSeq.Xml() after Map.Copy() = %q (err %v), before %q", cb, ce, b))
			}
		}
		hl.add("MapSeq.Xml() under "+g.Code, b)
		hl.add("MapSeq.XmlIndent() under "+g.Code, bi)
		hl.add("BeautifyXml() under "+g.Code, bb)
		ts, _ := significantTokens(b, false)
		for i, out := range [][]byte{bi, bb} {
			name := []string{"MapSeq.XmlIndent", "BeautifyXml"}[i]
			if e := []error{e2, e3}[i]; e != nil {
				one("seq:"+name+":error", e.Error())
				break
			}
			ti, terr := significantTokens(out, false)
			if terr != nil || strings.Join(ti, "\x00") != strings.Join(ts, "\x00") {
				one("seq:"+name+":differs:"+mixed, fmt.Sprintf("%s = %q is not %q up to inter-element white space (%v)", name, out, b, terr))
				break
			}
		}
		// the round trip on the real code: decoding the output again gives the same MapSeq
		ms2, derr := mxj.NewMapXmlSeq(b)
		if derr != nil || tagged.CanonGo(map[string]interface{}(ms2)) != g.R.Norm() {
			one("seq:roundtrip:"+mixed, fmt.Sprintf("NewMapXmlSeq(MapSeq.Xml() = %q) = %s (err %v)", b, short(tagged.CanonGo(map[string]interface{}(ms2))), derr))
			continue
		}
		// the formatted decoder on the indented output (it deletes white space between ANY '>' and '<' of the raw bytes,
		// documented as blunt: a comment or instruction whose own text holds "> <" is outside what it promises)
		if !hasMixed(l.D) && !formattedBlunt.Match(bi) {
			ms3, ferr := mxj.NewMapFormattedXmlSeq(bi)
			if ferr != nil || tagged.CanonGo(map[string]interface{}(ms3)) != g.R.Norm() {
				one("seq:formatted", fmt.Sprintf("NewMapFormattedXmlSeq(%q) = %s (err %v), expected %s", bi, short(tagged.CanonGo(map[string]interface{}(ms3))), ferr, short(g.R.Norm())))
			}
		}
	}
	nt := 0
	if len(l.D.Ch) > 1 || len(l.D.At) > 1 {
		nt = cases
	}
	a.Count(cases, nt)
	if len(l.D.Ch) > 2 && len(l.D.At) > 0 {
		a.Sample(map[string]interface{}{"document": plain, "mapseq": l.G[0].R.Norm(), "expected_xml": l.G[0].X})
	}
}

func init() {
	register("seq", &family{replay: replaySeq, serial: true,
		rule: "one case = (document, snake-case / key-prefix setting): NewMapXmlSeq[Reader] compared with DecodeSeq, MapSeq.Xml byte for byte with EncodeSeq, XmlIndent / BeautifyXml / NewMapFormattedXmlSeq token-equivalent, real round trip; non-trivial = the root has several children or attributes"})
}

// ---------------------------------------------------------------------------
// family "esc" (C05): one string in element, attribute and mixed position through the four XML
// encoders and the three escaping modes, validity check on/off.
// ---------------------------------------------------------------------------
type escLine struct {
	F     string `json:"f"`
	S     string `json:"s"`
	E     string `json:"e"`
	Xe    string `json:"xe"`
	Xa    string `json:"xa"`
	Xa2   string `json:"xa2"`
	S2    string `json:"s2"`
	Xm    string `json:"xm"`
	Xl    string `json:"xl"`
	RawOK bool   `json:"rawok"`
}

func wellFormed(b []byte) error {
	d := xml.NewDecoder(bytes.NewReader(b))
	depth, roots := 0, 0
	for {
		t, err := d.Token()
		if err == io.EOF {
			if depth != 0 {
				return fmt.Errorf("unbalanced")
			}
			return nil
		}
		if err != nil {
			return err
		}
		switch t.(type) {
		case xml.StartElement:
			if depth == 0 {
				roots++
			}
			depth++
		case xml.EndElement:
			depth--
		}
	}
}

func trimDoc(s string) string { return strings.Trim(s, "\t\r\b\n ") }

func replayEsc(line []byte, a *Acc) {
	var l escLine
	if err := json.Unmarshal(line, &l); err != nil {
		panic(err)
	}
	defer func() {
		mxj.XMLEscapeChars(false)
		mxj.XMLEscapeCharsDecoder(false)
		mxj.XmlCheckIsValid(false)
	}()
	one := func(sig, detail string) { a.Mis(sig, fmt.Sprintf("string %q: %s", l.S, detail), l) }
	cases := 0
	// the internal function itself
	if got := mxj.VerifEscapeChars(l.S); got != l.E {
		one("esc:escapeChars", fmt.Sprintf("escapeChars = %q, specification %q", got, l.E))
	}
	maps := map[string]mxj.Map{
		"elem":  {"a": l.S},
		"attr":  {"a": map[string]interface{}{"-x": l.S}},
		"mixed": {"a": map[string]interface{}{"#text": l.S, "b": ""}},
		"list":  {"a": []interface{}{l.S, "x"}},
		"attr2": {"a": map[string]interface{}{"-x": l.S, "-y": l.S2}},
	}
	seqs := map[string]mxj.MapSeq{
		"elem":  {"a": map[string]interface{}{"#text": l.S, "#seq": 0}},
		"attr":  {"a": map[string]interface{}{"#attr": map[string]interface{}{"x": map[string]interface{}{"#text": l.S, "#seq": 0}}}},
		"mixed": {"a": map[string]interface{}{"#text": l.S, "#seq": 0, "b": map[string]interface{}{"#text": "", "#seq": 1}}},
		"attr2": {"a": map[string]interface{}{"#attr": map[string]interface{}{"x": map[string]interface{}{"#text": l.S, "#seq": 0}, "y": map[string]interface{}{"#text": l.S2, "#seq": 1}}}},
	}
	expX := map[string]string{"elem": l.Xe, "attr": l.Xa, "mixed": l.Xm, "list": l.Xl, "attr2": l.Xa2}
	// ---- mode 1: encoder-side escaping
	mxj.XMLEscapeChars(true)
	for pos, m := range maps {
		cases++
		b, err := m.Xml()
		if err != nil || string(b) != expX[pos] {
			one("esc:enc:bytes:"+pos, fmt.Sprintf("Map.Xml = %q (%v), specification %q", b, err, expX[pos]))
			continue
		}
		// the same value held as []byte (a documented value type of the encoder): the same bytes, escaped once
		bs, bs2 := []byte(l.S), []byte(l.S2)
		twin := map[string]mxj.Map{
			"elem":  {"a": bs},
			"attr":  {"a": map[string]interface{}{"-x": bs}},
			"mixed": {"a": map[string]interface{}{"#text": bs, "b": ""}},
			"list":  {"a": []interface{}{bs, "x"}},
			"attr2": {"a": map[string]interface{}{"-x": bs, "-y": bs2}},
		}[pos]
		if tb, terr := twin.Xml(); terr != nil || string(tb) != expX[pos] {
			one("esc:enc:bytes-value:"+pos, fmt.Sprintf("with the value held as []byte Map.Xml = %q (%v), specification %q", tb, terr, expX[pos]))
			continue
		}
		// ... and as a value of a string-kinded application type (rendered with %v, then text like any other)
		if pos == "elem" || pos == "list" {
			for ti, tv := range []interface{}{escLabel(l.S)} { // (struct-kinded values go through xml.Marshal: not text)
				tm := mxj.Map{"a": tv}
				if pos == "list" {
					tm = mxj.Map{"a": []interface{}{tv, "x"}}
				}
				if tb, terr := tm.Xml(); terr != nil || string(tb) != expX[pos] {
					one("esc:enc:named-value:"+pos, fmt.Sprintf("with the value held as %s Map.Xml = %q (%v), specification %q", []string{"a named string type", "a fmt.Stringer"}[ti], tb, terr, expX[pos]))
					break
				}
			}
		}
		bi, erri := m.XmlIndent("", " ")
		for i, out := range [][]byte{b, bi} {
			name := []string{"Xml", "XmlIndent"}[i]
			if i == 1 && erri != nil {
				one("esc:enc:indent-error", erri.Error())
				continue
			}
			if werr := wellFormed(out); werr != nil {
				one("esc:enc:ill-formed:"+pos, fmt.Sprintf("Map.%s = %q: %v", name, out, werr))
				continue
			}
			back, derr := mxj.NewMapXml(out)
			want := l.S
			var got interface{}
			switch pos {
			case "elem":
				got, _ = back.ValueForPath("a")
				want = trimDoc(l.S)
			case "attr":
				got, _ = back.ValueForPath("a.-x")
			case "attr2":
				g1, _ := back.ValueForPath("a.-x")
				g2, _ := back.ValueForPath("a.-y")
				got, want = fmt.Sprint(g1, "\x00", g2), fmt.Sprint(l.S, "\x00", l.S2)
			case "mixed":
				got, _ = back.ValueForPath("a.#text")
				want = trimDoc(l.S)
				if want == "" {
					got = ""
				}
			case "list":
				got, _ = back.ValueForPath("doc.a[0]")
				want = trimDoc(l.S)
			}
			if derr != nil || got != want {
				one("esc:enc:decode-back:"+pos+":"+name, fmt.Sprintf("Map.%s = %q decodes to %q (err %v), want %q", name, out, got, derr, want))
			}
		}
	}
	for pos, ms := range seqs {
		cases++
		var b, bi []byte
		var err, erri error
		if p := guard(func() { b, err = ms.Xml(); bi, erri = ms.XmlIndent("", " ") }); p != "" {
			one("esc:seq:panic:"+pos, p)
			continue
		}
		for i, out := range [][]byte{b, bi} {
			name := []string{"MapSeq.Xml", "MapSeq.XmlIndent"}[i]
			if e := []error{err, erri}[i]; e != nil {
				one("esc:seq:error:"+pos, name+": "+e.Error())
				continue
			}
			if werr := wellFormed(out); werr != nil {
				one("esc:seq:ill-formed:"+pos, fmt.Sprintf("%s = %q: %v", name, out, werr))
				continue
			}
			back, derr := mxj.NewMapXmlSeq(out)
			var got interface{}
			want := l.S
			switch pos {
			case "elem", "mixed":
				got, _ = mxj.Map(back).ValueForPath("a.#text")
				want = trimDoc(l.S)
				if want == "" {
					got = ""
				}
			case "attr":
				got, _ = mxj.Map(back).ValueForPath("a.#attr.x.#text")
			case "attr2":
				g1, _ := mxj.Map(back).ValueForPath("a.#attr.x.#text")
				g2, _ := mxj.Map(back).ValueForPath("a.#attr.y.#text")
				got, want = fmt.Sprint(g1, "\x00", g2), fmt.Sprint(l.S, "\x00", l.S2)
			}
			if derr != nil || got != want {
				one("esc:seq:decode-back:"+pos, fmt.Sprintf("%s = %q decodes to %q (err %v), want %q", name, out, got, derr, want))
			}
		}
	}
	// ---- mode 2: escaping off, validity check on: well-formed output or an error, never silent
	mxj.XMLEscapeChars(false)
	mxj.XmlCheckIsValid(true)
	for pos, m := range maps {
		cases++
		b, err := m.Xml()
		bi, erri := m.XmlIndent("", " ")
		if err == nil && wellFormed(b) != nil {
			one("esc:check:silent:Map.Xml:"+pos, fmt.Sprintf("returned ill-formed %q without error", b))
		}
		if erri == nil && wellFormed(bi) != nil {
			one("esc:check:silent:Map.XmlIndent:"+pos, fmt.Sprintf("returned ill-formed %q without error", bi))
		}
	}
	for pos, ms := range seqs {
		cases++
		var b, bi []byte
		var err, erri error
		if p := guard(func() { b, err = ms.Xml(); bi, erri = ms.XmlIndent("", " ") }); p != "" {
			one("esc:check:seq-panic:"+pos, p)
			continue
		}
		if err == nil && wellFormed(b) != nil {
			one("esc:check:silent:MapSeq.Xml:"+pos, fmt.Sprintf("returned ill-formed %q without error", b))
		}
		if erri == nil && wellFormed(bi) != nil {
			one("esc:check:silent:MapSeq.XmlIndent:"+pos, fmt.Sprintf("returned ill-formed %q without error", bi))
		}
	}
	// ... and keys that are not XML names (nothing the escaping of VALUES can mend): with the check on, whatever the escaping switch
	// says, the four encoders alike return an error -- the check is the check's business, not the escaping switch's
	for _, escOn := range []bool{false, true} {
		mxj.XMLEscapeChars(escOn)
		badMaps := map[string]mxj.Map{"key": {"1st a": l.S}, "attr-key": {"a": map[string]interface{}{"-x y": "v", "#text": l.S}}}
		for pos, m := range badMaps {
			cases++
			b, err := m.Xml()
			bi, erri := m.XmlIndent("", " ")
			if err == nil && wellFormed(b) != nil {
				one(fmt.Sprintf("esc:check:silent-key:Map.Xml:%s:esc=%v", pos, escOn), fmt.Sprintf("returned ill-formed %q without error", b))
			}
			if erri == nil && wellFormed(bi) != nil {
				one(fmt.Sprintf("esc:check:silent-key:Map.XmlIndent:%s:esc=%v", pos, escOn), fmt.Sprintf("returned ill-formed %q without error", bi))
			}
		}
		sq := mxj.MapSeq{"1st a": map[string]interface{}{"#text": l.S, "#seq": 0}}
		var b, bi []byte
		var err, erri error
		if p := guard(func() { b, err = sq.Xml(); bi, erri = sq.XmlIndent("", " ") }); p == "" {
			if err == nil && wellFormed(b) != nil {
				one(fmt.Sprintf("esc:check:silent-key:MapSeq.Xml:esc=%v", escOn), fmt.Sprintf("returned ill-formed %q without error", b))
			}
			if erri == nil && wellFormed(bi) != nil {
				one(fmt.Sprintf("esc:check:silent-key:MapSeq.XmlIndent:esc=%v", escOn), fmt.Sprintf("returned ill-formed %q without error", bi))
			}
		}
	}
	mxj.XMLEscapeChars(false)
	mxj.XmlCheckIsValid(false)
	// ---- mode 3: decoder-side escaping: decode, encode (raw), decode again reproduces the stored values
	mxj.XMLEscapeCharsDecoder(true)
	docs := map[string]*xNode{
		"elem":  {K: "e", Nm: xName{L: []string{"a"}}, Ch: []*xNode{{K: "t", Tx: []string{l.S}}}},
		"attr":  {K: "e", Nm: xName{L: []string{"a"}}, At: []xAttr{{Nm: xName{L: []string{"x"}}, V: []string{l.S}}}},
		"mixed": {K: "e", Nm: xName{L: []string{"a"}}, Ch: []*xNode{{K: "t", Tx: []string{l.S}}, {K: "e", Nm: xName{L: []string{"b"}}}}},
		// a namespace declaration is an attribute like any other (a URI with a query string holds an ampersand)
		"nsattr": {K: "e", Nm: xName{L: []string{"a"}}, At: []xAttr{{Nm: xName{P: "xmlns", L: []string{"p"}}, V: []string{l.S}}}},
	}
	for pos, dn := range docs {
		cases++
		doc := renderDocRaw(dn, 0)
		m, err := mxj.NewMapXml(doc)
		if err != nil {
			one("esc:dec:decode-error:"+pos, fmt.Sprintf("NewMapXml(%q): %v", doc, err))
			continue
		}
		// stored value = escaped (trimmed) original
		var got interface{}
		want := l.E
		switch pos {
		case "elem":
			got, _ = m.ValueForPath("a")
			want = mxj.VerifEscapeChars(trimDoc(l.S))
		case "attr":
			got, _ = m.ValueForPath("a.-x")
		case "nsattr":
			got, _ = m.ValueForPath("a.-p")
		case "mixed":
			got, _ = m.ValueForPath("a.#text")
			want = mxj.VerifEscapeChars(trimDoc(l.S))
			if want == "" {
				got = ""
			}
		}
		if got != want {
			one("esc:dec:stored:"+pos, fmt.Sprintf("NewMapXml(%q) stored %q, want the escaped value %q", doc, got, want))
			continue
		}
		before := tagged.CanonGo(m)
		for _, indent := range []bool{false, true} {
			var b []byte
			var e error
			if indent {
				b, e = m.XmlIndent("", " ")
			} else {
				b, e = m.Xml()
			}
			m2, e2 := mxj.NewMapXml(b)
			if e != nil || e2 != nil || tagged.CanonGo(m2) != before {
				one("esc:dec:not-reproduced:"+pos, fmt.Sprintf("encode (indent=%v) gave %q (%v); decoding it gives %s (%v), first decode %s", indent, b, e, tagged.CanonGo(m2), e2, before))
			}
		}
	}
	// the same clause for the sequence decoder: plain and PREFIXED attribute, element text
	seqDocs := map[string]*xNode{
		"elem":   docs["elem"],
		"attr":   docs["attr"],
		"pattr":  {K: "e", Nm: xName{L: []string{"a"}}, At: []xAttr{{Nm: xName{P: "p", L: []string{"n"}}, V: []string{l.S}}, {Nm: xName{P: "xml", L: []string{"lang"}}, V: []string{l.S}}}},
		"nsattr": docs["nsattr"],
	}
	for pos, dn := range seqDocs {
		cases++
		var sb strings.Builder
		dn.render(&sb, 0)
		doc := []byte(sb.String())
		ms, err := mxj.NewMapXmlSeq(doc)
		if err != nil {
			one("esc:dec:seq-decode-error:"+pos, fmt.Sprintf("NewMapXmlSeq(%q): %v", doc, err))
			continue
		}
		before := tagged.CanonGo(map[string]interface{}(ms))
		b, e := ms.Xml()
		if e != nil || wellFormed(b) != nil {
			one("esc:dec:seq-ill-formed:"+pos, fmt.Sprintf("NewMapXmlSeq(%q) then MapSeq.Xml = %q (err %v): not well formed", doc, b, e))
			continue
		}
		ms2, e2 := mxj.NewMapXmlSeq(b)
		if e2 != nil || tagged.CanonGo(map[string]interface{}(ms2)) != before {
			one("esc:dec:seq-not-reproduced:"+pos, fmt.Sprintf("MapSeq.Xml = %q decodes to %s (%v), first decode %s", b, tagged.CanonGo(map[string]interface{}(ms2)), e2, before))
		}
	}
	nt := 0
	if l.E != l.S {
		nt = cases
	}
	a.Count(cases, nt)
	if len(l.S) > 6 && l.E != l.S {
		a.Sample(map[string]interface{}{"string": l.S, "escaped": l.E, "element": l.Xe, "attribute": l.Xa, "mixed": l.Xm})
	}
}

func init() {
	register("esc", &family{replay: replayEsc, serial: true,
		rule: "one case = (string, position element/attribute/mixed, escaping mode, encoder); non-trivial = the string contains a character that must be escaped"})
}
