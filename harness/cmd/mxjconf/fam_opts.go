package main

import (
	"bytes"
	"encoding/json"
	"fmt"
	"io"
	"sort"
	"strconv"
	"strings"

	mxj "github.com/clbanning/mxj/v2"
	"github.com/clbanning/mxj/v2/j2x"
	wrap "github.com/clbanning/mxj/v2/x2j-wrapper"
	"verif/harness/tagged"
)

// ---------------------------------------------------------------------------
// family "opts" (C18): every history of setter calls generated from MxjOptions is replayed
// through the PUBLIC setters; after every call the code's registers (VerifOptions) must
// equal the specification's state, including the derived registers; at the end of the
// history (a) every operation class must give the same result with all registers the
// specification calls irrelevant reset to their defaults, (b) after the explicit restore
// sequence every probe must give what it gives in a fresh process.
// ---------------------------------------------------------------------------

type optState struct {
	O             map[string]interface{} `json:"o"`
	LenAttrPrefix int                    `json:"lenAttrPrefix"`
	TrimRunes     string                 `json:"trimRunes"`
	Keys          map[string]string      `json:"keys"`
}
type optCall struct {
	Fn  string    `json:"fn"`
	Arg string    `json:"arg"`
	St  *optState `json:"st,omitempty"`
}
type optsLine struct {
	F       string                            `json:"f"`
	Hist    []optCall                         `json:"hist"`
	Restore []optCall                         `json:"restore"`
	Init    optState                          `json:"init"`
	Proj    map[string]map[string]interface{} `json:"proj"`
	Rel     map[string][]string               `json:"rel"`
}

func boolArgs(arg string) []bool {
	switch arg {
	case "T":
		return []bool{true}
	case "F":
		return []bool{false}
	}
	return nil
}

func skipFn(k string) bool { return k == "e_f" || k == "e-f" || k == "-B" || k == "-b" || k == "" } // ("": never asked -- the sequence decoder casts under the empty tag, the check-function is not for it)

func applyCall(fn, arg string) {
	b := boolArgs(arg)
	switch fn {
	case "IncludeTagSeqNum":
		mxj.IncludeTagSeqNum(b...)
	case "CoerceKeysToLower":
		mxj.CoerceKeysToLower(b...)
	case "CoerceKeysToSnakeCase":
		mxj.CoerceKeysToSnakeCase(b...)
	case "CastValuesToInt":
		mxj.CastValuesToInt(b...)
	case "HandleXMPPStreamTag":
		mxj.HandleXMPPStreamTag(b...)
	case "DecodeSimpleValuesAsMap":
		mxj.DecodeSimpleValuesAsMap(b...)
	case "CastNanInf":
		mxj.CastNanInf(b...)
	case "CastValuesToFloat":
		mxj.CastValuesToFloat(b...)
	case "CastValuesToBool":
		mxj.CastValuesToBool(b...)
	case "XmlCheckIsValid":
		mxj.XmlCheckIsValid(b...)
	case "LeafUseDotNotation":
		mxj.LeafUseDotNotation(b...)
	case "DisableTrimWhiteSpace":
		mxj.DisableTrimWhiteSpace(b...)
	case "PrependAttrWithHyphen":
		mxj.PrependAttrWithHyphen(arg == "T")
	case "SetAttrPrefix":
		mxj.SetAttrPrefix(arg)
	case "XMLEscapeChars":
		mxj.XMLEscapeChars(b...)
	case "XMLEscapeCharsDecoder":
		mxj.XMLEscapeCharsDecoder(b...)
	case "XmlGoEmptyElemSyntax":
		mxj.XmlGoEmptyElemSyntax()
	case "XmlDefaultEmptyElemSyntax":
		mxj.XmlDefaultEmptyElemSyntax()
	case "SetFieldSeparator":
		if arg == "none" {
			mxj.SetFieldSeparator()
		} else {
			mxj.SetFieldSeparator(arg)
		}
	case "SetArraySize":
		n, _ := strconv.Atoi(arg)
		mxj.SetArraySize(n)
	case "SetGlobalKeyMapPrefix":
		mxj.SetGlobalKeyMapPrefix(arg)
	case "SetCheckTagToSkipFunc":
		if arg == "T" {
			mxj.SetCheckTagToSkipFunc(skipFn)
		} else {
			mxj.SetCheckTagToSkipFunc(nil)
		}
	case "JsonUseNumber":
		mxj.JsonUseNumber = arg == "T"
	default:
		panic("opts: unknown setter " + fn)
	}
}

// setAll drives every register to the given specification state with explicit calls
func setAll(o map[string]interface{}) {
	tf := func(k string) string {
		if o[k].(bool) {
			return "T"
		}
		return "F"
	}
	mxj.SetAttrPrefix(o["attrPrefix"].(string))
	applyCall("IncludeTagSeqNum", tf("tagSeq"))
	applyCall("CoerceKeysToLower", tf("lower"))
	applyCall("CoerceKeysToSnakeCase", tf("snake"))
	applyCall("DisableTrimWhiteSpace", tf("keepSpaces"))
	applyCall("DecodeSimpleValuesAsMap", tf("simpleAsMap"))
	applyCall("HandleXMPPStreamTag", tf("xmpp"))
	applyCall("CastValuesToInt", tf("castInt"))
	applyCall("CastValuesToFloat", tf("castFloat"))
	applyCall("CastValuesToBool", tf("castBool"))
	applyCall("CastNanInf", tf("castNanInf"))
	applyCall("SetCheckTagToSkipFunc", tf("skipTag"))
	if o["goEmpty"].(bool) {
		mxj.XmlGoEmptyElemSyntax()
	} else {
		mxj.XmlDefaultEmptyElemSyntax()
	}
	applyCall("XmlCheckIsValid", tf("checkValid"))
	mxj.XMLEscapeCharsDecoder(false)
	mxj.XMLEscapeChars(false)
	if o["escDec"].(bool) {
		mxj.XMLEscapeCharsDecoder(true)
	} else if o["escEnc"].(bool) {
		mxj.XMLEscapeChars(true)
	}
	applyCall("LeafUseDotNotation", tf("dot"))
	mxj.SetFieldSeparator(o["fieldSep"].(string))
	mxj.SetArraySize(int(o["arraySize"].(float64)))
	mxj.SetGlobalKeyMapPrefix(o["keyPrefix"].(string))
	mxj.JsonUseNumber = o["jsonUseNumber"].(bool)
}

func trimSym(s string) string {
	r := ""
	for _, c := range s {
		switch c {
		case '\t':
			r += "T"
		case '\r':
			r += "R"
		case '\b':
			r += "B"
		case '\n':
			r += "N"
		case ' ':
			r += "S"
		default:
			r += "?"
		}
	}
	return r
}

// diffState compares the code's registers with the specification's state
func diffState(st *optState) string {
	v := mxj.VerifOptions()
	var d []string
	for k, want := range st.O {
		if k == "keyPrefix" {
			continue // observed through the eight special keys below
		}
		got := v[k]
		if k == "arraySize" {
			want = int(want.(float64))
		}
		if got != want {
			d = append(d, fmt.Sprintf("%s=%v (spec %v)", k, got, want))
		}
	}
	if v["lenAttrPrefix"] != st.LenAttrPrefix {
		d = append(d, fmt.Sprintf("lenAttrPrefix=%v (spec %v)", v["lenAttrPrefix"], st.LenAttrPrefix))
	}
	if trimSym(v["trimRunes"].(string)) != st.TrimRunes {
		d = append(d, fmt.Sprintf("trimRunes=%q (spec %s)", v["trimRunes"], st.TrimRunes))
	}
	for k, want := range st.Keys {
		if v[k] != want {
			d = append(d, fmt.Sprintf("%s=%v (spec %v)", k, v[k], want))
		}
	}
	sort.Strings(d)
	return strings.Join(d, ", ")
}

// ---- probes: one per operation class of MxjOptions!Relevant -----------------------------
const probeDoc = `<Doc-A x-y="1" B="t" n="NaN"> <e-f> 7 </e-f><e-f>true</e-f><g/><h k="&amp;&lt;">x &lt; y</h><stream>s</stream><E-F>9</E-F></Doc-A>`
const probeSeqDoc = `<p:A xmlns:p="u" z-z="1 &amp; &lt;" p:W="2"><!--c--><?t i?><B-c> v </B-c><d>&lt;7</d><B-c>true</B-c><e>NaN</e><stream:stream x="1"><y/></stream:stream></p:A>`

func digest(v interface{}, err error) string {
	if err != nil {
		return "ERR " + err.Error()
	}
	switch x := v.(type) {
	case []byte:
		return string(x)
	case string:
		return x
	}
	return tagged.CanonGo(v)
}

func probeValue(kp string) map[string]interface{} {
	// keys use the CURRENT special-key prefix only through the option; the Map itself is fixed
	return map[string]interface{}{"doc": map[string]interface{}{
		"-x": "1", "@y": "2", "at_z": "3", "#text": "t<&", "_text": "u", "%text": "w",
		"e": []interface{}{"a", nil, map[string]interface{}{"-k": "v"}, 1.5, true},
		"f": "", "g": map[string]interface{}{}, "h": []interface{}{}, "i": map[string]interface{}{"-only": "attr"},
		"j": map[string]interface{}{"k": "x", "l": "y"},
	}}
}

var probes = map[string]func() string{
	"decode": func() string {
		m, err := mxj.NewMapXml([]byte(probeDoc))
		return digest(map[string]interface{}(m), err)
	},
	"decodeCast": func() string {
		m, err := mxj.NewMapXml([]byte(probeDoc), true)
		return digest(map[string]interface{}(m), err)
	},
	"decodeSeq": func() string {
		m, err := mxj.NewMapXmlSeq([]byte(probeSeqDoc))
		return digest(map[string]interface{}(m), err)
	},
	"decodeSeqCast": func() string {
		m, err := mxj.NewMapXmlSeq([]byte(probeSeqDoc), true)
		return digest(map[string]interface{}(m), err)
	},
	"encode": func() string {
		m := mxj.Map(probeValue(""))
		a, e1 := m.Xml()
		b, e2 := m.XmlIndent("", "  ")
		c, e3 := mxj.AnyXml([]interface{}{"x", map[string]interface{}{"k": "<"}}, "r", "e")
		return digest(a, e1) + "\n" + digest(b, e2) + "\n" + digest(c, e3)
	},
	"encodeSeq": func() string {
		k := mxj.VerifOptions()
		tx, sq, at := k["textK"].(string), k["seqK"].(string), k["attrK"].(string)
		ms := mxj.MapSeq{"a": map[string]interface{}{
			at:  map[string]interface{}{"x": map[string]interface{}{tx: "1<", sq: 0}},
			"b": map[string]interface{}{tx: "v&", sq: 1},
			"c": map[string]interface{}{tx: "", sq: 0},
		}}
		a, e1 := ms.Xml()
		b, e2 := ms.XmlIndent("", " ")
		return digest(a, e1) + "\n" + digest(b, e2)
	},
	"jsonEncode": func() string {
		m := mxj.Map(probeValue(""))
		a, e1 := m.Json()
		b, e2 := m.JsonIndent("", " ", true)
		return digest(a, e1) + "\n" + digest(b, e2)
	},
	"jsonDecode": func() string {
		m, err := mxj.NewMapJson([]byte(`{"n":1.0,"big":12345678901234567890,"s":"x","l":[1,{"k":2e1}]}`))
		return digest(map[string]interface{}(m), err)
	},
	"leaf": func() string {
		m := mxj.Map(probeValue(""))
		ln := m.LeafNodes(true)
		s := make([]string, len(ln))
		for i, l := range ln {
			s[i] = l.Path + "=" + tagged.CanonGo(l.Value)
		}
		sort.Strings(s)
		lp := m.LeafPaths()
		sort.Strings(lp)
		return strings.Join(s, ";") + "\n" + strings.Join(lp, ";")
	},
	"query": func() string {
		m := mxj.Map{"a": []interface{}{map[string]interface{}{"k": "v", "n": "1"}, map[string]interface{}{"k": "w:x", "n": "2"}, map[string]interface{}{"k": "w|x", "n": "3"}}}
		r := ""
		for _, sk := range []string{"k:v", "k|v", "k:w:x", "k|w:x", "k:w|x"} {
			v, err := m.ValuesForPath("a", sk)
			r += digest(v, err) + ";"
			v, err = m.ValuesForKey("a", sk)
			r += digest(v, err) + ";"
		}
		c := mxj.Map(tagged.DeepCopyGo(map[string]interface{}(m)).(map[string]interface{}))
		n, err := c.UpdateValuesForPath("n:9", "a", "k:v")
		r += fmt.Sprint(n, err) + tagged.CanonGo(c)
		n, err = c.UpdateValuesForPath("n|8", "a", "k|v")
		r += fmt.Sprint(n, err) + tagged.CanonGo(c)
		// keys with upper-case letters, hyphens and a multi-byte character: the key-folding registers are the DECODER's, a query
		// takes the keys of the Map and the names of the path as they are
		u := mxj.Map{"Doc-A": map[string]interface{}{"Item": []interface{}{map[string]interface{}{"SKU": "x", "É-b": "y"}, map[string]interface{}{"SKU": "z"}}, "item": "lower"}}
		for _, p := range []string{"Doc-A.Item.SKU", "Doc-A.Item[1].SKU", "Doc-A.item", "doc-a.item", "Doc-A.Item.É-b", "Doc_A.Item.SKU", "*.Item.SKU"} {
			v, err := u.ValuesForPath(p)
			ex, _ := u.Exists(p)
			r += digest(v, err) + fmt.Sprint(ex) + ";"
		}
		v, err := u.ValuesForKey("SKU")
		ps := u.PathsForKey("SKU")
		sort.Strings(ps)
		r += digest(v, err) + fmt.Sprint(ps, u.PathForKeyShortest("item")) + ";"
		return r
	},
	"struct": func() string {
		m := mxj.Map(probeValue(""))
		e, e1 := m.Elements("doc")
		a, e2 := m.Attributes("doc")
		return fmt.Sprint(e, e1, a, e2)
	},
}

var probeRef map[string]string
var optsInitDiff string

func optsInit() {
	probeRef = map[string]string{}
	for k, p := range probes {
		probeRef[k] = p()
	}
}

// sensitivity: which single register, flipped alone from the defaults, changes which probe.
// Used once, on the first line: every register the specification lists as relevant for an
// operation class must actually influence that class's probe (otherwise the independence
// check would be vacuous for it), and no other register may.
var sensChecked bool

func flipped(init map[string]interface{}, reg string) map[string]interface{} {
	o := map[string]interface{}{}
	for k, v := range init {
		o[k] = v
	}
	switch v := o[reg].(type) {
	case bool:
		o[reg] = !v
	case string:
		switch reg {
		case "attrPrefix":
			o[reg] = "@"
		case "fieldSep":
			o[reg] = "|"
		case "keyPrefix":
			o[reg] = "_"
		}
	case float64:
		o[reg] = float64(64)
	}
	if reg == "escEnc" {
		o["escDec"] = false
	}
	return o
}

func checkSensitivity(l *optsLine, a *Acc) {
	sensChecked = true
	for op, rel := range l.Rel {
		isRel := map[string]bool{}
		for _, r := range rel {
			isRel[r] = true
		}
		base := runProbe(op)
		for reg := range l.Init.O {
			setAll(flipped(l.Init.O, reg))
			got := runProbe(op)
			setAll(l.Init.O)
			// every register is back at its default (set through the public setters): otherwise that is the finding, and what
			// the probes show afterwards means nothing
			if d := diffState(&l.Init); d != "" {
				a.Mis("opts:restore:"+reg, fmt.Sprintf("register %s changed alone and all options set back to their defaults through the public setters: %s", reg, d), l)
				return
			}
			changed := got != base
			if changed && !isRel[reg] {
				a.Mis("opts:leak-single:"+op+":"+reg, fmt.Sprintf("register %s alone changes operation %s, which the specification says is independent of it:\n%s\n--- default:\n%s", reg, op, short(got), short(base)), l)
			}
			// (the sequence encoder reads the key prefix only to recognise the special keys of its
			// input, and the probe input is built with the current keys: legitimately no effect)
			if !changed && isRel[reg] && !(op == "encodeSeq" && reg == "keyPrefix") {
				a.Add("insensitive:"+op+":"+reg, 1)
				a.mu.Lock()
				a.Fatal = fmt.Sprintf("probe for %s is not influenced by register %s although the specification lists it as relevant (vacuous probe)", op, reg)
				a.mu.Unlock()
			}
		}
	}
}

func runProbe(name string) (res string) {
	if p := guard(func() { res = probes[name]() }); p != "" {
		return "PANIC " + p
	}
	return res
}

func replayOpts(line []byte, a *Acc) {
	var l optsLine
	if err := json.Unmarshal(line, &l); err != nil {
		panic(err)
	}
	one := func(sig, detail string) {
		hs := []string{}
		for _, c := range l.Hist {
			hs = append(hs, c.Fn+"("+c.Arg+")")
		}
		a.Mis(sig, "history "+strings.Join(hs, " ")+": "+detail, l)
	}
	// the process must be at the defaults when a history starts
	if d := diffState(&l.Init); d != "" {
		a.Mis("opts:not-at-defaults-before-history", d, l)
		setAll(l.Init.O)
	}
	if !sensChecked && len(l.Rel) > 0 {
		checkSensitivity(&l, a)
	}
	ok := true
	for i, c := range l.Hist {
		if p := guard(func() { applyCall(c.Fn, c.Arg) }); p != "" {
			one("opts:setter-panic:"+c.Fn, p)
			ok = false
			break
		}
		if d := diffState(c.St); d != "" {
			one("opts:register:"+c.Fn+":arg="+argClass(c.Arg), fmt.Sprintf("after call %d %s(%s): %s", i+1, c.Fn, c.Arg, d))
			ok = false
			break
		}
	}
	cases := len(l.Hist)
	if ok && len(l.Hist) > 0 {
		// (a) each operation class depends only on the registers the specification lists
		last := l.Hist[len(l.Hist)-1].St
		full := map[string]string{}
		for name := range probes {
			full[name] = runProbe(name)
		}
		names := make([]string, 0, len(probes))
		for name := range probes {
			names = append(names, name)
		}
		sort.Strings(names)
		for _, name := range names {
			pr, okp := l.Proj[name]
			if !okp {
				continue
			}
			setAll(pr)
			got := runProbe(name)
			cases++
			if got != full[name] {
				irrelevant := []string{}
				for k, v := range last.O {
					if fmt.Sprint(pr[k]) != fmt.Sprint(v) {
						irrelevant = append(irrelevant, k)
					}
				}
				sort.Strings(irrelevant)
				one("opts:leak:"+name+":"+strings.Join(irrelevant, "+"), fmt.Sprintf("operation %s gives a different result when the registers %v, which it must not depend on, are reset to their defaults:\n--- with them set:\n%s\n--- reset:\n%s", name, irrelevant, short(full[name]), short(got)))
			}
			setAll(last.O)
		}
	}
	// (b) explicit restore, then everything behaves as in a fresh process
	for _, c := range l.Restore {
		applyCall(c.Fn, c.Arg)
	}
	if d := diffState(&l.Init); d != "" {
		one("opts:restore-registers", "after restoring every option: "+d)
		setAll(l.Init.O)
	} else {
		for name := range probes {
			cases++
			if got := runProbe(name); got != probeRef[name] {
				one("opts:restore-behaviour:"+name, fmt.Sprintf("after restoring every option %s differs from a fresh process:\n%s\n--- fresh:\n%s", name, short(got), short(probeRef[name])))
			}
		}
	}
	a.Count(cases, len(l.Hist))
	if len(l.Hist) > 3 {
		hs := []string{}
		for _, c := range l.Hist {
			hs = append(hs, c.Fn+"("+c.Arg+")")
		}
		a.Sample(map[string]interface{}{"history": hs, "final_state": l.Hist[len(l.Hist)-1].St.O})
	}
}

func argClass(a string) string {
	switch a {
	case "T", "F", "none":
		return a
	}
	return "value"
}

func init() {
	register("opts", &family{replay: replayOpts, serial: true, initOnce: optsInit,
		rule: "one case = one setter call of a history (registers compared after it) or one probe comparison (operation class under full vs projected registers; after restore vs fresh process); non-trivial = setter calls"})
}

// ---------------------------------------------------------------------------
// family "mxj" (integrated specification Mxj.tla): a SESSION -- setter calls interleaved with operation
// calls on fixed probe inputs; after every operation call the real result is compared with the
// result the specification recorded for that step (a function of the registers at that point).
// ---------------------------------------------------------------------------
type mxjStep struct {
	Fn  string          `json:"fn,omitempty"`
	Arg string          `json:"arg"`
	Op  string          `json:"op,omitempty"`
	R   json.RawMessage `json:"r,omitempty"`
}
type mxjLine struct {
	F       string    `json:"f"`
	Hist    []mxjStep `json:"hist"`
	Restore []optCall `json:"restore"`
}

const mxjProbeDoc = `<D-a x-Y="1" B=" &amp;">` + "\n" + `<e-f> 7 </e-f><e-f>&lt;v</e-f><g/><s>  </s><n>` + "\u00a0v\u00a0" + `</n><h k="q">true</h>` + "\n" + `</D-a>`
const mxjXmppDoc = `<stream:stream to="x" A-b="&amp;"><a>1</a><B-c k="q"> 2 </B-c></stream:stream>`
const mxjProbeSeqDoc = `<p:A z-z="1&amp;"><!--c--><B-c> v </B-c><d>&lt;7</d><_e>1</_e><s>  </s></p:A>`

func mxjProbeMap() mxj.Map {
	return mxj.Map{"doc": map[string]interface{}{"-x": "1", "@y": "2", "#text": "t<", "_text": "u",
		"e": []interface{}{"a", "", map[string]interface{}{"-k": "v"}}, "g": map[string]interface{}{}, "E": "w", "-X": "3", "__n": 7.0, "___u": "4"}}
}
func mxjLeafMap() mxj.Map {
	return mxj.Map{"doc": map[string]interface{}{"-x": "1", "@y": "2", "#text": "t", "_text": "u", "___u": "4",
		"e": []interface{}{"a", map[string]interface{}{"-k": "v", "#text": "w"}, "b", map[string]interface{}{"f": []interface{}{"c", "d"}}}}}
}
func mxjQueryMap() mxj.Map {
	return mxj.Map{"a": []interface{}{
		map[string]interface{}{"id": "1", "c": "x"},
		map[string]interface{}{"id": "2", "c": "x:x"},
		map[string]interface{}{"id": "3", "c": "x|x"},
		map[string]interface{}{"id": "4", "c|x": "x"},
		map[string]interface{}{"id": "5", "c:x": "x"},
		map[string]interface{}{"id": "6", "x": "c"}}}
}

// runs one operation of a session on the real package and returns a canonical rendering of its result,
// together with the canonical rendering of the specification's result r
func mxjOp(st mxjStep) (name, got, want string) {
	switch st.Op {
	case "dec":
		var tv tagged.TV
		if err := json.Unmarshal(st.R, &tv); err != nil {
			panic(err)
		}
		var m mxj.Map
		var err error
		if st.Arg == "cast" {
			name = "NewMapXml(probe, true)"
			m, err = mxj.NewMapXml([]byte(mxjProbeDoc), true)
		} else if st.Arg == "simple" {
			name = "NewMapXml(<T-i> hi </T-i>)"
			m, err = mxj.NewMapXml([]byte(`<T-i> hi </T-i>`))
		} else {
			name = "NewMapXml(probe)"
			m, err = mxj.NewMapXml([]byte(mxjProbeDoc))
		}
		return name, tagged.CanonGo(m) + fmt.Sprint(err), tv.Norm() + "<nil>"
	case "seq":
		var tv tagged.TV
		if err := json.Unmarshal(st.R, &tv); err != nil {
			panic(err)
		}
		ms, err := mxj.NewMapXmlSeq([]byte(mxjProbeSeqDoc))
		return "NewMapXmlSeq(probe)", tagged.CanonGo(map[string]interface{}(ms)) + fmt.Sprint(err), tv.Norm() + "<nil>"
	case "enc":
		var x string
		if err := json.Unmarshal(st.R, &x); err != nil {
			panic(err)
		}
		// (the probe text is not escaped in some register states: bytes are compared, not validity)
		cv := mxj.VerifOptions()["checkValid"].(bool)
		mxj.XmlCheckIsValid(false)
		b, err := mxjProbeMap().Xml()
		mxj.XmlCheckIsValid(cv)
		if x == "!ERR" {
			return "Map.Xml(probe) error class", cls(err), "err"
		}
		return "Map.Xml(probe)", string(b) + fmt.Sprint(err), x + "<nil>"
	case "leaf":
		var exp []leafExp
		if err := json.Unmarshal(st.R, &exp); err != nil {
			panic(err)
		}
		ln := mxjLeafMap().LeafNodes(st.Arg == "T")
		g := make([]string, len(ln))
		for i, n := range ln {
			g[i] = n.Path + " = " + tagged.CanonGo(n.Value)
		}
		w := make([]string, len(exp))
		for i, e := range exp {
			w[i] = e.P + " = " + e.V.Norm()
		}
		sort.Strings(g)
		sort.Strings(w)
		return "LeafNodes(" + st.Arg + ")", strings.Join(g, "; "), strings.Join(w, "; ")
	case "upd":
		var exp struct {
			Ok   bool       `json:"ok"`
			C    int        `json:"c"`
			Post *tagged.TV `json:"post"`
		}
		if err := json.Unmarshal(st.R, &exp); err != nil {
			panic(err)
		}
		m := mxjQueryMap()
		n, err := m.UpdateValuesForPath(st.Arg, "a")
		name = fmt.Sprintf("UpdateValuesForPath(%q, \"a\")", st.Arg)
		if !exp.Ok {
			return name + " error class", cls(err) + " " + tagged.CanonGo(m), "err " + exp.Post.Norm()
		}
		return name, fmt.Sprintf("%d %v %s", n, err, tagged.CanonGo(m)), fmt.Sprintf("%d <nil> %s", exp.C, exp.Post.Norm())
	case "beautify":
		// BeautifyXml of the sequence probe: only its effect on the registers is of interest here (none), and that it succeeds
		cv := mxj.VerifOptions()["checkValid"].(bool) // (the probe text is not escaped in some register states)
		mxj.XmlCheckIsValid(false)
		_, err := mxj.BeautifyXml([]byte(mxjProbeSeqDoc), "", " ")
		mxj.XmlCheckIsValid(cv)
		return "BeautifyXml(probe)", cls(err), "ok"
	case "copy":
		var tv tagged.TV
		if err := json.Unmarshal(st.R, &tv); err != nil {
			panic(err)
		}
		cp, err := mxj.Map{"n": json.Number("1.50"), "s": "x", "l": []interface{}{2.0, "y"}}.Copy()
		return "Copy of {n:Number(1.50),s:x,l:[2,y]}", tagged.CanonGo(cp) + fmt.Sprint(err), tv.Norm() + "<nil>"
	case "rename":
		var tv tagged.TV
		if err := json.Unmarshal(st.R, &tv); err != nil {
			panic(err)
		}
		m := mxj.Map{"a": map[string]interface{}{"b": "1", "c": "2", "ab-c": "3"}}
		err := m.RenameKey("a.b", st.Arg)
		if tv.T == "s" { // the specification says: refused
			return fmt.Sprintf("RenameKey(\"a.b\", %q) error class", st.Arg), cls(err) + " " + tagged.CanonGo(m), "err " + tagged.CanonGo(mxj.Map{"a": map[string]interface{}{"b": "1", "c": "2", "ab-c": "3"}})
		}
		return fmt.Sprintf("RenameKey(\"a.b\", %q)", st.Arg), tagged.CanonGo(m) + fmt.Sprint(err), tv.Norm() + "<nil>"
	case "updk":
		var exp struct {
			Ok   bool       `json:"ok"`
			C    int        `json:"c"`
			Post *tagged.TV `json:"post"`
		}
		if err := json.Unmarshal(st.R, &exp); err != nil {
			panic(err)
		}
		m := mxjQueryMap()
		n, err := m.UpdateValuesForPath(map[string]interface{}{"id": "Z"}, "a", st.Arg)
		name = fmt.Sprintf("UpdateValuesForPath({id:Z}, \"a\", %q)", st.Arg)
		if !exp.Ok {
			return name + " error class", cls(err) + " " + tagged.CanonGo(m), "err " + exp.Post.Norm()
		}
		return name, fmt.Sprintf("%d %v %s", n, err, tagged.CanonGo(m)), fmt.Sprintf("%d <nil> %s", exp.C, exp.Post.Norm())
	case "vfp":
		var exp []*tagged.TV
		if err := json.Unmarshal(st.R, &exp); err != nil {
			panic(err)
		}
		wide := make([]interface{}, 40)
		for i := range wide {
			wide[i] = "v" + strconv.Itoa(i+1)
		}
		vals, err := mxj.Map{"a": wide}.ValuesForPath(st.Arg)
		// (a result belongs to the caller whatever the array-size register holds: two other queries come before it is read)
		mxj.Map{"q": []interface{}{"p", "q", "r"}}.ValuesForPath("q")
		mxj.Map{"q": []interface{}{"s", "t"}}.ValuesForKey("q")
		return fmt.Sprintf("ValuesForPath(%q) on a list of 40", st.Arg), strings.Join(tagged.CanonList(vals), " ") + fmt.Sprint(err), strings.Join(tagged.NormList(exp), " ") + "<nil>"
	case "newmap":
		var tv tagged.TV
		if err := json.Unmarshal(st.R, &tv); err != nil {
			panic(err)
		}
		nm, err := mxjQueryMap().NewMap(strings.Split(st.Arg, "+")...)
		return fmt.Sprintf("NewMap(%q)", st.Arg), tagged.CanonGo(nm) + fmt.Sprint(err), tv.Norm() + "<nil>"
	case "struct":
		var exp []string
		if err := json.Unmarshal(st.R, &exp); err != nil {
			panic(err)
		}
		var got []string
		var err error
		if st.Arg == "elems" {
			name = `Elements("doc")`
			got, err = mxjLeafMap().Elements("doc")
		} else {
			name = `Attributes("doc")`
			got, err = mxjLeafMap().Attributes("doc")
		}
		return name, fmt.Sprint(strings.Join(got, ","), err), fmt.Sprint(strings.Join(exp, ","), "<nil>")
	case "legacy":
		var exp struct {
			X string     `json:"x"`
			M *tagged.TV `json:"m"`
		}
		if err := json.Unmarshal(st.R, &exp); err != nil {
			panic(err)
		}
		if st.Arg == "j2xnum" {
			const jn = `{"n":1.50,"s":"x"}`
			cv := mxj.VerifOptions()["checkValid"].(bool)
			mxj.XmlCheckIsValid(false)
			b1, e1 := j2x.JsonToXml([]byte(jn))
			var w2, w4 bytes.Buffer
			e2 := j2x.JsonToXmlWriter([]byte(jn), &w2)
			_, b3, e3 := j2x.JsonReaderToXml(strings.NewReader(jn))
			e4 := j2x.JsonReaderToXmlWriter(hideByteReader{strings.NewReader(jn)}, &w4)
			mxj.XmlCheckIsValid(cv)
			return "j2x.JsonToXml / JsonToXmlWriter / JsonReaderToXml / JsonReaderToXmlWriter on " + jn,
				fmt.Sprint(string(b1), e1, " | ", w2.String(), e2, " | ", string(b3), e3, " | ", w4.String(), e4),
				fmt.Sprint(exp.X, "<nil> | ", exp.X, "<nil> | ", exp.X, "<nil> | ", exp.X, "<nil>")
		}
		if st.Arg == "j2x" {
			jb, _ := json.Marshal(map[string]interface{}(mxjProbeMap()))
			cv := mxj.VerifOptions()["checkValid"].(bool)
			mxj.XmlCheckIsValid(false)
			b, err := j2x.JsonToXml(jb)
			mxj.XmlCheckIsValid(cv)
			if exp.X == "!ERR" {
				return "j2x.JsonToXml(probe) error class", cls(err), "err"
			}
			return "j2x.JsonToXml(probe)", string(b) + fmt.Sprint(err), exp.X + "<nil>"
		}
		wrap.CastNanInf(true) // the wrapper's own flag: it must not reach the core's register
		defer wrap.CastNanInf(false)
		var m map[string]interface{}
		var err error
		if st.Arg == "x2jcast" {
			name = "x2j-wrapper DocToMap(probe, true)"
			m, err = wrap.DocToMap(mxjProbeDoc, true)
		} else {
			name = "x2j-wrapper DocToMap(probe)"
			m, err = wrap.DocToMap(mxjProbeDoc)
		}
		return name, tagged.CanonGo(m) + fmt.Sprint(err), exp.M.Norm() + "<nil>"
	case "xmpp":
		var exp struct {
			Ms  []*tagged.TV `json:"ms"`
			End string       `json:"end"`
		}
		if err := json.Unmarshal(st.R, &exp); err != nil {
			panic(err)
		}
		w := make([]string, len(exp.Ms))
		for i, t := range exp.Ms {
			w[i] = t.Norm()
		}
		var g []string
		end := "none"
		one := func(m map[string]interface{}, err error) bool {
			if err == io.EOF && len(m) == 0 {
				end = "EOF"
				return false
			} else if err != nil && err != io.EOF {
				end = "err"
				return false
			}
			g = append(g, tagged.CanonGo(m))
			return true
		}
		switch st.Arg {
		case "map":
			m, err := mxj.NewMapXml([]byte(mxjXmppDoc))
			one(m, err)
		case "seq":
			m, err := mxj.NewMapXmlSeq([]byte(mxjXmppDoc))
			one(m, err)
		case "reader":
			r := strings.NewReader(mxjXmppDoc)
			for i := 0; i < 8; i++ {
				m, err := mxj.NewMapXmlReader(r)
				if !one(m, err) {
					break
				}
			}
		case "seqreader":
			r := hideByteReader{strings.NewReader(mxjXmppDoc)}
			for i := 0; i < 8; i++ {
				m, err := mxj.NewMapXmlSeqReader(r)
				if !one(m, err) {
					break
				}
			}
		}
		return "XMPP stream (" + st.Arg + ")", strings.Join(g, " | ") + " end=" + end, strings.Join(w, " | ") + " end=" + exp.End
	case "seqrt":
		var x string
		if err := json.Unmarshal(st.R, &x); err != nil {
			panic(err)
		}
		ms, err := mxj.NewMapXmlSeq([]byte(mxjProbeSeqDoc))
		if err != nil {
			return "NewMapXmlSeq(probe)", "error " + err.Error(), x
		}
		cv := mxj.VerifOptions()["checkValid"].(bool)
		mxj.XmlCheckIsValid(false)
		b, err := ms.Xml()
		mxj.XmlCheckIsValid(cv)
		return "MapSeq.Xml() of NewMapXmlSeq(probe)", string(b) + fmt.Sprint(err), x + "<nil>"
	case "json":
		var tv tagged.TV
		if err := json.Unmarshal(st.R, &tv); err != nil {
			panic(err)
		}
		m, err := mxj.NewMapJson([]byte(`{"n":1.50,"s":"x"}`))
		if st.Arg == "reader" {
			m, err = mxj.NewMapJsonReader(hideByteReader{strings.NewReader(`{"n":1.50,"s":"x"}`)})
		}
		nv := "?"
		switch x := m["n"].(type) {
		case json.Number:
			nv = "num:" + string(x)
		case float64:
			nv = "f:" + tagged.FloatToken(x)
		}
		want := tv.KV["n"].T + ":" + tv.KV["n"].V
		return `NewMapJson({"n":1.50,"s":"x"})`, fmt.Sprint(nv, " ", m["s"], err), fmt.Sprint(want, " ", tv.KV["s"].V, "<nil>")
	case "cast":
		var exp []string
		if err := json.Unmarshal(st.R, &exp); err != nil {
			panic(err)
		}
		// two siblings: the casts of both members of the list r.c (the structure is the decoder's, the leaf values the cast's)
		name = fmt.Sprintf("members of r.c in NewMapXml(<r><c>%s</c><c>%s</c></r>, true)", st.Arg, st.Arg)
		m, err := mxj.NewMapXml([]byte("<r><c>"+st.Arg+"</c><c>"+st.Arg+"</c></r>"), true)
		if err != nil {
			return name, "error " + err.Error(), expTok(exp) + " " + expTok(exp)
		}
		got := "r.c is not a list of two"
		if r, ok := m["r"].(map[string]interface{}); ok {
			if l, ok := r["c"].([]interface{}); ok && len(l) == 2 {
				toks := make([]string, 2)
				for i, v := range l {
					if cm, ok := v.(map[string]interface{}); ok { // simple values as map / sequence numbers: the text entry
						v = cm[mxj.VerifOptions()["textK"].(string)]
					}
					toks[i] = leafTok(v)
				}
				got = toks[0] + " " + toks[1]
			} else {
				got = "r.c = " + tagged.CanonGo(r["c"])
			}
		}
		return name, got, expTok(exp) + " " + expTok(exp)
	case "query":
		var exp struct {
			Ok   bool         `json:"ok"`
			Vals []*tagged.TV `json:"vals"`
		}
		if err := json.Unmarshal(st.R, &exp); err != nil {
			panic(err)
		}
		vals, err := mxjQueryMap().ValuesForKey("a", st.Arg)
		mxj.Map{"q": []interface{}{"s", "t"}}.ValuesForKey("q")
		mxj.Map{"q": []interface{}{"p", "q", "r"}}.ValuesForPath("q")
		name = fmt.Sprintf("ValuesForKey(\"a\", %q)", st.Arg)
		if !exp.Ok {
			return name + " error class", cls(err), "err"
		}
		g := tagged.CanonList(vals)
		w := tagged.NormList(exp.Vals)
		sort.Strings(g)
		sort.Strings(w)
		return name, strings.Join(g, "; ") + fmt.Sprint(err), strings.Join(w, "; ") + "<nil>"
	}
	panic("unknown operation " + st.Op)
}

func replayMxj(line []byte, a *Acc) {
	var l mxjLine
	if err := json.Unmarshal(line, &l); err != nil {
		panic(err)
	}
	n, setters := 0, 0
	hs := []string{}
	reported := map[string]bool{}
	for _, st := range l.Hist {
		if st.Op == "" {
			applyCall(st.Fn, st.Arg)
			hs = append(hs, st.Fn+"("+st.Arg+")")
			setters++
			continue
		}
		n++
		var name, got, want string
		regsBefore := fmt.Sprint(mxj.VerifOptions())
		if p := guard(func() { name, got, want = mxjOp(st) }); p != "" {
			if strings.Contains(p, "unknown operation") || strings.Contains(p, "json:") {
				panic(p)
			}
			a.Mis("mxj:panic:"+st.Op, "after "+strings.Join(hs, " ")+": "+st.Op+"("+st.Arg+"): "+p, l)
			break
		}
		hs = append(hs, st.Op+"["+st.Arg+"]")
		// operations do not touch the registers (OpStep: UNCHANGED opt)
		if regsAfter := fmt.Sprint(mxj.VerifOptions()); regsAfter != regsBefore && !reported["regs:"+st.Op] {
			reported["regs:"+st.Op] = true
			a.Mis("mxj:registers-changed-by:"+st.Op, fmt.Sprintf("session %s: %s changed the option registers: %s -> %s", strings.Join(hs, " "), name, regsBefore, regsAfter), l)
		}
		if got != want && !reported[st.Op] {
			reported[st.Op] = true
			a.Mis("mxj:"+st.Op, fmt.Sprintf("session %s: %s = %s, the specification under the registers of that step gives %s", strings.Join(hs, " "), name, short(got), short(want)), l)
		}
	}
	for _, c := range l.Restore {
		applyCall(c.Fn, c.Arg)
	}
	mxj.SetCheckTagToSkipFunc(nil)
	nt := 0
	if setters > 0 {
		nt = n
	}
	a.Count(n, nt)
	if len(l.Hist) > 3 && n > 1 && setters > 1 {
		a.Sample(map[string]interface{}{"session": hs})
	}
}

func init() {
	register("mxj", &family{replay: replayMxj, serial: true, ctxLines: 400,
		rule: "one case = one operation call (NewMapXml, NewMapXml with cast, NewMapXmlSeq, Map.Xml, LeafNodes, ValuesForKey with a sub-key string) inside a session of setter and operation calls, compared with the specification's result under the registers of that step; non-trivial = the session contains setter calls"})
}
