package main

import (
	"bufio"
	"bytes"
	"encoding/base64"
	"encoding/json"
	"encoding/xml"
	"fmt"
	"io"
	"os"
	"strings"

	"verif/harness/tagged"
)

// ---------------------------------------------------------------------------
// mxjconf xmlevents <raw.ndjson> <trace.ndjson> <summary.json>
// Turns the observations logged by the repository's own tests (hook VerifOnDecode, see
// harness/repotrace) into events of Trace_Xml.tla: the document bytes are tokenised with
// encoding/xml -- the tokenizer the decoder itself uses -- into the abstract document of MxjXml.
// Observations the specification does not model are dropped and counted by reason.
// ---------------------------------------------------------------------------

func asciiPrintable(s string) bool {
	for _, c := range s {
		if c == '\t' || c == '\n' || c == '\r' {
			continue
		}
		if c < 0x20 || c > 0x7e {
			return false
		}
	}
	return true
}

// abstractDoc: the first root element of doc as an xNode; reason != "" when it is not expressible
func abstractDoc(doc []byte) (*xNode, string) {
	if !asciiPrintable(string(doc)) {
		return nil, "non-ascii"
	}
	d := xml.NewDecoder(bytes.NewReader(doc))
	var stack []*xNode
	var root *xNode
	for {
		t, err := d.Token()
		if err == io.EOF {
			return nil, "no-complete-root"
		}
		if err != nil {
			return nil, "tokenizer-error"
		}
		switch x := t.(type) {
		case xml.StartElement:
			n := &xNode{K: "e", Nm: xName{P: x.Name.Space, L: chars(x.Name.Local)}, At: []xAttr{}, Ch: []*xNode{}, Tx: []string{}}
			for _, a := range x.Attr {
				n.At = append(n.At, xAttr{Nm: xName{P: a.Name.Space, L: chars(a.Name.Local)}, V: chars(a.Value)})
			}
			if len(stack) > 0 {
				p := stack[len(stack)-1]
				p.Ch = append(p.Ch, n)
			} else {
				root = n
			}
			stack = append(stack, n)
		case xml.EndElement:
			stack = stack[:len(stack)-1]
			if len(stack) == 0 {
				return root, ""
			}
		case xml.CharData:
			if len(stack) > 0 {
				p := stack[len(stack)-1]
				p.Ch = append(p.Ch, &xNode{K: "t", Nm: noName(), At: []xAttr{}, Ch: []*xNode{}, Tx: chars(string(x))})
			}
		case xml.Comment:
			if len(stack) > 0 {
				p := stack[len(stack)-1]
				p.Ch = append(p.Ch, &xNode{K: "c", Nm: noName(), At: []xAttr{}, Ch: []*xNode{}, Tx: chars(string(x))})
			}
		}
	}
}

// at most one non-blank text run per element (domain of the decode conventions)
func oneTextRun(n *xNode) bool {
	runs := 0
	for _, c := range n.Ch {
		if c.K == "t" && strings.Trim(strings.Join(c.Tx, ""), " \t\r\n") != "" {
			runs++
		}
		if c.K == "e" && !oneTextRun(c) {
			return false
		}
	}
	return runs <= 1
}

func cmdXmlEvents(args []string) {
	if len(args) < 3 {
		fmt.Fprintln(os.Stderr, "usage: mxjconf xmlevents <raw.ndjson> <trace.ndjson> <summary.json>")
		os.Exit(2)
	}
	in, err := os.Open(args[0])
	if err != nil {
		fmt.Fprintln(os.Stderr, err)
		os.Exit(2)
	}
	defer in.Close()
	out, _ := os.Create(args[1])
	w := bufio.NewWriterSize(out, 1<<20)
	a := newAcc("xmlrepo")
	a.Rule = "one event = one NewMapXml call made by the repository's own test suite (hook VerifOnDecode), its document tokenised by encoding/xml into the abstract form, validated by Trace_Xml.tla under the registers logged with the call; non-trivial = document with more than three elements"
	rd := bufio.NewReaderSize(in, 1<<20)
	seen := map[string]bool{}
	nontriv := 0
	for {
		line, rerr := rd.ReadBytes('\n')
		if len(line) > 1 {
			var hd struct {
				Op string `json:"op"`
			}
			json.Unmarshal(line, &hd)
			if hd.Op == "encx" {
				if e, reason := convertEncX(line, seen); reason != "" {
					a.Add("dropped:encx:"+reason, 1)
				} else {
					b, _ := json.Marshal(e)
					w.Write(b)
					w.WriteByte('\n')
					a.Cases++
					a.Add("kept:encx", 1)
					nontriv++
				}
				if rerr != nil {
					break
				}
				continue
			}
			if hd.Op != "decx" {
				if rerr != nil {
					break
				}
				continue // (events of other families in a shared log)
			}
			var ev struct {
				Cast bool                   `json:"cast"`
				Doc  string                 `json:"doc"`
				Opts map[string]interface{} `json:"opts"`
				Err  bool                   `json:"err"`
				R    json.RawMessage        `json:"r"`
			}
			if json.Unmarshal(line, &ev) != nil {
				a.Add("dropped:unparsable", 1)
			} else {
				a.Add("observed", 1)
				doc, _ := base64.StdEncoding.DecodeString(ev.Doc)
				o := ev.Opts
				textK, _ := o["textK"].(string)
				kpfx := strings.TrimSuffix(textK, "text")
				apfx, _ := o["attrPrefix"].(string)
				key := fmt.Sprint(ev.Cast, o["lower"], o["snake"], o["simpleAsMap"], o["keepSpaces"], o["escDec"], o["tagSeq"], apfx, kpfx, string(doc))
				reason := ""
				switch {
				case seen[key]:
					reason = "duplicate"
				case ev.Cast:
					reason = "cast" // the cast chain is C14's; the decode specification models default casts of a few texts only
				case o["xmpp"] == true:
					reason = "xmpp"
				case len(kpfx) != 1 || apfx == kpfx: // (attribute prefixes of any length are in the specification)
					reason = "prefix-shape"
				case !asciiPrintable(string(ev.R)):
					reason = "non-ascii"
				}
				var d *xNode
				if reason == "" {
					d, reason = abstractDoc(doc)
				}
				if reason == "" && !oneTextRun(d) {
					reason = "mixed-content"
				}
				if reason != "" {
					a.Add("dropped:"+reason, 1)
				} else {
					seen[key] = true
					if countElems(d) > 3 {
						nontriv++
					}
					e := map[string]interface{}{"op": "decx", "d": d, "err": map[bool]string{true: "err", false: "ok"}[ev.Err], "r": ev.R, "doc": ev.Doc,
						"o": map[string]interface{}{"lower": o["lower"], "snake": o["snake"], "asmap": o["simpleAsMap"], "keep": o["keepSpaces"],
							"escdec": o["escDec"], "tagseq": o["tagSeq"], "apfx": apfx, "kpfx": kpfx}}
					b, _ := json.Marshal(e)
					w.Write(b)
					w.WriteByte('\n')
					a.Cases++
					if a.Cases < 4 && countElems(d) > 3 {
						a.Sample(map[string]interface{}{"document": short(string(doc)), "attrPrefix": apfx})
					}
				}
			}
		}
		if rerr != nil {
			break
		}
	}
	a.Nontrivial = nontriv
	w.Flush()
	out.Close()
	writeSummary(a, args[2])
}

// convertEncX: a Map.Xml call observed by the wrapper of harness/repotrace -> event encx of Trace_Xml.tla
func convertEncX(line []byte, seen map[string]bool) (map[string]interface{}, string) {
	var ev struct {
		Pre  *tagged.TV             `json:"pre"`
		Tags []string               `json:"tags"`
		X    string                 `json:"x"`
		Err  bool                   `json:"err"`
		Opts map[string]interface{} `json:"opts"`
	}
	if json.Unmarshal(line, &ev) != nil || ev.Pre == nil {
		return nil, "unparsable"
	}
	if !asciiPrintable(string(line)) {
		return nil, "non-ascii"
	}
	var plain func(t *tagged.TV) bool
	plain = func(t *tagged.TV) bool {
		switch t.T {
		case "s", "f", "b", "n":
			return true
		case "m":
			for k, v := range t.KV {
				if k == "" || !plain(v) {
					return false
				}
			}
			return true
		case "l":
			for _, v := range t.It {
				if !plain(v) {
					return false
				}
			}
			return true
		}
		return false
	}
	if ev.Pre.T != "m" || !plain(ev.Pre) {
		return nil, "value-types"
	}
	if len(ev.Tags) > 1 {
		return nil, "root-tags"
	}
	o := ev.Opts
	if o["checkValid"] == true {
		return nil, "validity-check-on"
	}
	textK, _ := o["textK"].(string)
	kpfx := strings.TrimSuffix(textK, "text")
	apfx, _ := o["attrPrefix"].(string)
	if len(kpfx) != 1 || apfx == kpfx {
		return nil, "prefix-shape"
	}
	tag := ""
	if len(ev.Tags) == 1 {
		tag = ev.Tags[0]
		if tag == "" {
			return nil, "root-tags"
		}
	}
	m := tagged.FromGo(ev.Pre.ToGo())
	key := fmt.Sprint("encx", apfx, kpfx, o["escEnc"], o["goEmpty"], tag, m.Canon())
	if seen[key] {
		return nil, "duplicate"
	}
	seen[key] = true
	return map[string]interface{}{"op": "encx", "m": m, "tag": tag, "x": ev.X, "encerr": map[bool]string{true: "err", false: "ok"}[ev.Err],
		"o": map[string]interface{}{"apfx": apfx, "kpfx": kpfx, "esc": o["escEnc"] == true, "goempty": o["goEmpty"] == true}}, ""
}

func init() { extraCmds["xmlevents"] = cmdXmlEvents }
