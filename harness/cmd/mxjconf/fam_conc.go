package main

import (
	"bytes"
	"encoding/gob"
	"encoding/json"
	"fmt"
	"math"
	"reflect"
	"runtime"
	"sort"
	"strconv"
	"strings"
	"sync"

	mxj "github.com/clbanning/mxj/v2"
	"verif/harness/tagged"
)

// ---------------------------------------------------------------------------
// family "conc" (C17): every interleaving TLC generates from MxjConc is enforced on real
// goroutines: a goroutine runs from one scheduler gate (hook verifGate at the head of the
// code's walkers) to the next only when the schedule says so.  Results must equal the
// sequential results and the shared Map must be unchanged.  The same programs are also
// run free (ungated) on many goroutines; with a -race build that is where memory-level
// races are reported.
// ---------------------------------------------------------------------------
type concLine struct {
	F     string         `json:"f"`
	Progs [][]string     `json:"progs"`
	Segs  map[string]int `json:"segs"`
	Sched []int          `json:"sched"`
	Free  bool           `json:"free,omitempty"` // replay case of a free-run divergence: run the programs free again
}

func goid() int64 {
	var buf [64]byte
	n := runtime.Stack(buf[:], false)
	// "goroutine 123 [running]:"
	s := string(buf[:n])
	s = strings.TrimPrefix(s, "goroutine ")
	i := strings.IndexByte(s, ' ')
	id, _ := strconv.ParseInt(s[:i], 10, 64)
	return id
}

var (
	concShared   mxj.Map
	concSharedSq mxj.MapSeq
	concDeep     mxj.Map // fourteen levels of maps and lists: what a writer does only "from some depth on" is done here
	concOnce     sync.Once
)

func concSetup() {
	doc := `<doc k="v"><a><b x="1">t1</b><b x="2">t2</b><c><d>1</d><d>2</d><e f="g">h &amp; i</e></c></a><a><b>t3</b><c><d>3</d></c></a><z>9</z></doc>`
	m, err := mxj.NewMapXml([]byte(doc))
	if err != nil {
		panic(err)
	}
	concShared = m
	concSharedSq, _ = mxj.NewMapXmlSeq([]byte(doc))
	deep := strings.Repeat(`<n i="1"><o>u</o>`, 14) + "v" + strings.Repeat(`</n>`, 14)
	concDeep, _ = mxj.NewMapXml([]byte(deep))
}

func privDoc(g int) []byte {
	return []byte(fmt.Sprintf(`<p%d n="%d"><q><r>%d</r><r>x%d</r></q><s t="u%d">v</s></p%d>`, g, g, g, g, g, g))
}

// the concrete operations bound to the abstract names of MC_C17
func concOp(name string, g int) string {
	switch name {
	case "encShared":
		x, e1 := concShared.Xml()
		j, e2 := concShared.Json()
		// (every goroutine indents with its OWN unit: tabs, one blank, two blanks)
		xi, e3 := concShared.XmlIndent("", []string{" ", "\t", "  "}[g%3])
		sx, e4 := concSharedSq.Xml()
		return fmt.Sprint(string(x), e1, string(j), e2, string(xi), e3, string(sx), e4)
	case "qryShared":
		v1, e1 := concShared.ValuesForPath("doc.a.*.d")
		v2, e2 := concShared.ValuesForKey("b", "-x:2")
		p := concShared.PathsForKey("d")
		sort.Strings(p)
		// every goroutine uses its own argument strings (state remembered per argument would be shared)
		v3, e3 := concShared.ValuesForPath(fmt.Sprintf("doc.a[%d].c.d[%d]", g%2, (g/2)%2))
		v4, e4 := concShared.ValuesForKey("b", fmt.Sprintf("-x:%d", g%3))
		v3 = append(v3, v4...)
		if e4 != nil {
			e3 = e4
		}
		ex, _ := concShared.Exists("doc.z")
		c1 := tagged.CanonList(v1)
		sort.Strings(c1)
		return fmt.Sprint(c1, e1, tagged.CanonList(v2), e2, p, tagged.CanonList(v3), e3, ex)
	case "leafShared":
		ln := concShared.LeafNodes()
		s := make([]string, len(ln))
		for i, l := range ln {
			s[i] = l.Path + "=" + tagged.CanonGo(l.Value)
		}
		sort.Strings(s)
		cp, e := concShared.Copy()
		// the pretty-printers: whole text, with a start offset as deep as a deep document, on the deep shared Map too
		di, de := concDeep.XmlIndent("", " ")
		return fmt.Sprint(s, tagged.CanonGo(cp), e, concShared.StringIndent(), concShared.StringIndent(10), concShared.StringIndentNoTypeInfo(12),
			concSharedSq.StringIndent(10), concDeep.StringIndent(), concDeep.StringIndentNoTypeInfo(), string(di), de)
	case "decPriv":
		m, e1 := mxj.NewMapXml(privDoc(g), true)
		ms, e2 := mxj.NewMapXmlSeq(privDoc(g))
		mj, e3 := mxj.NewMapJson([]byte(fmt.Sprintf(`{"p":[%d,{"q":"%d"}]}`, g, g)))
		// the reader entry points, on readers WITHOUT a ReadByte method (files, connections): the package's own byte adaptors
		mr, e4 := mxj.NewMapXmlReader(hideByteReader{bytes.NewReader(privDoc(g))})
		mw, raw, e5 := mxj.NewMapXmlReaderRaw(hideByteReader{bytes.NewReader(privDoc(g))})
		sr, e6 := mxj.NewMapXmlSeqReader(hideByteReader{bytes.NewReader(privDoc(g))})
		jr, e7 := mxj.NewMapJsonReader(hideByteReader{strings.NewReader(fmt.Sprintf(`{"p":[%d,{"q":"%d"}]} `, g, g))})
		return fmt.Sprint(tagged.CanonGo(m), e1, tagged.CanonGo(map[string]interface{}(ms)), e2, tagged.CanonGo(mj), e3,
			tagged.CanonGo(mr), e4, tagged.CanonGo(mw), string(raw), e5, tagged.CanonGo(map[string]interface{}(sr)), e6, tagged.CanonGo(jr), e7)
	case "decDeep":
		// (free runs only) a DEEP private document, 3000 levels: limits and counters of the decoder are per call, not per process
		deep := []byte(strings.Repeat("<n>", 3000) + fmt.Sprint(g) + strings.Repeat("</n>", 3000))
		md, e8 := mxj.NewMapXml(deep)
		depth := 0
		for cur := interface{}(map[string]interface{}(md)); ; depth++ {
			mm, ok := cur.(map[string]interface{})
			if !ok {
				break
			}
			cur = mm["n"]
		}
		return fmt.Sprint(depth, e8)
	case "encPriv":
		m := mxj.Map{"p": map[string]interface{}{"-g": g, "q": []interface{}{g, "x", map[string]interface{}{"r": g}}, "#text": fmt.Sprint("t<", g)}}
		x, e1 := m.Xml()
		xi, e2 := m.XmlIndent([]string{"", "\t"}[g%2], []string{"  ", "\t", " "}[g%3])
		j, e3 := m.JsonIndent("", []string{" ", "\t", "  "}[g%3])
		// the Raw writer forms hand out bytes as well: they are held while further encodings take place
		var w1, w2 bytes.Buffer
		raw, e4 := m.JsonWriterRaw(&w1)
		rawi, e5 := m.JsonIndentWriterRaw(&w2, "", " ")
		m.JsonWriter(&w2)
		m.Json()
		// a private document pretty-printed from its text (a decode and an encode in one call), entity references in it
		bdoc := []byte(fmt.Sprintf(`<cat g="%d&amp;">`, g) + strings.Repeat(`<i n="1">R&amp;D &lt;x&gt;</i>`, 60) + `</cat>`)
		bx, e6 := mxj.BeautifyXml(bdoc, "", " ")
		return fmt.Sprint(string(x), e1, string(xi), e2, string(j), e3, string(raw), e4, string(rawi), e5, w1.String(), len(bx), fnv32(bx), e6)
	}
	panic("conc: unknown operation " + name)
}

func fnv32(b []byte) uint32 {
	h := uint32(2166136261)
	for _, c := range b {
		h = (h ^ uint32(c)) * 16777619
	}
	return h
}

// gate scheduler
type gateSched struct {
	mu     sync.Mutex
	byGoid map[int64]int
	budget []int
	parked []chan struct{}
	resume []chan struct{}
}

var curSched *gateSched

func gateFn(point string) {
	s := curSched
	if s == nil {
		return
	}
	id := goid()
	s.mu.Lock()
	g, ok := s.byGoid[id]
	if !ok || s.budget[g] <= 0 {
		s.mu.Unlock()
		return
	}
	s.budget[g]--
	s.mu.Unlock()
	s.parked[g] <- struct{}{}
	<-s.resume[g]
}

func runGated(l *concLine, a *Acc) (results [][]string, desync string) {
	n := len(l.Progs)
	s := &gateSched{byGoid: map[int64]int{}, budget: make([]int, n), parked: make([]chan struct{}, n), resume: make([]chan struct{}, n)}
	results = make([][]string, n)
	done := make([]bool, n)
	var wg sync.WaitGroup
	for g := 0; g < n; g++ {
		s.parked[g] = make(chan struct{})
		s.resume[g] = make(chan struct{})
	}
	curSched = s
	for g := 0; g < n; g++ {
		wg.Add(1)
		go func(g int) {
			defer wg.Done()
			s.mu.Lock()
			s.byGoid[goid()] = g
			s.mu.Unlock()
			<-s.resume[g] // first segment of the first operation
			for i, op := range l.Progs[g] {
				segs := l.Segs[op]
				s.mu.Lock()
				s.budget[g] = segs - 1
				s.mu.Unlock()
				var r string
				if p := guard(func() { r = concOp(op, g+1) }); p != "" {
					r = "PANIC " + p
				}
				// an operation that hit fewer gates than scheduled: the remaining segments are empty
				s.mu.Lock()
				left := s.budget[g]
				s.budget[g] = 0
				s.mu.Unlock()
				for ; left > 0; left-- {
					s.parked[g] <- struct{}{}
					<-s.resume[g]
				}
				results[g] = append(results[g], r)
				lastOp := i == len(l.Progs[g])-1
				if lastOp {
					s.mu.Lock()
					done[g] = true
					s.mu.Unlock()
				}
				s.parked[g] <- struct{}{} // end of the operation's last segment
				if !lastOp {
					<-s.resume[g]
				}
			}
		}(g)
	}
	for _, gi := range l.Sched {
		g := gi - 1
		s.mu.Lock()
		d := done[g]
		s.mu.Unlock()
		if d {
			desync = fmt.Sprintf("schedule steps goroutine %d after its program ended", gi)
			break
		}
		s.resume[g] <- struct{}{}
		<-s.parked[g]
	}
	// anything not finished (desync): release
	if desync != "" {
		for g := 0; g < n; g++ {
			go func(g int) {
				for {
					select {
					case s.resume[g] <- struct{}{}:
					case <-s.parked[g]:
					}
					s.mu.Lock()
					d := done[g]
					s.mu.Unlock()
					if d {
						return
					}
				}
			}(g)
		}
	}
	wg.Wait()
	curSched = nil
	return results, desync
}

var concLines int

// calls that FAIL: whatever a failing call leaves behind (a buffer released twice, a half-reset scratch area, a counter not
// wound back) must not reach the calls that follow, sequential or concurrent
func failingCalls() {
	guard(func() {
		for i := 0; i < 3; i++ {
			mxj.Map{"n": math.NaN()}.Json()
			mxj.Map{"n": math.Inf(1)}.JsonIndent("", " ")
			mxj.Map{"l": []interface{}{math.NaN()}}.Copy()
			mxj.Map{"a": map[string]interface{}{"-x": []interface{}{}}}.Xml()
			mxj.Map{"a": map[string]interface{}{"-x": []interface{}{}}}.XmlIndent("", " ")
			mxj.NewMapXml([]byte("<a><b></a>"))
			mxj.NewMapXmlSeq([]byte("<a><b></a>"))
			mxj.NewMapXmlReader(strings.NewReader("<a><b"))
			mxj.NewMapJson([]byte(`{"a":`))
			mxj.NewMapJsonReader(strings.NewReader(`{"a":}`))
			mxj.Map{"a": "x"}.ValuesForPath("a[x]")
			mxj.Map{"a": "x"}.UpdateValuesForPath("a", "a")
		}
	})
}

func freeRun(progs [][]string, a *Acc, reps int) {
	// ungated: many goroutines, free interleaving (memory-level races are the race detector's to report)
	failingCalls()
	var wg sync.WaitGroup
	errs := make(chan string, 64)
	for w := 0; w < 8; w++ {
		wg.Add(1)
		go func(w int) {
			defer wg.Done()
			g := w%len(progs) + 1
			for r := 0; r < reps; r++ {
				ops := progs[g-1]
				if r < 3 {
					ops = append(append([]string{}, ops...), "decDeep")
				}
				for _, op := range ops {
					var got string
					if p := guard(func() { got = concOp(op, g) }); p != "" {
						got = "PANIC " + p
					}
					if got != concSeq(op, g) {
						select {
						case errs <- fmt.Sprintf("free-running goroutine %d: %s gave a result different from sequential execution", w, op):
						default:
						}
					}
				}
			}
		}(w)
	}
	wg.Wait()
	close(errs)
	for e := range errs {
		a.Mis("conc:free:result-differs", e, concLine{F: "conc", Progs: progs, Free: true})
	}
}

var seqCache sync.Map

func concSeq(op string, g int) string {
	k := op + "#" + strconv.Itoa(g)
	if v, ok := seqCache.Load(k); ok {
		return v.(string)
	}
	r := concOp(op, g)
	seqCache.Store(k, r)
	return r
}

// handOff: the documented way to let reading and handling run concurrently -- the bulk handlers' map handler passes its arguments
// to a goroutine and returns true.  What was handed over stays what it was while later messages are read (Map and raw bytes).
func handOff(a *Acc) {
	var xs, js strings.Builder
	var wantX, wantJ []string
	for i := 0; i < 12; i++ {
		x := fmt.Sprintf("<msg><id>%02d</id><t>v%02d</t></msg>", i, i)
		j := fmt.Sprintf(`{"id":"%02d","t":"v%02d"}`, i, i)
		xs.WriteString(x)
		js.WriteString(j)
		wantX = append(wantX, x)
		wantJ = append(wantJ, j)
	}
	type item struct {
		m   mxj.Map
		raw []byte
	}
	collect := func(run func(h func(mxj.Map, []byte) bool) error) ([]string, []string, error) {
		ch := make(chan item, 64)
		var got []item
		done := make(chan struct{})
		go func() {
			for it := range ch {
				got = append(got, it) // kept, looked at only after the whole stream has been read
			}
			close(done)
		}()
		err := run(func(m mxj.Map, raw []byte) bool { ch <- item{m, raw}; return true })
		close(ch)
		<-done
		var raws, ids []string
		for _, it := range got {
			raws = append(raws, string(it.raw))
			v, _ := it.m.ValueForPathString("msg.id")
			if v == "" {
				v, _ = it.m.ValueForPathString("id")
			}
			ids = append(ids, v)
		}
		return raws, ids, err
	}
	rx, ix, ex := collect(func(h func(mxj.Map, []byte) bool) error {
		return mxj.HandleXmlReaderRaw(hideByteReader{strings.NewReader(xs.String())}, h, func(error, []byte) bool { return false })
	})
	rj, ij, ej := collect(func(h func(mxj.Map, []byte) bool) error {
		return mxj.HandleJsonReaderRaw(hideByteReader{strings.NewReader(js.String())}, h, func(error, []byte) bool { return false })
	})
	wantIDs := "00 01 02 03 04 05 06 07 08 09 10 11"
	if ex != nil || strings.Join(rx, "|") != strings.Join(wantX, "|") || strings.Join(ix, " ") != wantIDs {
		a.Mis("conc:handoff:xml", fmt.Sprintf("HandleXmlReaderRaw with a handler that hands Map and raw bytes to a goroutine: after the stream was read the raw values are %q (err %v), the messages were %q", rx, ex, wantX), concLine{F: "conc", Free: true})
	}
	if ej != nil || strings.Join(rj, "|") != strings.Join(wantJ, "|") || strings.Join(ij, " ") != wantIDs {
		a.Mis("conc:handoff:json", fmt.Sprintf("HandleJsonReaderRaw with a handler that hands Map and raw bytes to a goroutine: after the stream was read the raw values are %q (err %v), the messages were %q", rj, ej, wantJ), concLine{F: "conc", Free: true})
	}
}

func replayConc(line []byte, a *Acc) {
	var l concLine
	if err := json.Unmarshal(line, &l); err != nil {
		panic(err)
	}
	concOnce.Do(func() {
		concSetup()
		mxj.VerifGateFn = gateFn
		handOff(a)
	})
	// sequential reference results (no scheduler installed: gates pass)
	for g, p := range l.Progs {
		for _, op := range p {
			concSeq(op, g+1)
		}
	}
	if l.Free && len(l.Progs) == 0 {
		return // (the replay case of a hand-off finding: handOff has just run)
	}
	if l.Free {
		// re-execution of a free-run divergence (not deterministic: several attempts)
		for g := range l.Progs {
			concSeq("decDeep", g+1)
		}
		for i := 0; i < 5 && a.MisCount == 0; i++ {
			freeRun(l.Progs, a, 20)
		}
		return
	}
	before := tagged.CanonGo(concShared)
	beforeSq := tagged.CanonGo(map[string]interface{}(concSharedSq))
	res, desync := runGated(&l, a)
	one := func(sig, detail string) { a.Mis(sig, fmt.Sprintf("schedule %v: %s", l.Sched, detail), l) }
	if desync != "" {
		a.mu.Lock()
		a.Fatal = "conc: " + desync
		a.mu.Unlock()
		return
	}
	for g, p := range l.Progs {
		for i, op := range p {
			if i >= len(res[g]) || res[g][i] != concSeq(op, g+1) {
				got := "<missing>"
				if i < len(res[g]) {
					got = res[g][i]
				}
				one("conc:gated:result-differs:"+op, fmt.Sprintf("goroutine %d operation %s returned %s; alone it returns %s", g+1, op, short(got), short(concSeq(op, g+1))))
			}
		}
	}
	if tagged.CanonGo(concShared) != before || tagged.CanonGo(map[string]interface{}(concSharedSq)) != beforeSq {
		one("conc:shared-modified", "the shared Map changed")
	}
	concLines++
	if concLines%50 == 1 {
		for g := 0; g < 8; g++ {
			concSeq("decDeep", g+1) // (sequential reference, computed before the goroutines start)
		}
		freeRun(l.Progs, a, 20)
		if tagged.CanonGo(concShared) != before {
			one("conc:free:shared-modified", "the shared Map changed during the free run")
		}
	}
	a.Count(1, 1)
	if len(l.Sched) > 6 {
		a.Sample(map[string]interface{}{"programs": l.Progs, "segments": l.Segs, "schedule": l.Sched})
	}
}

// ---------------------------------------------------------------------------
// family "pure" (C17, first half): every read-only method leaves its receiver deeply equal;
// Copy shares no mutable structure (a mutation at every location of the copy leaves the
// original unchanged, and vice versa).
// ---------------------------------------------------------------------------
type pureLine struct {
	F string     `json:"f"`
	M *tagged.TV `json:"m"`
}

func allPaths(v interface{}, prefix string, out *[]string) {
	switch x := v.(type) {
	case map[string]interface{}:
		for k, e := range x {
			p := k
			if prefix != "" {
				p = prefix + "." + k
			}
			*out = append(*out, p)
			allPaths(e, p, out)
		}
	case []interface{}:
		for _, e := range x {
			allPaths(e, prefix, out)
		}
	}
}

// mutateAll changes every container reachable from v in place
func mutateAll(v interface{}) {
	switch x := v.(type) {
	case map[string]interface{}:
		for _, e := range x {
			mutateAll(e)
		}
		for k, e := range x {
			switch e.(type) {
			case map[string]interface{}, []interface{}:
			default:
				x[k] = "MUTATED"
			}
		}
		x["__added"] = "MUTATED"
	case []interface{}:
		for i, e := range x {
			mutateAll(e)
			switch e.(type) {
			case map[string]interface{}, []interface{}:
			default:
				x[i] = "MUTATED"
			}
		}
	}
}

var pureExoticOnce sync.Once

// a Map holding the Go value types the API accepts besides the JSON-shaped ones (what a caller builds by hand)
func exoticMap() mxj.Map {
	// a []byte value with spare capacity behind it (what bytes.Buffer, io.ReadAll or append hand out)
	bs := append(make([]byte, 0, 64), "a&b<c"...)
	// a sequence-shaped sub-document as it looks after a JSON round trip: float64 sequence numbers, two attributes, two children
	sq := func(t string, n float64) map[string]interface{} { return map[string]interface{}{"#text": t, "#seq": n} }
	// a list wider than the initial result capacity (queries that return more than 32 values)
	wide := make([]interface{}, 40)
	for i := range wide {
		wide[i] = map[string]interface{}{"k": float64(i)}
	}
	return mxj.Map{"inf": []interface{}{math.Inf(1), map[string]interface{}{"k": math.Inf(-1)}, "s"}, "wide": wide, "sq": map[string]interface{}{"r": map[string]interface{}{"#attr": map[string]interface{}{"x": sq("1", 0), "y": sq("2", 1)}, "b": sq("1", 0), "c": sq("2", 1)}},
		"doc": map[string]interface{}{"by": bs,
			"-id": 7, "i64": int64(-2), "u64": uint64(3), "n": json.Number("1.50"), "f32like": 2.5,
			"ss": []string{"a", "b<"}, "lm": []map[string]interface{}{{"k": 1}, {"k": "v", "-a": true}},
			"m":     mxj.Map{"x": []interface{}{1, "two", nil, map[string]interface{}{"#text": "t", "-q": "r"}}},
			"#text": "mixed & text", "e": []interface{}{}, "nil": nil,
			"rec": []interface{}{map[string]interface{}{"active": "true", "rate": "3.50", "id": "7"}, map[string]interface{}{"active": "false", "rate": "x", "id": "8"}}}}
}

func replayPure(line []byte, a *Acc) {
	var l pureLine
	if err := json.Unmarshal(line, &l); err != nil {
		panic(err)
	}
	pureExoticOnce.Do(func() {
		pureOn(exoticMap(), a, map[string]string{"f": "pure", "map": "exotic (built in the harness)"}, false)
	})
	if l.M == nil {
		return // (the replay case of a finding on the exotic Map: that Map has just been exercised)
	}
	pureOn(l.M.ToMap(), a, l, true)
}

// jsonShaped: the Map holds JSON value types only, so that Copy (a JSON round trip) is the identity on it
func pureOn(mv mxj.Map, a *Acc, l interface{}, jsonShaped bool) {
	before := tagged.CanonGo(mv)
	var twin mxj.Map // an identical, untouched Map: the comparison that also sees a changed Go TYPE of a nested value
	if !jsonShaped {
		twin = exoticMap()
	}
	var paths []string
	allPaths(map[string]interface{}(mv), "", &paths)
	sort.Strings(paths)
	keys := map[string]bool{"*": true, "zz": true}
	for _, p := range paths {
		segs := strings.Split(p, ".")
		keys[segs[len(segs)-1]] = true
	}
	paths = append(paths, "*", "*.*", "zz", "a[0]", "a.b[1]")
	// indexed variants of every path (each segment plain, [0] or [1]) and sub-key conditions taken from the content
	base := append([]string(nil), paths...)
	seen := map[string]bool{}
	for _, p := range paths {
		seen[p] = true
	}
	for _, p := range base {
		segs := strings.Split(p, ".")
		if len(segs) > 3 || strings.ContainsAny(p, "[*") {
			continue
		}
		total := 1
		for range segs {
			total *= 3
		}
		for c := 1; c < total; c++ {
			q := make([]string, len(segs))
			x := c
			for i, sg := range segs {
				switch x % 3 {
				case 1:
					q[i] = sg + "[0]"
				case 2:
					q[i] = sg + "[1]"
				default:
					q[i] = sg
				}
				x /= 3
			}
			if v := strings.Join(q, "."); !seen[v] && len(paths) < 400 {
				seen[v] = true
				paths = append(paths, v)
			}
		}
	}
	condSet := map[string]bool{"a:x": true, "!b:*": true}
	typedConds := map[string]bool{}
	var walk func(v interface{})
	walk = func(v interface{}) {
		switch x := v.(type) {
		case map[string]interface{}:
			for k, e := range x {
				switch sv := e.(type) {
				case string:
					condSet[k+":"+sv] = true
					condSet["!"+k+":"+sv] = true
					// a string member that READS like a boolean or a number, asked for with a typed sub-key (the member stays the string it is)
					if _, err := strconv.ParseBool(sv); err == nil {
						typedConds[k+":"+sv+":bool"] = true
						typedConds["!"+k+":"+sv+":bool"] = true
					}
					if _, err := strconv.ParseFloat(sv, 64); err == nil {
						typedConds[k+":"+sv+":num"] = true
						typedConds["!"+k+":"+sv+":num"] = true
					}
				case int, int64, uint64, json.Number:
					typedConds[fmt.Sprintf("%s:%v:num", k, sv)] = true
					typedConds[fmt.Sprintf("!%s:%v:num", k, sv)] = true
				case bool:
					condSet[fmt.Sprintf("%s:%v:bool", k, sv)] = true
				case float64:
					condSet[fmt.Sprintf("%s:%v:num", k, sv)] = true
				}
				walk(e)
			}
		case []interface{}:
			for _, e := range x {
				walk(e)
			}
		}
	}
	walk(map[string]interface{}(mv))
	var conds []string
	for c := range condSet {
		if !strings.Contains(strings.TrimPrefix(c, "!"), "::") && len(conds) < 12 {
			conds = append(conds, c)
		}
	}
	for c := range typedConds {
		if !strings.Contains(strings.TrimPrefix(c, "!"), "::") && len(typedConds) <= 16 {
			conds = append(conds, c)
		}
	}
	sort.Strings(conds)
	n := 0
	ids := containerIDs(mv)
	// (all registers but the escaping pair: the one run on the exotic Map switches encoder-side escaping on for its own encoder
	//  calls while other workers of this family are at work)
	snapRegs := func() string {
		o := mxj.VerifOptions()
		delete(o, "escEnc")
		delete(o, "escDec")
		return fmt.Sprint(o)
	}
	regs := snapRegs()
	check := func(name string, fn func()) bool {
		n++
		if p := guard(fn); p != "" {
			// panics belong to C15; purity is checked on what returned
			return true
		}
		// a read-only call writes nothing that outlives it: not the package's option registers either (goroutines that only
		// query would race on them)
		if now := snapRegs(); now != regs {
			a.Mis("pure:registers:"+name, fmt.Sprintf("%s changed a package-level option register: %s -> %s", name, regs, now), l)
			return false
		}
		// every map and list OBJECT of the receiver is still the one it was (a read-only call that swaps a member for an equal
		// copy detaches what the caller obtained from earlier queries)
		if now := containerIDs(mv); now != ids {
			a.Mis("pure:identity:"+name, fmt.Sprintf("%s replaced a container object inside its receiver %s (content equal, identity not)", name, short(before)), l)
			return false
		}
		if got := tagged.CanonGo(mv); got != before {
			a.Mis("pure:"+name, fmt.Sprintf("%s modified its receiver: %s -> %s", name, short(before), short(got)), l)
			return false
		}
		if twin != nil && !reflect.DeepEqual(map[string]interface{}(mv), map[string]interface{}(twin)) {
			a.Mis("pure:types:"+name, fmt.Sprintf("%s left its receiver rendering the same but no longer deeply equal (a nested value changed its Go type): %#v", name, mv), l)
			return false
		}
		return true
	}
	ok := true
	for _, p := range paths {
		p := p
		ok = ok && check("ValuesForPath", func() { mv.ValuesForPath(p) })
		for _, c := range conds {
			c := c
			ok = ok && check("ValuesForPath+subkeys", func() { mv.ValuesForPath(p, c) })
			ok = ok && check("Exists+subkeys", func() { mv.Exists(p, c) })
		}
		ok = ok && check("ValueForPath", func() { mv.ValueForPath(p); mv.ValueForPathString(p); mv.ValueOrEmptyForPathString(p) })
		ok = ok && check("Exists", func() { mv.Exists(p) })
		ok = ok && check("Elements/Attributes", func() { mv.Elements(p); mv.Attributes(p) })
		if !ok {
			return
		}
	}
	for k := range keys {
		k := k
		ok = ok && check("ValuesForKey", func() { mv.ValuesForKey(k); mv.ValueForKey(k, "a:x") })
		for _, c := range conds {
			c := c
			ok = ok && check("ValuesForKey+subkeys", func() { mv.ValuesForKey(k, c) })
		}
		ok = ok && check("PathsForKey", func() { mv.PathsForKey(k); mv.PathForKeyShortest(k) })
	}
	ok = ok && check("LeafNodes", func() { mv.LeafNodes(); mv.LeafNodes(true); mv.LeafPaths(); mv.LeafValues(true) })
	ok = ok && check("Root", func() { mv.Root() })
	ok = ok && check("Xml", func() {
		mv.Xml()
		mv.Xml("r")
		mv.XmlIndent("", " ")
		var w bytes.Buffer
		mv.XmlWriter(&w)
		mv.XmlIndentWriter(&w, "", " ")
	})
	ok = ok && check("AnyXml", func() { mxj.AnyXml(map[string]interface{}(mv)); mxj.AnyXmlIndent(map[string]interface{}(mv), "", " ") })
	ok = ok && check("Json", func() {
		mv.Json()
		mv.Json(true)
		mv.JsonIndent("", " ")
		var w bytes.Buffer
		mv.JsonWriter(&w)
		mv.JsonWriterRaw(&w)
		mv.JsonIndentWriter(&w, "", " ")
		mv.JsonIndentWriterRaw(&w, "", " ")
	})
	ok = ok && check("Gob", func() { mv.Gob() })
	ok = ok && check("StringIndent", func() { _ = mv.StringIndent(); _ = mv.StringIndent(2); _ = mv.StringIndentNoTypeInfo() })
	ok = ok && check("Old/Copy", func() { mv.Old(); mv.Copy() })
	ok = ok && check("NewMap", func() { mv.NewMap("a:p", "b:p.q", "*:r") })
	ok = ok && check("MapSeq encoders", func() {
		ms := mxj.MapSeq(mv)
		ms.Xml()
		ms.XmlIndent("", " ")
		_ = ms.StringIndent()
	})
	if sq, isMap := mv["sq"].(map[string]interface{}); isMap {
		ok = ok && check("MapSeq encoders on a sequence-shaped Map", func() {
			ss := mxj.MapSeq(sq)
			ss.Xml()
			ss.XmlIndent("", " ")
			var w bytes.Buffer
			ss.XmlWriter(&w)
		})
	}
	if !jsonShaped {
		// the XML encoders once more with encoder-side escaping on (values that need escaping: the escaped form is a NEW value)
		ok = ok && check("Xml under XMLEscapeChars(true)", func() {
			mxj.XMLEscapeChars(true)
			defer mxj.XMLEscapeChars(false)
			mv.Xml()
			mv.XmlIndent("", " ")
			mxj.AnyXml(map[string]interface{}(mv))
			if sq, isMap := mv["sq"].(map[string]interface{}); isMap {
				mxj.MapSeq(sq).Xml()
			}
		})
	}
	if !ok {
		return
	}
	// Copy shares no mutable structure
	cp, err := mv.Copy()
	if err == nil {
		if jsonShaped && tagged.CanonGo(cp) != before {
			a.Mis("pure:copy-differs", fmt.Sprintf("Copy = %s, original %s", tagged.CanonGo(cp), before), l)
			return
		}
		mutateAll(map[string]interface{}(cp))
		if tagged.CanonGo(mv) != before {
			a.Mis("pure:copy-aliases-original", fmt.Sprintf("mutating the copy changed the original: %s -> %s", short(before), short(tagged.CanonGo(mv))), l)
			return
		}
		cp2, _ := mv.Copy()
		c2 := tagged.CanonGo(cp2)
		mutateAll(map[string]interface{}(mv))
		if tagged.CanonGo(cp2) != c2 {
			a.Mis("pure:original-aliases-copy", "mutating the original changed the copy", l)
		}
	}
	a.Count(n, n)
	if len(mv) > 1 {
		a.Sample(map[string]interface{}{"map": before, "read_only_calls": n})
	}
}

// containerIDs renders path=address for every map and non-empty list reachable from v (keys in sorted order).
func containerIDs(v interface{}) string {
	var b strings.Builder
	var walk func(x interface{}, path string, d int)
	walk = func(x interface{}, path string, d int) {
		if d > 200 {
			return
		}
		switch c := x.(type) {
		case mxj.Map:
			walk(map[string]interface{}(c), path, d)
		case map[string]interface{}:
			fmt.Fprintf(&b, "%s=%x;", path, reflect.ValueOf(c).Pointer())
			ks := make([]string, 0, len(c))
			for k := range c {
				ks = append(ks, k)
			}
			sort.Strings(ks)
			for _, k := range ks {
				walk(c[k], path+"."+k, d+1)
			}
		case []interface{}:
			if len(c) > 0 {
				fmt.Fprintf(&b, "%s=%x;", path, reflect.ValueOf(c).Pointer())
			}
			for i, e := range c {
				walk(e, fmt.Sprintf("%s[%d]", path, i), d+1)
			}
		}
	}
	walk(v, "", 0)
	return b.String()
}

func init() {
	register("conc", &family{replay: replayConc, serial: true,
		rule: "one case = one complete interleaving (schedule) of the goroutines' gate segments, enforced on real goroutines; every 50th schedule the programs are also run free on 8 goroutines x 20 repetitions; all cases non-trivial"})
	register("pure", &family{replay: replayPure,
		rule: "one case = one group of read-only calls (same method family, one argument) on a Map of the builder's space, receiver deep-compared afterwards; plus Copy aliasing test per Map; all cases non-trivial"})
}

func init() {
	// the caller's documented duty for Gob: register the container types
	gob.Register(map[string]interface{}{})
	gob.Register([]interface{}{})
}
