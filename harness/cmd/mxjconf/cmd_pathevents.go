package main

import (
	"bufio"
	"encoding/json"
	"fmt"
	"os"
	"regexp"
	"strconv"
	"strings"

	"verif/harness/tagged"
)

// ---------------------------------------------------------------------------
// mxjconf pathevents <raw.ndjson> <trace.ndjson> <summary.json>
// Turns the calls of the query / update methods observed while the repository's OWN test suite
// ran (wrappers of harness/repotrace/zz_verif_wrap.go.txt, put around the mechanically renamed
// methods in a scratch copy) into sessions of Trace_Path.tla: a "reset" event with the receiver before
// the call, then the call with its arguments parsed into the specification's form and the observed
// results.  The argument strings are parsed HERE, independently of the package, and only the plainly
// well-formed subset is kept (the argument grammar itself is C07 / C15's); everything else is dropped
// and counted by reason.
// ---------------------------------------------------------------------------

var segRe = regexp.MustCompile(`^([^.\[\]*:]+)(\[(\d{1,6})\])?$`)

// parsePathStrict: names with optional [index], or a bare *; no empty segment
func parsePathStrict(p string) ([]pkey, bool) {
	if p == "" {
		return nil, false
	}
	var ks []pkey
	for _, s := range strings.Split(p, ".") {
		if s == "*" {
			ks = append(ks, pkey{Name: "*", Idx: -1})
			continue
		}
		m := segRe.FindStringSubmatch(s)
		if m == nil {
			return nil, false
		}
		idx := -1
		if m[2] != "" {
			idx, _ = strconv.Atoi(m[3])
		}
		ks = append(ks, pkey{Name: m[1], Idx: idx})
	}
	return ks, true
}

func plainNames(ks []pkey, allowStar bool) ([]string, bool) {
	r := make([]string, len(ks))
	for i, k := range ks {
		if k.Idx >= 0 || (k.Name == "*" && !allowStar) {
			return nil, false
		}
		r[i] = k.Name
	}
	return r, true
}

// parseTyped: the value[:type] tail of a sub-key or of a new-value string
func parseTyped(parts []string) (kind, v string, ok bool) {
	if len(parts) == 1 {
		return "s", parts[0], true
	}
	switch parts[1] {
	case "string", "char", "text":
		return "s", parts[0], true
	case "bool", "boolean":
		if parts[0] == "true" || parts[0] == "false" {
			return "b", parts[0], true
		}
	case "float", "float64", "num", "number", "numeric":
		if f, err := strconv.ParseFloat(parts[0], 64); err == nil && !strings.ContainsAny(parts[0], "_xXpPiInN") {
			return "f", tagged.FromGo(f).V, true
		}
	}
	return "", "", false
}

func parseConds(subkeys []string, sep string) ([]cond, bool) {
	cs := []cond{}
	seen := map[string]bool{}
	for _, s := range subkeys {
		parts := strings.Split(s, sep)
		if len(parts) < 2 || len(parts) > 3 || parts[0] == "" || parts[0] == "!" {
			return nil, false
		}
		c := cond{K: parts[0]}
		if strings.HasPrefix(c.K, "!") {
			c.Neg, c.K = true, c.K[1:]
		}
		if seen[c.K] || strings.ContainsAny(c.K, ".[]*!") {
			return nil, false
		}
		seen[c.K] = true
		if parts[1] == "*" {
			if len(parts) == 3 {
				return nil, false
			}
			c.Kind, c.V = "star", "*"
		} else {
			k, v, ok := parseTyped(parts[1:])
			if !ok {
				return nil, false
			}
			c.Kind, c.V = k, v
		}
		cs = append(cs, c)
	}
	return cs, true
}

// plainTV: only the value kinds of the query / update specification (string, number, bool, null, map, list), keys that
// are ordinary names
func plainTV(t *tagged.TV) bool {
	if t == nil {
		return false
	}
	switch t.T {
	case "s", "f", "b", "n":
		return true
	case "m":
		for k, v := range t.KV {
			if k == "" || strings.ContainsAny(k, ".[]*:") || !plainTV(v) {
				return false
			}
		}
		return true
	case "l":
		for _, v := range t.It {
			if !plainTV(v) {
				return false
			}
		}
		return true
	}
	return false
}

func plainTVs(ts []*tagged.TV) bool {
	for _, t := range ts {
		if !plainTV(t) {
			return false
		}
	}
	return true
}

func reTV(t *tagged.TV) *tagged.TV { return tagged.FromGo(t.ToGo()) } // (canonical numerals)
func reTVs(ts []*tagged.TV) []*tagged.TV {
	r := make([]*tagged.TV, len(ts))
	for i, t := range ts {
		r[i] = reTV(t)
	}
	return r
}

func attrKeysOf(t *tagged.TV, pfx string, acc map[string]bool) {
	switch t.T {
	case "m":
		for k, v := range t.KV {
			if pfx != "" && strings.HasPrefix(k, pfx) {
				acc[k] = true
			}
			attrKeysOf(v, pfx, acc)
		}
	case "l":
		for _, v := range t.It {
			attrKeysOf(v, pfx, acc)
		}
	}
}

type rawPathEv struct {
	Op      string                 `json:"op"`
	Pre     *tagged.TV             `json:"pre"`
	Post    *tagged.TV             `json:"post"`
	Path    string                 `json:"path"`
	Subkeys []string               `json:"subkeys"`
	Key     string                 `json:"key"`
	New     string                 `json:"new"`
	R       json.RawMessage        `json:"r"`
	Err     bool                   `json:"err"`
	C       int                    `json:"c"`
	Val     *tagged.TV             `json:"val"`
	Newval  map[string]interface{} `json:"newval"`
	Paths   []string               `json:"paths"`
	Pvals   [][]*tagged.TV         `json:"pvals"`
	Sh      string                 `json:"sh"`
	Na      bool                   `json:"na"`
	Pairs   []string               `json:"pairs"`
	Opts    map[string]interface{} `json:"opts"`
}

func cmdPathEvents(args []string) {
	if len(args) < 3 {
		fmt.Fprintln(os.Stderr, "usage: mxjconf pathevents <raw.ndjson> <trace.ndjson> <summary.json>")
		os.Exit(2)
	}
	in, err := os.Open(args[0])
	if err != nil {
		fmt.Fprintln(os.Stderr, err)
		os.Exit(2)
	}
	defer in.Close()
	out, _ := os.Create(args[1])
	w := bufio.NewWriterSize(out, 1<<20)
	a := newAcc("pathrepo")
	a.Rule = "one event = one call of ValuesForPath / ValuesForKey / PathsForKey / PathForKeyShortest / LeafNodes / UpdateValuesForPath / SetValueForPath / Remove / RenameKey / NewMap made while the repository's own test suite ran (directly by a test or by another method of the package), observed by wrappers around the renamed methods in a scratch copy, with the receiver before the call; validated by Trace_Path.tla; non-trivial = non-empty result or successful mutation"
	rd := bufio.NewReaderSize(in, 4<<20)
	seen := map[string]bool{}
	nontriv := 0
	for {
		line, rerr := rd.ReadBytes('\n')
		if len(line) > 1 {
			var ev rawPathEv
			if json.Unmarshal(line, &ev) != nil {
				a.Add("dropped:unparsable", 1)
			} else if ev.Op == "encx" {
				a.Add("other-family:encx", 1) // (converted by `mxjconf xmlevents` for Trace_Xml.tla)
			} else if ev.Op == "big" {
				a.Add("not-logged:receiver-too-large", 1)
			} else {
				a.Add("observed", 1)
				a.Add("observed:"+ev.Op, 1)
				e, nt, reason := convertPathEv(&ev, line)
				if reason == "" {
					b, _ := json.Marshal(e)
					k := ev.Pre.Canon() + "\x00" + string(b)
					if seen[k] {
						reason = "duplicate"
					} else {
						seen[k] = true
						rb, _ := json.Marshal(map[string]interface{}{"op": "reset", "m": reTV(ev.Pre)})
						w.Write(rb)
						w.WriteByte('\n')
						w.Write(b)
						w.WriteByte('\n')
						a.Cases++
						a.Add("kept:"+ev.Op, 1)
						if nt {
							nontriv++
						}
						if a.Cases%40 == 1 && len(a.Samples) < 6 {
							a.Sample(map[string]interface{}{"op": ev.Op, "receiver": short(ev.Pre.Canon()), "path": ev.Path, "key": ev.Key, "subkeys": ev.Subkeys})
						}
					}
				}
				if reason != "" {
					a.Add("dropped:"+reason, 1)
				}
			}
		}
		if rerr != nil {
			break
		}
	}
	a.Nontrivial = nontriv
	w.Flush()
	out.Close()
	writeSummary(a, args[2])
}

func convertPathEv(ev *rawPathEv, line []byte) (map[string]interface{}, bool, string) {
	if !asciiPrintable(string(line)) {
		return nil, false, "non-ascii"
	}
	if ev.Pre == nil || !plainTV(ev.Pre) || ev.Pre.T != "m" {
		return nil, false, "receiver-shape"
	}
	sep, _ := ev.Opts["fieldSep"].(string)
	if sep == "" {
		return nil, false, "no-options"
	}
	var rs []*tagged.TV
	switch ev.Op {
	case "vfp", "vfk", "ksearch":
		if json.Unmarshal(ev.R, &rs) != nil || !plainTVs(rs) {
			return nil, false, "result-shape"
		}
	}
	switch ev.Op {
	case "vfp":
		ks, ok := parsePathStrict(ev.Path)
		if !ok {
			return nil, false, "path-shape"
		}
		for _, k := range ks {
			if k.Name == "*" && k.Idx >= 0 {
				return nil, false, "path-shape"
			}
		}
		cs, ok := parseConds(ev.Subkeys, sep)
		if !ok {
			return nil, false, "subkey-shape"
		}
		if ev.Err {
			return nil, false, "call-failed"
		}
		return map[string]interface{}{"op": "vfp", "keys": ks, "conds": cs, "w": hasWild(ks), "r": reTVs(rs)}, len(rs) > 0, ""
	case "vfk":
		cs, ok := parseConds(ev.Subkeys, sep)
		if !ok {
			return nil, false, "subkey-shape"
		}
		if ev.Key == "" || strings.ContainsAny(ev.Key, ".[]:") || ev.Err {
			return nil, false, "key-shape"
		}
		return map[string]interface{}{"op": "vfk", "key": ev.Key, "conds": cs, "r": reTVs(rs)}, len(rs) > 0, ""
	case "ksearch":
		if ev.Key == "" || strings.ContainsAny(ev.Key, ".[]:*") {
			return nil, false, "key-shape"
		}
		pv := make([][]*tagged.TV, len(ev.Pvals))
		for i, p := range ev.Pvals {
			if !plainTVs(p) {
				return nil, false, "result-shape"
			}
			pv[i] = reTVs(p)
		}
		paths := ev.Paths
		if paths == nil {
			paths = []string{}
		}
		return map[string]interface{}{"op": "ksearch", "key": ev.Key, "r": reTVs(rs), "paths": paths, "pvals": pv, "sh": ev.Sh}, len(rs) > 0, ""
	case "leaf":
		if tk, _ := ev.Opts["textK"].(string); tk != "#text" {
			return nil, false, "text-key"
		}
		var ln []struct {
			P string     `json:"p"`
			V *tagged.TV `json:"v"`
		}
		if json.Unmarshal(ev.R, &ln) != nil {
			return nil, false, "result-shape"
		}
		r := make([]map[string]interface{}, len(ln))
		for i, x := range ln {
			if !plainTV(x.V) {
				return nil, false, "result-shape"
			}
			r[i] = map[string]interface{}{"p": x.P, "v": reTV(x.V)}
		}
		pfx, _ := ev.Opts["attrPrefix"].(string)
		akm := map[string]bool{}
		attrKeysOf(ev.Pre, pfx, akm)
		ak := []string{}
		for k := range akm {
			ak = append(ak, k)
		}
		dot, _ := ev.Opts["dot"].(bool)
		return map[string]interface{}{"op": "leaf", "na": ev.Na, "dot": dot, "ak": ak, "r": r}, true, ""
	case "upd":
		if ev.Post == nil || !plainTV(ev.Post) {
			return nil, false, "receiver-shape"
		}
		ks, ok := parsePathStrict(ev.Path)
		if !ok {
			return nil, false, "path-shape"
		}
		names, ok := plainNames(ks, true)
		if !ok {
			return nil, false, "path-indexed"
		}
		cs, ok := parseConds(ev.Subkeys, sep)
		if !ok {
			return nil, false, "subkey-shape"
		}
		if ev.Err {
			return nil, false, "call-failed"
		}
		var key string
		var val *tagged.TV
		if s, isStr := ev.Newval["str"].(string); isStr {
			parts := strings.Split(s, sep)
			if len(parts) < 2 || len(parts) > 3 {
				return nil, false, "newval-shape"
			}
			kind, v, ok := parseTyped(parts[1:])
			if !ok {
				return nil, false, "newval-shape"
			}
			key = parts[0]
			val = &tagged.TV{T: kind, V: v}
		} else if tv, has := ev.Newval["tv"]; has {
			b, _ := json.Marshal(tv)
			var t tagged.TV
			if json.Unmarshal(b, &t) != nil || t.T != "m" || len(t.KV) != 1 {
				return nil, false, "newval-shape"
			}
			for k, v := range t.KV {
				key, val = k, v
			}
			if !plainTV(val) {
				return nil, false, "newval-shape"
			}
			val = reTV(val)
		} else {
			return nil, false, "newval-shape"
		}
		if key == "" || strings.ContainsAny(key, ".[]*:") {
			return nil, false, "newval-shape"
		}
		return map[string]interface{}{"op": "upd", "key": key, "val": val, "path": names, "conds": cs, "c": ev.C, "post": reTV(ev.Post)}, ev.C > 0, ""
	case "set", "remove", "rename":
		if ev.Post == nil || !plainTV(ev.Post) {
			return nil, false, "receiver-shape"
		}
		ks, ok := parsePathStrict(ev.Path)
		if !ok {
			return nil, false, "path-shape"
		}
		names, ok := plainNames(ks, false)
		if !ok {
			return nil, false, "path-indexed"
		}
		out := map[bool]string{true: "err", false: "ok"}[ev.Err]
		e := map[string]interface{}{"op": ev.Op, "path": names, "out": out, "post": reTV(ev.Post)}
		if ev.Op == "set" {
			if !plainTV(ev.Val) {
				return nil, false, "newval-shape"
			}
			e["val"] = reTV(ev.Val)
		}
		if ev.Op == "rename" {
			if ev.New == "" || strings.ContainsAny(ev.New, ".[]*:") {
				return nil, false, "newval-shape"
			}
			e["new"] = ev.New
		}
		return e, !ev.Err, ""
	case "newmap":
		if ev.Err || ev.Post == nil {
			return nil, false, "call-failed"
		}
		var r tagged.TV
		if json.Unmarshal(ev.R, &r) != nil || !plainTV(&r) {
			return nil, false, "result-shape"
		}
		pairs := []map[string]interface{}{}
		for _, p := range ev.Pairs {
			parts := strings.Split(p, ":")
			if len(parts) > 2 {
				return nil, false, "pair-shape"
			}
			old, ok := parsePathStrict(parts[0])
			if !ok || hasWild(old) == "1" {
				return nil, false, "pair-shape"
			}
			nw := parts[0]
			if len(parts) == 2 {
				nw = parts[1]
			}
			nks, ok := parsePathStrict(nw)
			if !ok {
				return nil, false, "pair-shape"
			}
			nn, ok := plainNames(nks, false)
			if !ok {
				return nil, false, "pair-shape"
			}
			pairs = append(pairs, map[string]interface{}{"old": old, "new": nn})
		}
		if len(pairs) == 0 {
			return nil, false, "pair-shape"
		}
		return map[string]interface{}{"op": "newmap", "pairs": pairs, "r": reTV(&r), "unchanged": ev.Post.Canon() == ev.Pre.Canon()}, true, ""
	}
	return nil, false, "unknown-op"
}

func init() { extraCmds["pathevents"] = cmdPathEvents }
