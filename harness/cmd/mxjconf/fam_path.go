package main

import (
	"encoding/json"
	"fmt"
	"regexp"
	"strings"

	mxj "github.com/clbanning/mxj/v2"
	"verif/harness/tagged"
)

// ---------------------------------------------------------------------------
// family "vfp" (C07): line = {f, m, cs:[{p, w, r}]}  — ValuesForPath, ValueForPath,
// ValueForPathString, ValueOrEmptyForPathString, Exists on one Map for many paths.
// ---------------------------------------------------------------------------

type vfpCase struct {
	P string       `json:"p"`
	W string       `json:"w"` // "1": path has a wildcard (compare as bag)
	R []*tagged.TV `json:"r"`
}
type vfpLine struct {
	F  string     `json:"f"`
	M  *tagged.TV `json:"m"`
	Cs []vfpCase  `json:"cs"`
}

var reIdx = regexp.MustCompile(`\[\d+\]`)
var reKey = regexp.MustCompile(`[A-Za-z_#\-][A-Za-z0-9_#\-]*`)

// pathShape abstracts a path to its shape: keys -> k, indexes -> [i]
func pathShape(p string) string {
	segs := strings.Split(p, ".")
	for i, s := range segs {
		s = reIdx.ReplaceAllString(s, "[0]")
		if !strings.HasPrefix(s, "*") {
			s = reKey.ReplaceAllString(s, "k")
		}
		segs[i] = strings.ReplaceAll(s, "[0]", "[i]")
	}
	return strings.Join(segs, ".")
}

func short(s string) string {
	if len(s) > 300 {
		return s[:300] + "..."
	}
	return s
}

func replayVfp(line []byte, a *Acc) {
	var l vfpLine
	if err := json.Unmarshal(line, &l); err != nil {
		panic(err)
	}
	mv := l.M.ToMap()
	before := tagged.CanonGo(mv)
	nontriv := 0
	for _, c := range l.Cs {
		exp := tagged.NormList(c.R)
		if len(exp) > 0 {
			nontriv++
		}
		wild := c.W == "1"
		one := func(sig, detail string) {
			a.Mis(sig, detail, vfpLine{F: "vfp", M: l.M, Cs: []vfpCase{c}})
		}
		var got []interface{}
		var err error
		if p := guard(func() { got, err = mv.ValuesForPath(c.P) }); p != "" {
			one("vfp:panic:shape="+pathShape(c.P), fmt.Sprintf("ValuesForPath(%q) %s", c.P, p))
			continue
		}
		if err != nil {
			one("vfp:error:shape="+pathShape(c.P), fmt.Sprintf("ValuesForPath(%q) unexpected error %v", c.P, err))
			continue
		}
		g := tagged.CanonList(got)
		ok := false
		if wild {
			ok = tagged.SameBag(g, exp)
		} else {
			ok = tagged.SameSeq(g, exp)
		}
		if !ok {
			kind := "differs"
			if len(g) > len(exp) {
				kind = "extra"
			} else if len(g) < len(exp) {
				kind = "missing"
			}
			one("vfp:"+kind+":shape="+pathShape(c.P),
				fmt.Sprintf("ValuesForPath(%q) on %s: got %s, spec %s", c.P, short(before), short(strings.Join(g, " ")), short(strings.Join(exp, " "))))
			continue
		}
		// ValueForPath / Exists / ValueForPathString consistency
		var v1 interface{}
		var e1 error
		var ex bool
		var e2 error
		var s1 string
		var e3 error
		if p := guard(func() {
			v1, e1 = mv.ValueForPath(c.P)
			ex, e2 = mv.Exists(c.P)
			s1, e3 = mv.ValueForPathString(c.P)
		}); p != "" {
			one("vfp1:panic:shape="+pathShape(c.P), fmt.Sprintf("ValueForPath/Exists(%q) %s", c.P, p))
			continue
		}
		if len(exp) == 0 {
			if e1 != mxj.PathNotExistError || v1 != nil || ex || e2 != nil || e3 == nil || s1 != "" || mv.ValueOrEmptyForPathString(c.P) != "" {
				one("vfp1:empty-inconsistent", fmt.Sprintf("path %q denotes nothing but ValueForPath=(%v,%v) Exists=(%v,%v) String=(%q,%v)", c.P, v1, e1, ex, e2, s1, e3))
			}
			continue
		}
		if e1 != nil || !ex || e2 != nil || e3 != nil {
			one("vfp1:nonempty-inconsistent", fmt.Sprintf("path %q denotes %d values but ValueForPath err=%v Exists=(%v,%v) String err=%v", c.P, len(exp), e1, ex, e2, e3))
			continue
		}
		cv := tagged.CanonGo(v1)
		if !wild {
			if cv != exp[0] {
				one("vfp1:first-differs", fmt.Sprintf("ValueForPath(%q) = %s, spec first value %s", c.P, cv, exp[0]))
			} else if s1 != fmt.Sprintf("%v", got[0]) {
				one("vfp1:string-differs", fmt.Sprintf("ValueForPathString(%q) = %q", c.P, s1))
			}
		} else {
			found := false
			for _, e := range exp {
				if e == cv {
					found = true
				}
			}
			if !found {
				one("vfp1:first-not-member", fmt.Sprintf("ValueForPath(%q) = %s is not among the denoted values", c.P, cv))
			}
		}
	}
	if after := tagged.CanonGo(mv); after != before {
		a.Mis("vfp:receiver-modified", "ValuesForPath modified its receiver: "+short(before)+" -> "+short(after), l)
	}
	a.Count(len(l.Cs), nontriv)
	if nontriv > 8 {
		for _, c := range l.Cs {
			if len(c.R) > 1 && strings.Count(c.P, ".") > 0 {
				a.Sample(map[string]interface{}{"map": before, "path": c.P, "expected": tagged.NormList(c.R)})
				break
			}
		}
	}
}

func init() {
	register("vfp", &family{replay: replayVfp,
		rule: "one case = (Map, path); Maps are the distinct TLC states of the builder (deduplicated by fingerprint), paths the set AllPaths of the config; non-trivial = the specification says the path denotes at least one value"})
}
