package main

import (
	"encoding/json"
	"fmt"
	"regexp"
	"sort"
	"strconv"
	"strings"

	mxj "github.com/clbanning/mxj/v2"
	"verif/harness/tagged"
)

// ---------------------------------------------------------------------------
// family "vfp" (C07): line = {f, m, cs:[{p, w, r}]}  — ValuesForPath, ValueForPath,
// ValueForPathString, ValueOrEmptyForPathString, Exists on one Map for many paths.
// ---------------------------------------------------------------------------

type vfpCase struct {
	P string       `json:"p"`
	W string       `json:"w"` // "1": path has a wildcard (compare as bag)
	R []*tagged.TV `json:"r"`
}
type vfpLine struct {
	F  string     `json:"f"`
	M  *tagged.TV `json:"m"`
	Cs []vfpCase  `json:"cs"`
}

var reIdx = regexp.MustCompile(`\[\d+\]`)
var reKey = regexp.MustCompile(`[A-Za-z_#\-][A-Za-z0-9_#\-]*`)

// pathShape abstracts a path to its shape: keys -> k, indexes -> [i]
func pathShape(p string) string {
	segs := strings.Split(p, ".")
	for i, s := range segs {
		s = reIdx.ReplaceAllString(s, "[0]")
		if !strings.HasPrefix(s, "*") {
			s = reKey.ReplaceAllString(s, "k")
		}
		segs[i] = strings.ReplaceAll(s, "[0]", "[i]")
	}
	return strings.Join(segs, ".")
}

func short(s string) string {
	if len(s) > 300 {
		return s[:300] + "..."
	}
	return s
}

var indexRe = regexp.MustCompile(`\[\d+\]`)

func replayVfp(line []byte, a *Acc) {
	var l vfpLine
	if err := json.Unmarshal(line, &l); err != nil {
		panic(err)
	}
	mv := l.M.ToMap()
	before := tagged.CanonGo(mv)
	nontriv := 0
	var hf heldFns
	defer hf.check(func(name, was, now string) {
		a.Mis("vfp:result-changed-later", fmt.Sprintf("on %s: the result of %s was %s when returned and reads %s after later calls", short(before), name, short(was), short(now)), l)
	})
	for _, c := range l.Cs {
		exp := tagged.NormList(c.R)
		if len(exp) > 0 {
			nontriv++
		}
		wild := c.W == "1"
		one := func(sig, detail string) {
			a.Mis(sig, detail, vfpLine{F: "vfp", M: l.M, Cs: []vfpCase{c}})
		}
		c.P = subst1(c.P) // placeholders of the specification's alphabet (a non-ASCII rune in a key)
		var got []interface{}
		var err error
		if p := guard(func() { got, err = mv.ValuesForPath(c.P) }); p != "" {
			one("vfp:panic:shape="+pathShape(c.P), fmt.Sprintf("ValuesForPath(%q) %s", c.P, p))
			continue
		}
		if err != nil {
			one("vfp:error:shape="+pathShape(c.P), fmt.Sprintf("ValuesForPath(%q) unexpected error %v", c.P, err))
			continue
		}
		g := tagged.CanonList(got)
		if len(got) > 0 {
			held := got
			hf.add(fmt.Sprintf("ValuesForPath(%q)", c.P), func() string { return strings.Join(tagged.CanonList(held), " ") })
		}
		ok := false
		if wild {
			ok = tagged.SameBag(g, exp)
		} else {
			ok = tagged.SameSeq(g, exp)
		}
		if !ok {
			kind := "differs"
			if len(g) > len(exp) {
				kind = "extra"
			} else if len(g) < len(exp) {
				kind = "missing"
			}
			one("vfp:"+kind+":shape="+pathShape(c.P),
				fmt.Sprintf("ValuesForPath(%q) on %s: got %s, spec %s", c.P, short(before), short(strings.Join(g, " ")), short(strings.Join(exp, " "))))
			continue
		}
		// an index written with leading zeros is the same decimal number (a[010] is the eleventh member, not the ninth)
		if strings.Contains(c.P, "[") {
			padded := indexRe.ReplaceAllStringFunc(c.P, func(m string) string { n, _ := strconv.Atoi(m[1 : len(m)-1]); return fmt.Sprintf("[%03d]", n) })
			if padded != c.P {
				var gp []interface{}
				var ep error
				if p := guard(func() { gp, ep = mv.ValuesForPath(padded) }); p != "" || ep != nil || !tagged.SameBag(tagged.CanonList(gp), g) {
					one("vfp:padded-index", fmt.Sprintf("ValuesForPath(%q) on %s: got %s (err %v %s), ValuesForPath(%q) gives %s", padded, short(before), short(strings.Join(tagged.CanonList(gp), " ")), ep, p, c.P, short(strings.Join(g, " "))))
					continue
				}
			}
		}
		// ValueForPath / Exists / ValueForPathString consistency
		var v1 interface{}
		var e1 error
		var ex bool
		var e2 error
		var s1 string
		var e3 error
		if p := guard(func() {
			v1, e1 = mv.ValueForPath(c.P)
			ex, e2 = mv.Exists(c.P)
			s1, e3 = mv.ValueForPathString(c.P)
		}); p != "" {
			one("vfp1:panic:shape="+pathShape(c.P), fmt.Sprintf("ValueForPath/Exists(%q) %s", c.P, p))
			continue
		}
		if len(exp) == 0 {
			if e1 != mxj.PathNotExistError || v1 != nil || ex || e2 != nil || e3 == nil || s1 != "" || mv.ValueOrEmptyForPathString(c.P) != "" {
				one("vfp1:empty-inconsistent", fmt.Sprintf("path %q denotes nothing but ValueForPath=(%v,%v) Exists=(%v,%v) String=(%q,%v)", c.P, v1, e1, ex, e2, s1, e3))
			}
			continue
		}
		if e1 != nil || !ex || e2 != nil || e3 != nil {
			one("vfp1:nonempty-inconsistent", fmt.Sprintf("path %q denotes %d values but ValueForPath err=%v Exists=(%v,%v) String err=%v", c.P, len(exp), e1, ex, e2, e3))
			continue
		}
		cv := tagged.CanonGo(v1)
		if !wild {
			if cv != exp[0] {
				one("vfp1:first-differs", fmt.Sprintf("ValueForPath(%q) = %s, spec first value %s", c.P, cv, exp[0]))
			} else if s1 != fmt.Sprintf("%v", got[0]) {
				one("vfp1:string-differs", fmt.Sprintf("ValueForPathString(%q) = %q", c.P, s1))
			}
		} else {
			found := false
			for _, e := range exp {
				if e == cv {
					found = true
				}
			}
			if !found {
				one("vfp1:first-not-member", fmt.Sprintf("ValueForPath(%q) = %s is not among the denoted values", c.P, cv))
			}
		}
	}
	if after := tagged.CanonGo(mv); after != before {
		a.Mis("vfp:receiver-modified", "ValuesForPath modified its receiver: "+short(before)+" -> "+short(after), l)
	}
	// the same document with equal sub-documents held as ONE object: a path denotes the same values
	if shared, ok := tagged.InternGo(map[string]interface{}(mv)).(map[string]interface{}); ok && tagged.SharedContainer(shared) != "" {
		sv := mxj.Map(shared)
		for _, c := range l.Cs {
			p := subst1(c.P)
			var g1, g2 []interface{}
			if pn := guard(func() { g1, _ = mv.ValuesForPath(p); g2, _ = sv.ValuesForPath(p) }); pn != "" {
				continue
			}
			c1, c2 := tagged.CanonList(g1), tagged.CanonList(g2)
			if !tagged.SameBag(c1, c2) {
				a.Mis("vfp:shared-subdocuments", fmt.Sprintf("ValuesForPath(%q) on %s gives %s; with equal sub-documents held as one object it gives %s", p, short(before), short(strings.Join(c1, " ")), short(strings.Join(c2, " "))), vfpLine{F: "vfp", M: l.M, Cs: []vfpCase{c}})
				break
			}
		}
	}
	a.Count(len(l.Cs), nontriv)
	if nontriv > 8 {
		for _, c := range l.Cs {
			if len(c.R) > 1 && strings.Count(c.P, ".") > 0 {
				a.Sample(map[string]interface{}{"map": before, "path": c.P, "expected": tagged.NormList(c.R)})
				break
			}
		}
	}
}

func init() {
	register("vfp", &family{replay: replayVfp,
		rule: "one case = (Map, path); Maps are the distinct TLC states of the builder (deduplicated by fingerprint), paths the set AllPaths of the config; non-trivial = the specification says the path denotes at least one value"})
}

// ---------------------------------------------------------------------------
// family "vfk" (C08): ValuesForKey / ValueForKey / PathsForKey / PathForKeyShortest and
// ValuesForPath with sub-keys, under both field separators.
// ---------------------------------------------------------------------------

type cond struct {
	K    string `json:"k"`
	Neg  bool   `json:"neg"`
	Kind string `json:"kind"`
	V    string `json:"v"`
}

func (c cond) str(sep string) string {
	s := ""
	if c.Neg {
		s = "!"
	}
	s += c.K + sep + c.V
	switch c.Kind {
	case "b":
		s += sep + "bool"
	case "f":
		s += sep + "num"
	}
	return s
}

func condStrs(cs []cond, sep string) []string {
	r := make([]string, len(cs))
	for i, c := range cs {
		r[i] = c.str(sep)
	}
	return r
}

type vfkCase struct {
	Key   string       `json:"key"`
	Conds []cond       `json:"conds"`
	R     []*tagged.TV `json:"r"`
}
type pfkCase struct {
	Key   string   `json:"key"`
	Paths []string `json:"paths"`
	Sl    int      `json:"sl"`
}
type vpcCase struct {
	P     string       `json:"p"`
	W     string       `json:"w"`
	Conds []cond       `json:"conds"`
	R     []*tagged.TV `json:"r"`
}
type vfkLine struct {
	F  string     `json:"f"`
	M  *tagged.TV `json:"m"`
	Ks []vfkCase  `json:"ks,omitempty"`
	Pf []pfkCase  `json:"pf,omitempty"`
	Vp []vpcCase  `json:"vp,omitempty"`
}

func condShape(cs []cond) string {
	parts := []string{}
	for _, c := range cs {
		n := ""
		if c.Neg {
			n = "!"
		}
		parts = append(parts, n+c.Kind)
	}
	// order independent
	if len(parts) == 2 && parts[0] > parts[1] {
		parts[0], parts[1] = parts[1], parts[0]
	}
	return strings.Join(parts, "+")
}

func replayVfk(line []byte, a *Acc) {
	var l vfkLine
	if err := json.Unmarshal(line, &l); err != nil {
		panic(err)
	}
	mv := l.M.ToMap()
	before := tagged.CanonGo(mv)
	nontriv := 0
	defer mxj.SetFieldSeparator()
	var hf heldFns
	defer hf.check(func(name, was, now string) {
		a.Mis("vfk:result-changed-later", fmt.Sprintf("on %s: the result of %s was %s when returned and reads %s after later calls", short(before), name, short(was), short(now)), l)
	})
	for _, c := range l.Ks {
		exp := tagged.NormList(c.R)
		if len(exp) > 0 {
			nontriv++
		}
		for _, sep := range []string{":", "|"} {
			mxj.SetFieldSeparator(sep)
			sk := condStrs(c.Conds, sep)
			one := func(sig, detail string) { a.Mis(sig, detail, vfkLine{F: "vfk", M: l.M, Ks: []vfkCase{c}}) }
			var got []interface{}
			var err error
			var v1 interface{}
			var e1 error
			if p := guard(func() { got, err = mv.ValuesForKey(c.Key, sk...); v1, e1 = mv.ValueForKey(c.Key, sk...) }); p != "" {
				one("vfk:panic", fmt.Sprintf("ValuesForKey(%q,%v) %s", c.Key, sk, p))
				continue
			}
			if err != nil {
				one("vfk:error", fmt.Sprintf("ValuesForKey(%q,%v) unexpected error %v", c.Key, sk, err))
				continue
			}
			g := tagged.CanonList(got)
			if len(got) > 0 {
				held := got
				hf.add(fmt.Sprintf("ValuesForKey(%q,%v)", c.Key, sk), func() string { return strings.Join(tagged.CanonList(held), " ") })
			}
			if !tagged.SameBag(g, exp) {
				kind := "differs"
				if len(g) > len(exp) {
					kind = "extra"
				} else if len(g) < len(exp) {
					kind = "missing"
				}
				one("vfk:"+kind+":conds="+condShape(c.Conds), fmt.Sprintf("ValuesForKey(%q,%v) on %s: got %s, spec %s", c.Key, sk, short(before), short(strings.Join(g, " ")), short(strings.Join(exp, " "))))
				continue
			}
			if len(exp) == 0 {
				if e1 != mxj.KeyNotExistError || v1 != nil {
					one("vfk1:empty-inconsistent", fmt.Sprintf("ValueForKey(%q,%v)=(%v,%v) though no value matches", c.Key, sk, v1, e1))
				}
			} else {
				cv := tagged.CanonGo(v1)
				found := false
				for _, e := range exp {
					if e == cv {
						found = true
					}
				}
				if e1 != nil || !found {
					one("vfk1:first-not-member", fmt.Sprintf("ValueForKey(%q,%v)=(%s,%v)", c.Key, sk, cv, e1))
				}
			}
		}
	}
	mxj.SetFieldSeparator()
	for _, c := range l.Pf {
		one := func(sig, detail string) { a.Mis(sig, detail, vfkLine{F: "vfk", M: l.M, Pf: []pfkCase{c}}) }
		var got []string
		var sh string
		if p := guard(func() { got = mv.PathsForKey(c.Key); sh = mv.PathForKeyShortest(c.Key) }); p != "" {
			one("pfk:panic", fmt.Sprintf("PathsForKey(%q) %s", c.Key, p))
			continue
		}
		if len(c.Paths) > 0 {
			nontriv++
		}
		if len(got) > 0 {
			held := got
			hf.add(fmt.Sprintf("PathsForKey(%q)", c.Key), func() string { return strings.Join(held, " ") })
		}
		if !tagged.SameBag(got, c.Paths) {
			one("pfk:differs", fmt.Sprintf("PathsForKey(%q) on %s = %v, spec %v", c.Key, short(before), got, c.Paths))
			continue
		}
		if len(c.Paths) == 0 {
			if sh != "" || got != nil {
				one("pfk:shortest-nonempty", fmt.Sprintf("PathForKeyShortest(%q) = %q, no path exists", c.Key, sh))
			}
			continue
		}
		okm := false
		for _, p := range c.Paths {
			if p == sh {
				okm = true
			}
		}
		if !okm || len(strings.Split(sh, ".")) != c.Sl {
			one("pfk:shortest", fmt.Sprintf("PathForKeyShortest(%q) = %q; paths %v, minimal length %d", c.Key, sh, c.Paths, c.Sl))
		}
	}
	for _, c := range l.Vp {
		exp := tagged.NormList(c.R)
		if len(exp) > 0 {
			nontriv++
		}
		for _, sep := range []string{":", "|"} {
			mxj.SetFieldSeparator(sep)
			sk := condStrs(c.Conds, sep)
			one := func(sig, detail string) { a.Mis(sig, detail, vfkLine{F: "vfk", M: l.M, Vp: []vpcCase{c}}) }
			var got []interface{}
			var err error
			var ex bool
			if p := guard(func() { got, err = mv.ValuesForPath(c.P, sk...); ex, _ = mv.Exists(c.P, sk...) }); p != "" {
				one("vfpc:panic", fmt.Sprintf("ValuesForPath(%q,%v) %s", c.P, sk, p))
				continue
			}
			g := tagged.CanonList(got)
			ok := err == nil
			if ok {
				if c.W == "1" {
					ok = tagged.SameBag(g, exp)
				} else {
					ok = tagged.SameSeq(g, exp)
				}
			}
			if !ok {
				one("vfpc:differs:conds="+condShape(c.Conds), fmt.Sprintf("ValuesForPath(%q,%v) on %s: got %s err=%v, spec %s", c.P, sk, short(before), short(strings.Join(g, " ")), err, short(strings.Join(exp, " "))))
				continue
			}
			if ex != (len(exp) > 0) {
				one("vfpc:exists", fmt.Sprintf("Exists(%q,%v) = %v but %d values", c.P, sk, ex, len(exp)))
			}
		}
	}
	mxj.SetFieldSeparator()
	if after := tagged.CanonGo(mv); after != before {
		a.Mis("vfk:receiver-modified", "key search modified its receiver: "+short(before)+" -> "+short(after), l)
	}
	// the same document with equal sub-documents held as ONE object: the same values and the same paths for every key
	if shared, ok := tagged.InternGo(map[string]interface{}(mv)).(map[string]interface{}); ok && tagged.SharedContainer(shared) != "" {
		mxj.SetFieldSeparator()
		sv := mxj.Map(shared)
		for _, c := range l.Ks {
			if len(c.Conds) > 0 {
				continue
			}
			var g1, g2 []interface{}
			var p1, p2 []string
			if pn := guard(func() {
				g1, _ = mv.ValuesForKey(c.Key)
				g2, _ = sv.ValuesForKey(c.Key)
				p1 = mv.PathsForKey(c.Key)
				p2 = sv.PathsForKey(c.Key)
			}); pn != "" {
				continue
			}
			c1, c2 := tagged.CanonList(g1), tagged.CanonList(g2)
			if !tagged.SameBag(c1, c2) || !tagged.SameBag(p1, p2) {
				a.Mis("vfk:shared-subdocuments", fmt.Sprintf("ValuesForKey / PathsForKey(%q) on %s give %s / %v; with equal sub-documents held as one object %s / %v", c.Key, short(before), short(strings.Join(c1, " ")), p1, short(strings.Join(c2, " ")), p2), vfkLine{F: "vfk", M: l.M, Ks: []vfkCase{c}})
				break
			}
		}
	}
	a.Count(2*len(l.Ks)+len(l.Pf)+2*len(l.Vp), nontriv)
	if nontriv > 20 {
		for _, c := range l.Ks {
			if len(c.R) > 0 && len(c.Conds) == 2 {
				a.Sample(map[string]interface{}{"map": before, "key": c.Key, "subkeys": condStrs(c.Conds, ":"), "expected": tagged.NormList(c.R)})
				break
			}
		}
	}
}

// ---------------------------------------------------------------------------
// family "leaf" (C09): LeafNodes / LeafPaths / LeafValues under no-attr, dot-notation and
// attribute prefixes; every path is resolved through the real ValuesForPath.
// ---------------------------------------------------------------------------
type leafExp struct {
	P string     `json:"p"`
	V *tagged.TV `json:"v"`
}
type leafCase struct {
	Na  bool      `json:"na"`
	Dot bool      `json:"dot"`
	Ak  []string  `json:"ak"`
	R   []leafExp `json:"r"`
}
type leafLine struct {
	F  string     `json:"f"`
	M  *tagged.TV `json:"m"`
	Cs []leafCase `json:"cs"`
}

func hasNestedList(v interface{}) bool {
	switch x := v.(type) {
	case map[string]interface{}:
		for _, e := range x {
			if hasNestedList(e) {
				return true
			}
		}
	case mxj.Map:
		return hasNestedList(map[string]interface{}(x))
	case []interface{}:
		for _, e := range x {
			if _, ok := e.([]interface{}); ok || hasNestedList(e) {
				return true
			}
		}
	}
	return false
}

func hasEmptyKey(v interface{}) bool {
	switch x := v.(type) {
	case map[string]interface{}:
		for k, e := range x {
			if k == "" || hasEmptyKey(e) {
				return true
			}
		}
	case mxj.Map:
		return hasEmptyKey(map[string]interface{}(x))
	case []interface{}:
		for _, e := range x {
			if hasEmptyKey(e) {
				return true
			}
		}
	}
	return false
}

func replayLeaf(line []byte, a *Acc) {
	var l leafLine
	if err := json.Unmarshal(line, &l); err != nil {
		panic(err)
	}
	mv := l.M.ToMap()
	before := tagged.CanonGo(mv)
	// the same document with equal sub-documents held as ONE object: the same terminal values under the same paths
	if shared, ok := tagged.InternGo(map[string]interface{}(mv)).(map[string]interface{}); ok && tagged.SharedContainer(shared) != "" {
		render := func(m mxj.Map) []string {
			var r []string
			for _, n := range m.LeafNodes() {
				r = append(r, n.Path+" = "+tagged.CanonGo(n.Value))
			}
			sort.Strings(r)
			return r
		}
		var g1, g2 []string
		if p := guard(func() { g1 = render(mv); g2 = render(mxj.Map(shared)) }); p == "" && strings.Join(g1, "; ") != strings.Join(g2, "; ") {
			a.Mis("leaf:shared-subdocuments", fmt.Sprintf("LeafNodes on %s: %v; with equal sub-documents held as one object: %v", short(before), g1, g2), l)
		}
	}
	emptyKey := hasEmptyKey(mv) || hasNestedList(mv) // outside the resolution clause's domain
	nontriv, cases := 0, 0
	defer func() { mxj.SetAttrPrefix("-"); mxj.LeafUseDotNotation(false) }()
	var hf heldFns
	defer hf.check(func(name, was, now string) {
		a.Mis("leaf:result-changed-later", fmt.Sprintf("on %s: the result of %s was %s when returned and reads %s after later Leaf* calls", short(before), name, short(was), short(now)), l)
	})
	for _, c := range l.Cs {
		// prefixes under which no key of the alphabet is an attribute / under which "-x" is one
		prefixes := []string{"@", "", "-y", "-xx"}
		if len(c.Ak) > 0 {
			prefixes = []string{"-", c.Ak[0]} // (the whole attribute key as the prefix, too)
		}
		exp := make([]string, len(c.R))
		expP := make([]string, len(c.R))
		expV := make([]string, len(c.R))
		for i, e := range c.R {
			exp[i] = e.P + " = " + e.V.Norm()
			expP[i] = e.P
			expV[i] = e.V.Norm()
		}
		for _, pfx := range prefixes {
			cases++
			if len(exp) > 0 {
				nontriv++
			}
			mxj.SetAttrPrefix(pfx)
			mxj.LeafUseDotNotation(c.Dot)
			one := func(sig, detail string) { a.Mis(sig, detail, leafLine{F: "leaf", M: l.M, Cs: []leafCase{c}}) }
			var ln []mxj.LeafNode
			var lp []string
			var lv []interface{}
			if p := guard(func() { ln = mv.LeafNodes(c.Na); lp = mv.LeafPaths(c.Na); lv = mv.LeafValues(c.Na) }); p != "" {
				one("leaf:panic", fmt.Sprintf("LeafNodes(%v) prefix %q on %s: %s", c.Na, pfx, short(before), p))
				continue
			}
			g := make([]string, len(ln))
			for i, n := range ln {
				g[i] = n.Path + " = " + tagged.CanonGo(n.Value)
			}
			if len(ln) > 0 {
				hln, hlp, hlv := ln, lp, lv
				hf.add(fmt.Sprintf("LeafNodes(%v) under prefix %q dot %v", c.Na, pfx, c.Dot), func() string {
					r := make([]string, len(hln))
					for i, n := range hln {
						r[i] = n.Path + " = " + tagged.CanonGo(n.Value)
					}
					return strings.Join(r, "; ")
				})
				hf.add(fmt.Sprintf("LeafPaths(%v)", c.Na), func() string { return strings.Join(hlp, "; ") })
				hf.add(fmt.Sprintf("LeafValues(%v)", c.Na), func() string { return strings.Join(tagged.CanonList(hlv), "; ") })
			}
			if !tagged.SameBag(g, exp) {
				one(fmt.Sprintf("leaf:nodes:noattr=%v:dot=%v", c.Na, c.Dot), fmt.Sprintf("LeafNodes(%v) prefix %q dot %v on %s: got %v, spec %v", c.Na, pfx, c.Dot, short(before), g, exp))
				continue
			}
			if !tagged.SameBag(lp, expP) {
				one(fmt.Sprintf("leaf:paths-not-projection:noattr=%v", c.Na), fmt.Sprintf("LeafPaths(%v) on %s = %v, LeafNodes paths %v", c.Na, short(before), lp, expP))
				continue
			}
			if !tagged.SameBag(tagged.CanonList(lv), expV) {
				one(fmt.Sprintf("leaf:values-not-projection:noattr=%v", c.Na), fmt.Sprintf("LeafValues(%v) on %s = %v, LeafNodes values %v", c.Na, short(before), tagged.CanonList(lv), expV))
				continue
			}
			// resolution clause: [N] notation, attributes kept, keys free of '.', '[', '*' and non-empty
			if !c.Dot && !c.Na && !emptyKey {
				for _, n := range ln {
					var vals []interface{}
					var err error
					if p := guard(func() { vals, err = mv.ValuesForPath(n.Path) }); p != "" {
						one("leaf:resolve-panic", fmt.Sprintf("ValuesForPath(%q) %s", n.Path, p))
						break
					}
					if err != nil || len(vals) != 1 || tagged.CanonGo(vals[0]) != tagged.CanonGo(n.Value) {
						one("leaf:not-resolving:shape="+pathShape(n.Path), fmt.Sprintf("leaf path %q of %s resolves to %v (err %v), leaf value %s", n.Path, short(before), tagged.CanonList(vals), err, tagged.CanonGo(n.Value)))
						break
					}
				}
			}
		}
	}
	if after := tagged.CanonGo(mv); after != before {
		a.Mis("leaf:receiver-modified", "LeafNodes modified its receiver: "+short(before)+" -> "+short(after), l)
	}
	a.Count(cases, nontriv)
	if nontriv > 6 && len(l.Cs[0].R) > 2 {
		a.Sample(map[string]interface{}{"map": before, "noattr": l.Cs[0].Na, "dot": l.Cs[0].Dot, "expected": l.Cs[0].R})
	}
}

func init() {
	register("vfk", &family{replay: replayVfk, serial: true,
		rule: "one case = (Map, key, set of sub-key conditions, field separator) for ValuesForKey/ValueForKey, (Map, key) for PathsForKey/PathForKeyShortest, (Map, path, conditions, separator) for ValuesForPath with sub-keys; non-trivial = expected result non-empty"})
	register("leaf", &family{replay: replayLeaf, serial: true,
		rule: "one case = (Map, no-attr flag, dot-notation flag, attribute prefix) for LeafNodes+LeafPaths+LeafValues, each leaf path resolved through ValuesForPath when the resolution clause applies; non-trivial = Map has at least one leaf"})
}

// wide variants: the same replays under several SetArraySize settings (serial: package option)
func replayVfpWide(line []byte, a *Acc) {
	defer mxj.SetArraySize(0)
	for _, n := range []int{0, 33, 64, 1000} {
		mxj.SetArraySize(n)
		replayVfp(line, a)
	}
}
func replayVfkWide(line []byte, a *Acc) {
	defer mxj.SetArraySize(0)
	for _, n := range []int{0, 33, 64, 1000} {
		mxj.SetArraySize(n)
		replayVfk(line, a)
	}
}

func init() {
	register("vfpw", &family{replay: replayVfpWide, serial: true,
		rule: "as vfp, on Maps/lists wider than the initial result capacity, each case under SetArraySize 32 (default), 33, 64, 1000; cases counted once per setting"})
	register("vfkw", &family{replay: replayVfkWide, serial: true,
		rule: "as vfk, on wide Maps, each case under SetArraySize 32, 33, 64, 1000"})
}
