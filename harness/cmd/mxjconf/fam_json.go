package main

import (
	"bytes"
	"encoding/json"
	"fmt"
	"os"
	"strings"

	mxj "github.com/clbanning/mxj/v2"
	"verif/harness/tagged"
)

// ---------------------------------------------------------------------------
// family "json" (C06): exact bytes of Map.Json for strings as values / keys / nested, both
// encodings; valid JSON; decoded back equal; all encoder variants and Copy agree.
// ---------------------------------------------------------------------------
type jsonCase struct {
	Shape string `json:"shape"`
	Safe  bool   `json:"safe"`
	X     string `json:"x"`
}
type jsonLine struct {
	F  string     `json:"f"`
	S  string     `json:"s"`
	Cs []jsonCase `json:"cs"`
}

func jsubst(s string) string {
	return strings.NewReplacer("^", "\x01", "$", "\n", "~", "é").Replace(s)
}

func replayJson(line []byte, a *Acc) {
	var l jsonLine
	if err := json.Unmarshal(line, &l); err != nil {
		panic(err)
	}
	s := jsubst(l.S)
	nontriv := 0
	for _, c := range l.Cs {
		var m mxj.Map
		switch c.Shape {
		case "val":
			m = mxj.Map{"k": s}
		case "key":
			m = mxj.Map{s: "v"}
		case "nest":
			m = mxj.Map{"k": []interface{}{s, map[string]interface{}{s: []interface{}{s}}}}
		case "object":
			m = mxj.Map{"object": []interface{}{s}}
		}
		one := func(sig, detail string) {
			// (the whole line is the replay case: some defects only show after an earlier call)
			a.Mis(sig, fmt.Sprintf("string %q as %s, safe=%v: %s", s, c.Shape, c.Safe, detail), l)
		}
		if strings.ContainsAny(s, "<>&\\\"\x01\n") {
			nontriv++
		}
		orig := tagged.CanonGo(m)
		var b, bi []byte
		var err, erri error
		if p := guard(func() { b, err = m.Json(c.Safe); bi, erri = m.JsonIndent("", " ", c.Safe) }); p != "" {
			one("json:panic", p)
			continue
		}
		if err != nil || erri != nil {
			one("json:error", fmt.Sprintf("%v %v", err, erri))
			continue
		}
		c.X = jsubst(c.X)
		if string(b) != c.X {
			one(fmt.Sprintf("json:bytes:%s:safe=%v", c.Shape, c.Safe), fmt.Sprintf("Json = %q, specification %q", b, c.X))
			continue
		}
		// the safe flag spelled out: JsonIndent(.., false) is the default encoding, JsonIndent(.., true) the safe one
		if bx, ex := m.JsonIndent("", " ", c.Safe); ex != nil || !sameJSONBytes(bx, b) || string(bx) != string(bi) {
			one(fmt.Sprintf("json:indent-flag:safe=%v", c.Safe), fmt.Sprintf("JsonIndent(\"\", \" \", %v) = %q (err %v), Json(%v) = %q", c.Safe, bx, ex, c.Safe, b))
			continue
		}
		if !c.Safe {
			if bd, ed := m.JsonIndent("", " "); ed != nil || string(bd) != string(bi) {
				one("json:indent-flag:absent", fmt.Sprintf("JsonIndent without a flag = %q (err %v), with the flag false %q", bd, ed, bi))
				continue
			}
		}
		// nothing to indent with: still the requested encoding (default / safe), one value
		if b0, e0 := m.JsonIndent("", "", c.Safe); e0 != nil || !sameJSONBytes(b0, b) {
			one(fmt.Sprintf("json:indent-empty:safe=%v", c.Safe), fmt.Sprintf("JsonIndent(\"\", \"\", %v) = %q (err %v) does not compact to Json = %q", c.Safe, b0, e0, b))
			continue
		}
		// a returned result belongs to the caller: encoding another Map must not change it
		keep := string(b)
		keepi := string(bi)
		other := mxj.Map{"zzzzzzzzzzzzzzzzzzzzzzzzzzzzzzzzzzzzzzzzzzzzzzzzzz": []interface{}{1.5, "other", s + s}}
		other.Json(c.Safe)
		other.JsonIndent("", " ", c.Safe)
		other.Json(!c.Safe)
		if string(b) != keep || string(bi) != keepi {
			one("json:result-overwritten", fmt.Sprintf("the bytes returned by Json/JsonIndent changed after encoding another Map: %q -> %q", keep, b))
			continue
		}
		for i, out := range [][]byte{b, bi} {
			name := []string{"Json", "JsonIndent"}[i]
			if !json.Valid(out) {
				one(fmt.Sprintf("json:invalid:%s:safe=%v", name, c.Safe), fmt.Sprintf("%s = %q is not valid JSON", name, out))
				continue
			}
			back, derr := mxj.NewMapJson(out)
			if derr != nil || tagged.CanonGo(back) != orig {
				one(fmt.Sprintf("json:roundtrip:%s:safe=%v", name, c.Safe), fmt.Sprintf("NewMapJson(%q) = %s (%v), original %s", out, tagged.CanonGo(back), derr, orig))
			}
			// ... and through the stream reader (its own document scanner), from a source without ReadByte
			backr, rerr := mxj.NewMapJsonReader(hideByteReader{bytes.NewReader(out)})
			if rerr != nil || tagged.CanonGo(backr) != orig {
				one(fmt.Sprintf("json:roundtrip-reader:%s:safe=%v", name, c.Safe), fmt.Sprintf("NewMapJsonReader(%q) = %s (%v), original %s", out, tagged.CanonGo(backr), rerr, orig))
			}
			if c.Safe == bytes.ContainsAny(out, "<>&") && strings.ContainsAny(s, "<>&") {
				one(fmt.Sprintf("json:html-chars:%s:safe=%v", name, c.Safe), fmt.Sprintf("%s = %q", name, out))
			}
		}
		// the file forms REPLACE an existing (longer) file
		if fdir := jsonTmpDir(); fdir != "" {
			tf, _ := os.CreateTemp(fdir, "j*.json") // (the family runs on several workers: one file per use)
			fn := tf.Name()
			tf.Close()
			long := mxj.Maps{m, m, m}
			e1 := long.JsonFile(fn, c.Safe)
			e2 := mxj.Maps{m}.JsonFile(fn, c.Safe)
			back, e3 := mxj.NewMapsFromJsonFile(fn)
			if e1 != nil || e2 != nil || e3 != nil || len(back) != 1 || tagged.CanonGo(back[0]) != orig {
				got, _ := os.ReadFile(fn)
				one("json:file-rewrite", fmt.Sprintf("three Maps then one written to the same file: it holds %q, read back %d Maps (%v %v %v)", got, len(back), e1, e2, e3))
			}
			e1 = long.JsonFileIndent(fn, "", "  ", c.Safe)
			e2 = mxj.Maps{m}.JsonFileIndent(fn, "", " ", c.Safe)
			back, e3 = mxj.NewMapsFromJsonFile(fn)
			if e1 != nil || e2 != nil || e3 != nil || len(back) != 1 || tagged.CanonGo(back[0]) != orig {
				got, _ := os.ReadFile(fn)
				one("json:file-rewrite-indent", fmt.Sprintf("three Maps then one written (indented) to the same file: it holds %q, read back %d Maps (%v %v %v)", got, len(back), e1, e2, e3))
			}
			os.Remove(fn)
		}
		// writer forms and Copy
		var w1, w2 bytes.Buffer
		e1 := m.JsonWriter(&w1, c.Safe)
		raw, e2 := m.JsonWriterRaw(&w2, c.Safe)
		if e1 != nil || e2 != nil || w1.String() != string(b) || w2.String() != string(b) || string(raw) != string(b) {
			one("json:writer-differs", fmt.Sprintf("JsonWriter wrote %q, JsonWriterRaw wrote %q returned %q; Json = %q", w1.String(), w2.String(), raw, b))
		}
		cp, cerr := m.Copy()
		if cerr != nil || tagged.CanonGo(cp) != orig {
			one("json:copy", fmt.Sprintf("Copy = %s (%v), original %s", tagged.CanonGo(cp), cerr, orig))
		}
	}
	a.Count(len(l.Cs), nontriv)
	if len(s) > 5 && strings.Contains(s, "u003c") {
		a.Sample(map[string]interface{}{"string": s, "cases": l.Cs[:2]})
	}
}

// ---------------------------------------------------------------------------
// family "jsonin" (C06): NewMapJson accepts exactly the inputs whose first value is an object or
// an array; oracle for the value: encoding/json on the same bytes.
// ---------------------------------------------------------------------------
type jsoninLine struct {
	F      string `json:"f"`
	Text   string `json:"text"`
	Kind   string `json:"kind"`
	Accept bool   `json:"accept"`
	Shape  string `json:"shape"`
}

func replayJsonIn(line []byte, a *Acc) {
	var l jsoninLine
	if err := json.Unmarshal(line, &l); err != nil {
		panic(err)
	}
	defer func() { mxj.JsonUseNumber = false }()
	orig := l
	l.Text = strings.NewReplacer("%", "\f", "`", "\u00a0", "@", "\ufeff").Replace(l.Text) // placeholders of the specification's alphabet
	one := func(sig, detail string) {
		a.Mis(sig, fmt.Sprintf("input %q (first value: %s): %s", l.Text, l.Kind, detail), orig)
	}
	// independent oracle: what encoding/json makes of the first value
	var first interface{}
	oerr := json.NewDecoder(strings.NewReader(l.Text)).Decode(&first)
	okind := "bad"
	if oerr == nil {
		switch first.(type) {
		case map[string]interface{}:
			okind = "obj"
		case []interface{}:
			okind = "arr"
		default:
			okind = "other"
		}
	}
	if l.Kind == "range" {
		// a numeral beyond float64: an error for the float64 decoder (the oracle above), a value when numbers are kept as text
		if okind != "bad" {
			a.mu.Lock()
			a.Fatal = fmt.Sprintf("oracle disagreement on %q: specification says out of range, encoding/json says %s", l.Text, okind)
			a.mu.Unlock()
			return
		}
	} else if l.Kind != "empty" && okind != l.Kind {
		a.mu.Lock()
		a.Fatal = fmt.Sprintf("oracle disagreement on %q: specification says %s, encoding/json says %s", l.Text, l.Kind, okind)
		a.mu.Unlock()
		return
	}
	for _, useNumber := range []bool{false, true} {
		mxj.JsonUseNumber = useNumber
		var m mxj.Map
		var err error
		if p := guard(func() { m, err = mxj.NewMapJson([]byte(l.Text)) }); p != "" {
			one("jsonin:panic", p)
			continue
		}
		accept := l.Accept
		shape := l.Shape
		if l.Kind == "range" && useNumber {
			var w interface{}
			dn := json.NewDecoder(strings.NewReader(l.Text))
			dn.UseNumber()
			if dn.Decode(&w) == nil {
				accept = true
				shape = "value"
				if _, isList := w.([]interface{}); isList {
					shape = "wrapped"
				}
			}
		}
		if (err == nil) != accept {
			lead := "plain"
			if strings.TrimLeft(l.Text, " \n\t") != l.Text {
				lead = "leading-ws"
			}
			one(fmt.Sprintf("jsonin:acceptance:%s:%s:spec-accept=%v", l.Kind, lead, l.Accept), fmt.Sprintf("NewMapJson returned (%s, %v)", tagged.CanonGo(m), err))
			continue
		}
		if err != nil {
			continue
		}
		// the returned Map belongs to the caller: filling it must not show in the result of the next call on the same input
		if m != nil {
			m["zz-added-by-caller"] = map[string]interface{}{"k": "v"}
			var again mxj.Map
			var err2 error
			if p := guard(func() { again, err2 = mxj.NewMapJson([]byte(l.Text)) }); p != "" || err2 != nil {
				one("jsonin:second-call", fmt.Sprintf("second NewMapJson on the same input: %v %s", err2, p))
				continue
			}
			if _, leaked := again["zz-added-by-caller"]; leaked {
				one("jsonin:result-shared:"+l.Kind, fmt.Sprintf("a member added to the Map returned by one call shows in the result of the next call: %s", tagged.CanonGo(again)))
				continue
			}
			delete(m, "zz-added-by-caller")
		}
		var want interface{}
		d := json.NewDecoder(strings.NewReader(l.Text))
		if useNumber {
			d.UseNumber()
		}
		d.Decode(&want)
		switch shape {
		case "empty":
			if m == nil || len(m) != 0 {
				one("jsonin:empty", fmt.Sprintf("returned %s", tagged.CanonGo(m)))
			}
		case "value":
			if tagged.CanonGo(m) != tagged.CanonGo(want) {
				one("jsonin:value", fmt.Sprintf("returned %s, encoding/json gives %s", tagged.CanonGo(m), tagged.CanonGo(want)))
			}
		case "wrapped":
			if tagged.CanonGo(m) != tagged.CanonGo(map[string]interface{}{"object": want}) {
				one("jsonin:wrapped", fmt.Sprintf("returned %s, encoding/json gives the array %s", tagged.CanonGo(m), tagged.CanonGo(want)))
			}
		}
	}
	nt := 0
	if l.Kind != "empty" {
		nt = 2
	}
	a.Count(2, nt)
	if l.Kind == "arr" && strings.HasPrefix(l.Text, " ") {
		a.Sample(l)
	}
}

var jsonTmp string

// jsonTmpDir: one scratch directory per process for the file forms (removed by the caller of the harness with its scratch area)
func jsonTmpDir() string {
	if jsonTmp == "" {
		d, err := os.MkdirTemp("", "mxjjson")
		if err == nil {
			jsonTmp = d
			atExit = append(atExit, func() { os.RemoveAll(d) })
		}
	}
	return jsonTmp
}

// sameJSONBytes: equal after json.Compact (escape sequences are kept by Compact, so safe and default encodings differ)
func sameJSONBytes(a, b []byte) bool {
	var ca, cb bytes.Buffer
	if json.Compact(&ca, a) != nil || json.Compact(&cb, b) != nil {
		return false
	}
	return ca.String() == cb.String()
}

// numerals keep their exact text with JsonUseNumber (one fixed catalogue, differential with encoding/json)
func checkUseNumber(a *Acc) {
	defer func() { mxj.JsonUseNumber = false }()
	for _, num := range []string{"1.0", "1e2", "-0", "12345678901234567890", "0.10", "1E+2", "123456789.123456789", "9007199254740993"} {
		doc := `{"n":` + num + `,"l":[` + num + `]}`
		mxj.JsonUseNumber = true
		m, err := mxj.NewMapJson([]byte(doc))
		rd, err2 := mxj.NewMapJsonReader(strings.NewReader(doc))
		for i, mm := range []mxj.Map{m, rd} {
			n, _ := mm["n"].(json.Number)
			if err != nil || err2 != nil || string(n) != num {
				a.Mis("jsonin:usenumber", fmt.Sprintf("numeral %s read as %v (%T) by entry %d", num, mm["n"], mm["n"], i), nil)
			}
		}
		b, _ := m.Json()
		if string(b) != `{"l":[`+num+`],"n":`+num+`}` {
			a.Mis("jsonin:usenumber-encode", fmt.Sprintf("numeral %s re-encoded as %s", num, b), nil)
		}
	}
}

var useNumberDone bool

func init() {
	register("json", &family{replay: replayJson,
		rule: "one case = (string, shape value/key/nested, encoding default/safe): Json bytes exact, Json and JsonIndent valid and decoded back equal, writer forms and Copy agree; non-trivial = the string holds a character JSON or the safe encoding must escape"})
	register("jsonin", &family{replay: func(line []byte, a *Acc) {
		if !useNumberDone {
			useNumberDone = true
			checkUseNumber(a)
		}
		replayJsonIn(line, a)
	}, serial: true,
		rule: "one case = (input [ws] value [ws] [trailer], JsonUseNumber off/on); non-trivial = non-empty input"})
}
