package main

import (
	"encoding/json"
	"fmt"
	"strings"

	mxj "github.com/clbanning/mxj/v2"
	"verif/harness/tagged"
)

// ---------------------------------------------------------------------------
// family "args" (C15, argument strings): every string applied to every string-taking method
// of a Map that has empty keys.  A panic is a violation; the error class (and, for paths,
// the values) must agree with the character-level specification MxjArgs.
// ---------------------------------------------------------------------------
type argsLine struct {
	F       string       `json:"f"`
	Kind    string       `json:"kind"`
	S       string       `json:"s"`
	M       *tagged.TV   `json:"m"`
	Ok      bool         `json:"ok"`
	R       []*tagged.TV `json:"r"`
	WildIdx bool         `json:"wildidx"`
	Pair    string       `json:"pair"`
	Sub1    string       `json:"sub1"`
	Sub2    string       `json:"sub2"`
	Nv1     string       `json:"nv1"`
	Nv2     string       `json:"nv2"`
}

func cls(err error) string {
	if err != nil {
		return "err"
	}
	return "ok"
}

func replayArgs(line []byte, a *Acc) {
	var l argsLine
	if err := json.Unmarshal(line, &l); err != nil {
		panic(err)
	}
	defer mxj.SetFieldSeparator()
	fresh := func() mxj.Map { return l.M.ToMap() }
	one := func(sig, detail string) { a.Mis(sig, fmt.Sprintf("argument %q: %s", l.S, detail), l) }
	n := 0
	call := func(name string, fn func()) bool {
		n++
		if p := guard(fn); p != "" {
			one("args:panic:"+name, name+": "+p)
			return false
		}
		return true
	}
	mv := fresh()
	if l.Kind == "path" {
		var got []interface{}
		var err error
		if call("ValuesForPath", func() { got, err = mv.ValuesForPath(l.S) }) {
			if (err == nil) != l.Ok {
				one("args:path:error-class", fmt.Sprintf("ValuesForPath returned err=%v, specification says ok=%v", err, l.Ok))
			} else if err == nil && !l.WildIdx {
				g, e := tagged.CanonList(got), tagged.NormList(l.R)
				same := tagged.SameSeq(g, e)
				if strings.Contains(l.S, "*") {
					same = tagged.SameBag(g, e)
				}
				if !same {
					one("args:path:values:shape="+pathShape(l.S), fmt.Sprintf("ValuesForPath = %v, specification %v", g, e))
				}
			}
		}
		call("ValueForPath", func() { mv.ValueForPath(l.S); mv.ValueForPathString(l.S); mv.ValueOrEmptyForPathString(l.S) })
		call("Exists", func() { mv.Exists(l.S) })
		call("Elements/Attributes", func() { mv.Elements(l.S); mv.Attributes(l.S) })
		call("ValuesForKey", func() { mv.ValuesForKey(l.S); mv.PathsForKey(l.S); mv.PathForKeyShortest(l.S) })
		call("UpdateValuesForPath", func() { fresh().UpdateValuesForPath(map[string]interface{}{"a": "N"}, l.S) })
		call("SetValueForPath", func() { fresh().SetValueForPath("N", l.S) })
		call("Remove", func() { fresh().Remove(l.S) })
		call("RenameKey", func() { fresh().RenameKey(l.S, "n"); fresh().RenameKey("a", l.S) })
	} else {
		for i, sep := range []string{":", "|"} {
			mxj.SetFieldSeparator(sep)
			want := []string{l.Sub1, l.Sub2}[i]
			var err error
			if call("ValuesForKey(subkey)", func() { _, err = mv.ValuesForKey("a", l.S) }) && cls(err) != want {
				one("args:subkey:error-class", fmt.Sprintf("ValuesForKey(\"a\", %q) with separator %q: err=%v, specification %s", l.S, sep, err, want))
			}
			if call("ValuesForPath(subkey)", func() { _, err = mv.ValuesForPath("a", l.S) }) && cls(err) != want {
				one("args:subkey:error-class", fmt.Sprintf("ValuesForPath(\"a\", %q) with separator %q: err=%v, specification %s", l.S, sep, err, want))
			}
			if call("ValuesForPath(indexed,subkey)", func() { _, err = mv.ValuesForPath("a[0]", l.S) }) && cls(err) != want {
				one("args:subkey:error-class", fmt.Sprintf("ValuesForPath(\"a[0]\", %q): err=%v, specification %s", l.S, err, want))
			}
			call("Exists(subkey)", func() { mv.Exists("a", l.S) })
			wantNv := []string{l.Nv1, l.Nv2}[i]
			if call("UpdateValuesForPath(newVal)", func() { _, err = fresh().UpdateValuesForPath(l.S, "a") }) && cls(err) != wantNv {
				one("args:newval:error-class", fmt.Sprintf("UpdateValuesForPath(%q, \"a\") with separator %q: err=%v, specification %s", l.S, sep, err, wantNv))
			}
			call("UpdateValuesForPath(subkey)", func() { fresh().UpdateValuesForPath("a:N", "a", l.S) })
		}
		mxj.SetFieldSeparator()
	}
	// key pairs of NewMap (both alphabets)
	var err error
	if call("NewMap", func() { _, err = mv.NewMap(l.S) }) && cls(err) != l.Pair {
		one("args:pair:error-class", fmt.Sprintf("NewMap(%q): err=%v, specification %s", l.S, err, l.Pair))
	}
	// leaf enumeration on the Map with empty keys
	call("LeafNodes", func() { mv.LeafNodes(); mv.LeafNodes(true); mv.LeafPaths(); mv.LeafValues() })
	if tagged.CanonGo(mv) != l.M.Norm() {
		one("args:receiver-modified", "a query with this argument modified the Map")
	}
	nt := 0
	if strings.ContainsAny(l.S, "[]:!|-+") {
		nt = n
	}
	a.Count(n, nt)
	if len(l.S) > 3 && l.Kind == "path" && l.Ok && len(l.R) > 0 && strings.Contains(l.S, "[") {
		a.Sample(map[string]interface{}{"path": l.S, "values": tagged.NormList(l.R)})
	}
}

func init() {
	register("args", &family{replay: replayArgs, serial: true,
		rule: "one case = (argument string, method taking it: ValuesForPath/ValueForPath/Exists/Elements/Attributes/ValuesForKey/PathsForKey/UpdateValuesForPath/SetValueForPath/Remove/RenameKey/NewMap/LeafNodes, sub-key and newVal positions under both field separators); non-trivial = the string contains a character that is significant for the parsers"})
}
