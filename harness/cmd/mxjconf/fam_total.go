package main

import (
	"bytes"
	"encoding/base64"
	"encoding/json"
	"encoding/xml"
	"fmt"
	"io"
	"strings"
	"sync"
	"testing/iotest"

	mxj "github.com/clbanning/mxj/v2"
	"verif/harness/tagged"
)

// ---------------------------------------------------------------------------
// family "args" (C15, argument strings): every string applied to every string-taking method
// of a Map that has empty keys.  A panic is a violation; the error class (and, for paths,
// the values) must agree with the character-level specification MxjArgs.
// ---------------------------------------------------------------------------
type argsLine struct {
	F       string       `json:"f"`
	Kind    string       `json:"kind"`
	S       string       `json:"s"`
	M       *tagged.TV   `json:"m"`
	Ok      bool         `json:"ok"`
	R       []*tagged.TV `json:"r"`
	WildIdx bool         `json:"wildidx"`
	Pair    string       `json:"pair"`
	Sub1    string       `json:"sub1"`
	Sub2    string       `json:"sub2"`
	Nv1     string       `json:"nv1"`
	Nv2     string       `json:"nv2"`
}

func cls(err error) string {
	if err != nil {
		return "err"
	}
	return "ok"
}

func replayArgs(line []byte, a *Acc) {
	var l argsLine
	if err := json.Unmarshal(line, &l); err != nil {
		panic(err)
	}
	defer mxj.SetFieldSeparator()
	fresh := func() mxj.Map { return l.M.ToMap() }
	one := func(sig, detail string) { a.Mis(sig, fmt.Sprintf("argument %q: %s", l.S, detail), l) }
	n := 0
	call := func(name string, fn func()) bool {
		n++
		if p := guard(fn); p != "" {
			// (a wildcard argument reaches the panicking node or not depending on the runtime's map iteration order: its own class, so
			//  that a deterministic instance of the same panic is re-executed on its own)
			wild := ""
			if strings.Contains(l.S, "*") {
				wild = ":wildcard"
			}
			one("args:panic:"+name+wild, name+": "+p)
			return false
		}
		return true
	}
	mv := fresh()
	if l.Kind == "path" {
		var got []interface{}
		var err error
		if call("ValuesForPath", func() { got, err = mv.ValuesForPath(l.S) }) {
			if (err == nil) != l.Ok {
				one("args:path:error-class", fmt.Sprintf("ValuesForPath returned err=%v, specification says ok=%v", err, l.Ok))
			} else if err == nil && !l.WildIdx {
				g, e := tagged.CanonList(got), tagged.NormList(l.R)
				same := tagged.SameSeq(g, e)
				if strings.Contains(l.S, "*") {
					same = tagged.SameBag(g, e)
				}
				if !same {
					one("args:path:values:shape="+pathShape(l.S), fmt.Sprintf("ValuesForPath = %v, specification %v", g, e))
				}
			}
		}
		call("ValueForPath", func() { mv.ValueForPath(l.S); mv.ValueForPathString(l.S); mv.ValueOrEmptyForPathString(l.S) })
		call("Exists", func() { mv.Exists(l.S) })
		call("Elements/Attributes", func() { mv.Elements(l.S); mv.Attributes(l.S) })
		call("ValuesForKey", func() { mv.ValuesForKey(l.S); mv.PathsForKey(l.S); mv.PathForKeyShortest(l.S) })
		call("UpdateValuesForPath", func() { fresh().UpdateValuesForPath(map[string]interface{}{"a": "N"}, l.S) })
		call("SetValueForPath", func() { fresh().SetValueForPath("N", l.S) })
		call("Remove", func() { fresh().Remove(l.S) })
		call("RenameKey", func() { fresh().RenameKey(l.S, "n"); fresh().RenameKey("a", l.S) })
	} else {
		for i, sep := range []string{":", "|"} {
			mxj.SetFieldSeparator(sep)
			want := []string{l.Sub1, l.Sub2}[i]
			var err error
			if call("ValuesForKey(subkey)", func() { _, err = mv.ValuesForKey("a", l.S) }) && cls(err) != want {
				one("args:subkey:error-class", fmt.Sprintf("ValuesForKey(\"a\", %q) with separator %q: err=%v, specification %s", l.S, sep, err, want))
			}
			if call("ValuesForPath(subkey)", func() { _, err = mv.ValuesForPath("a", l.S) }) && cls(err) != want {
				one("args:subkey:error-class", fmt.Sprintf("ValuesForPath(\"a\", %q) with separator %q: err=%v, specification %s", l.S, sep, err, want))
			}
			if call("ValuesForPath(indexed,subkey)", func() { _, err = mv.ValuesForPath("a[0]", l.S) }) && cls(err) != want {
				one("args:subkey:error-class", fmt.Sprintf("ValuesForPath(\"a[0]\", %q): err=%v, specification %s", l.S, err, want))
			}
			call("Exists(subkey)", func() { mv.Exists("a", l.S) })
			wantNv := []string{l.Nv1, l.Nv2}[i]
			if call("UpdateValuesForPath(newVal)", func() { _, err = fresh().UpdateValuesForPath(l.S, "a") }) && cls(err) != wantNv {
				one("args:newval:error-class", fmt.Sprintf("UpdateValuesForPath(%q, \"a\") with separator %q: err=%v, specification %s", l.S, sep, err, wantNv))
			}
			call("UpdateValuesForPath(subkey)", func() { fresh().UpdateValuesForPath("a:N", "a", l.S) })
		}
		mxj.SetFieldSeparator()
	}
	// key pairs of NewMap (both alphabets)
	var err error
	if call("NewMap", func() { _, err = mv.NewMap(l.S) }) && cls(err) != l.Pair {
		one("args:pair:error-class", fmt.Sprintf("NewMap(%q): err=%v, specification %s", l.S, err, l.Pair))
	}
	// a pair the specification refuses is refused wherever it stands: after pairs that were accepted, after a pair that selected nothing
	if l.Pair == "err" && l.S != "" {
		for _, first := range [][]string{{"a:r"}, {"zz:r"}, {"a:r", "", "b:s"}} {
			var e2 error
			args := append(append([]string{}, first...), l.S)
			if call("NewMap(accepted pairs, then this one)", func() { _, e2 = mv.NewMap(args...) }) && e2 == nil {
				one("args:pair:error-class", fmt.Sprintf("NewMap(%q) returned no error; alone the last pair is refused", args))
			}
		}
	}
	// ... and together with a second pair that lands on the SAME new key (values of every kind meet there: scalar, list, map)
	newKey := l.S
	if i := strings.LastIndex(l.S, ":"); i >= 0 {
		newKey = l.S[i+1:]
	}
	for _, old := range []string{"a", "b", "a[0]", "a[1]", "b.a", "zz"} {
		old := old
		call("NewMap(two pairs, one new key)", func() {
			mv.NewMap(l.S, old+":"+newKey)
			mv.NewMap(old+":"+newKey, l.S)
			mv.NewMap("b:r", l.S, old+":r")
		})
	}
	// leaf enumeration on the Map with empty keys
	call("LeafNodes", func() { mv.LeafNodes(); mv.LeafNodes(true); mv.LeafPaths(); mv.LeafValues() })
	if tagged.CanonGo(mv) != l.M.Norm() {
		one("args:receiver-modified", "a query with this argument modified the Map")
	}
	nt := 0
	if strings.ContainsAny(l.S, "[]:!|-+") {
		nt = n
	}
	a.Count(n, nt)
	if len(l.S) > 3 && l.Kind == "path" && l.Ok && len(l.R) > 0 && strings.Contains(l.S, "[") {
		a.Sample(map[string]interface{}{"path": l.S, "values": tagged.NormList(l.R)})
	}
}

func init() {
	register("args", &family{replay: replayArgs, serial: true,
		rule: "one case = (argument string, method taking it: ValuesForPath/ValueForPath/Exists/Elements/Attributes/ValuesForKey/PathsForKey/UpdateValuesForPath/SetValueForPath/Remove/RenameKey/NewMap/LeafNodes, sub-key and newVal positions under both field separators); non-trivial = the string contains a character that is significant for the parsers"})
}

// ---------------------------------------------------------------------------
// family "tok" (C15, byte input): token-level corruptions classified by the specification, and
// byte-level truncations / mutations derived from them classified by an independent
// encoding/xml Token() loop.  Every decoder form is applied under recover.
// ---------------------------------------------------------------------------
type tokT struct {
	K  string   `json:"k"`
	Nm xName    `json:"nm"`
	At []xAttr  `json:"at"`
	Tx []string `json:"tx"`
}
type tokCase struct {
	Op  string `json:"op"`
	Ts  []tokT `json:"ts"`
	Cls string `json:"cls"`
}
type tokLine struct {
	F   string    `json:"f"`
	Cs  []tokCase `json:"cs"`
	Raw []rawIn   `json:"raw,omitempty"` // replay form of a derived byte-level input
}
type rawIn struct {
	B64   string `json:"b64"`
	AllOn bool   `json:"allon"`
	Prof  string `json:"prof,omitempty"` // a named option profile of tokProfiles (instead of AllOn)
	Text  string `json:"text"`           // for the reader only
}

// option profiles under which the text key itself carries the attribute prefix (the encoder's two scans of a node's
// keys -- attributes, then elements -- must agree on what the text key is)
var tokProfiles = map[string]decOpt{
	"hash":  {apfx: "#", kpfx: "#"}, // SetAttrPrefix("#"): "#text" begins with the attribute prefix
	"kdash": {apfx: "-", kpfx: "-"}, // SetGlobalKeyMapPrefix("-"): the text key is "-text", the attribute prefix "-"
	"under": {apfx: "_", kpfx: "_"},
}

func rawCaseP(b []byte, prof string) tokLine {
	return tokLine{F: "tok", Raw: []rawIn{{B64: base64.StdEncoding.EncodeToString(b), Prof: prof, Text: string(b)}}}
}

func rawCase(b []byte, allOn bool) tokLine {
	return tokLine{F: "tok", Raw: []rawIn{{B64: base64.StdEncoding.EncodeToString(b), AllOn: allOn, Text: string(b)}}}
}

func renderToks(ts []tokT) []byte {
	var b strings.Builder
	for _, t := range ts {
		switch t.K {
		case "S":
			b.WriteString("<" + t.Nm.String())
			for _, a := range t.At {
				b.WriteString(" " + a.Nm.String() + `="` + escAttr(strings.Join(a.V, ""), `"`) + `"`)
			}
			b.WriteString(">")
		case "E":
			b.WriteString("</" + t.Nm.String() + ">")
		case "T":
			b.WriteString(escText(strings.Join(t.Tx, ""), 0))
		case "C":
			b.WriteString("<!--" + strings.Join(t.Tx, "") + "-->")
		}
	}
	return []byte(subst1(b.String())) // (placeholders of the specification's ASCII alphabet: ~ is a two-byte letter)
}

// oracleClass: what encoding/xml makes of the first document
func oracleClass(doc []byte) string {
	d := xml.NewDecoder(bytes.NewReader(doc))
	depth := 0
	started := false
	for {
		t, err := d.Token()
		if err == io.EOF {
			if started {
				return "err"
			}
			return "eof"
		}
		if err != nil {
			return "err"
		}
		switch t.(type) {
		case xml.StartElement:
			depth++
			started = true
		case xml.EndElement:
			depth--
			if depth == 0 {
				return "ok"
			}
		}
	}
}

type xmlDecoderForm struct {
	name string
	seq  bool
	call func(b []byte) (map[string]interface{}, error)
}

var xmlDecoderForms = []xmlDecoderForm{
	{"NewMapXml", false, func(b []byte) (map[string]interface{}, error) { m, e := mxj.NewMapXml(b); return m, e }},
	{"NewMapXmlReader", false, func(b []byte) (map[string]interface{}, error) {
		m, e := mxj.NewMapXmlReader(hideByteReader{bytes.NewReader(b)})
		return m, e
	}},
	{"NewMapXmlReaderRaw", false, func(b []byte) (map[string]interface{}, error) {
		m, _, e := mxj.NewMapXmlReaderRaw(bytes.NewReader(b))
		return m, e
	}},
	{"NewMapXml(cast)", false, func(b []byte) (map[string]interface{}, error) { m, e := mxj.NewMapXml(b, true); return m, e }},
	{"NewMapXmlSeq", true, func(b []byte) (map[string]interface{}, error) { m, e := mxj.NewMapXmlSeq(b); return m, e }},
	{"NewMapXmlSeq(cast)", true, func(b []byte) (map[string]interface{}, error) { m, e := mxj.NewMapXmlSeq(b, true); return m, e }},
	{"NewMapXmlSeqReader", true, func(b []byte) (map[string]interface{}, error) {
		m, e := mxj.NewMapXmlSeqReader(hideByteReader{bytes.NewReader(b)})
		return m, e
	}},
	{"NewMapXmlSeqReaderRaw", true, func(b []byte) (map[string]interface{}, error) {
		m, _, e := mxj.NewMapXmlSeqReaderRaw(bytes.NewReader(b))
		return m, e
	}},
	{"NewMapFormattedXmlSeq", true, func(b []byte) (map[string]interface{}, error) { m, e := mxj.NewMapFormattedXmlSeq(b); return m, e }},
	// readers that deliver the LAST byte together with io.EOF (legal for an io.Reader), without a ReadByte method
	{"NewMapXmlReaderRaw(data+EOF)", false, func(b []byte) (map[string]interface{}, error) {
		m, _, e := mxj.NewMapXmlReaderRaw(iotest.DataErrReader(hideByteReader{bytes.NewReader(b)}))
		return m, e
	}},
	{"NewMapXmlSeqReaderRaw(data+EOF)", true, func(b []byte) (map[string]interface{}, error) {
		m, _, e := mxj.NewMapXmlSeqReaderRaw(iotest.DataErrReader(hideByteReader{bytes.NewReader(b)}))
		return m, e
	}},
	{"NewMapXmlReader(data+EOF)", false, func(b []byte) (map[string]interface{}, error) {
		m, e := mxj.NewMapXmlReader(iotest.DataErrReader(hideByteReader{bytes.NewReader(b)}))
		return m, e
	}},
}

// checkXmlInput applies every decoder form to one byte input with known class
func checkXmlInput(doc []byte, class, origin string, a *Acc, rc interface{}) int {
	n := 0
	for _, f := range xmlDecoderForms {
		n++
		var m map[string]interface{}
		var err error
		one := func(sig, detail string) {
			a.Mis(sig, fmt.Sprintf("%s on %q (%s): %s", f.name, doc, origin, detail), rc)
		}
		if p := guard(func() { m, err = f.call(doc) }); p != "" {
			one("tok:panic:"+f.name, p)
			continue
		}
		got := "ok"
		if err == io.EOF {
			got = "eof"
		} else if err != nil {
			got = "err"
		}
		if f.seq && err == mxj.NoRoot {
			continue // documented no-root result of the sequence decoder
		}
		if f.name == "NewMapFormattedXmlSeq" && class != "ok" {
			// it rewrites the input first (white space between tags removed): only the no-panic clause applies
			continue
		}
		if f.seq && class == "err" && got == "eof" {
			// the sequence decoder reads raw tokens: a document cut inside an element ends in io.EOF, which is
			// a failure too (the property distinguishes success from failure, not the error values)
			got = "err"
		}
		if got != class {
			one(fmt.Sprintf("tok:class:%s:want=%s:got=%s", f.name, class, got), fmt.Sprintf("returned err=%v, the first document is %s", err, class))
			continue
		}
		if err != nil && len(m) != 0 {
			one("tok:partial-map:"+f.name, fmt.Sprintf("returned error %v together with Map %s", err, tagged.CanonGo(m)))
			continue
		}
		if err == nil {
			// every Map a decoder returns can be passed to the matching encoder
			if p := guard(func() {
				if f.seq {
					ms := mxj.MapSeq(m)
					ms.Xml()
					ms.XmlIndent("", " ")
					ms.XmlIndent(" ", "  ") // (a line prefix shorter than the indent unit, and a tab before blanks)
					ms.XmlIndent("\t", "    ")
				} else {
					mv := mxj.Map(m)
					mv.Xml()
					mv.XmlIndent("", " ")
					mv.XmlIndent(" ", "  ")
					mv.XmlIndent("\t", "    ")
					mv.Json()
				}
			}); p != "" {
				one("tok:encoder-panic:"+f.name, "encoding the returned Map: "+p)
			}
		}
	}
	// bulk handler and BeautifyXml: terminate, no panic
	n++
	if p := guard(func() {
		cnt := 0
		mxj.HandleXmlReader(bytes.NewReader(doc), func(mxj.Map) bool { cnt++; return cnt < 5 }, func(error) bool { return false })
		mxj.HandleXmlReaderRaw(bytes.NewReader(doc), func(mxj.Map, []byte) bool { cnt++; return cnt < 10 }, func(error, []byte) bool { return false })
		mxj.BeautifyXml(doc, "", " ")
		mxj.BeautifyXml(doc, " ", "  ") // (a line prefix shorter than the indent unit)
	}); p != "" {
		a.Mis("tok:panic:handlers", fmt.Sprintf("HandleXmlReader[Raw]/BeautifyXml on %q: %s", doc, p), rc)
	}
	return n
}

// documents outside the builder's alphabet that the tokenizer accepts: a repeated attribute label, short values that consist
// almost entirely of characters with long entity names (the escaped form is six times as long)
var tokExtraDocs = []string{
	`<a>text<b/><c/></a>`, `<a k="v">text<b/><c>u</c><b k="w">t<d/><e/></b></a>`, `<a text="1" k="2">t<text/><k/></a>`,
	`<a x="1" x="2"/>`, `<a x="1" x="2" x="3"><b y="" y="">t</b></a>`, `<p:a q:x="1" r:x="2"/>`,
	`<a>""""""""""""x</a>`, `<a b="''''''''''''''x"/>`, `<a>&amp;&amp;&amp;&amp;&amp;&amp;&amp;&amp;&amp;&amp;&amp;&amp;&amp;&amp;x</a>`,
	`<a b="&quot;&quot;&quot;&quot;&quot;&quot;&quot;&quot;&quot;&quot;&quot;&quot;&quot;&quot;&quot;&quot;">''''''''''''''''</a>`,
}
var tokExtraOnce sync.Once

func replayTok(line []byte, a *Acc) {
	var l tokLine
	if err := json.Unmarshal(line, &l); err != nil {
		panic(err)
	}
	cases, nontriv := 0, 0
	tokExtraOnce.Do(func() {
		for _, d := range tokExtraDocs {
			doc := []byte(d)
			for _, allOn := range []bool{false, true} {
				if allOn {
					decOpt{lower: true, snake: true, asmap: true, keep: true, escdec: true, tagseq: true, apfx: "@", kpfx: "_"}.apply()
				} else {
					mxj.XMLEscapeChars(true) // (encoder-side escaping for the encoders the decoded Maps are passed to)
				}
				cases += checkXmlInput(doc, oracleClass(doc), "document outside the builder's alphabet", a, rawCase(doc, allOn))
				resetDecOpts()
				mxj.XMLEscapeChars(false)
			}
			for _, prof := range []string{"hash", "kdash", "under"} {
				tokProfiles[prof].apply()
				cases += checkXmlInput(doc, oracleClass(doc), "document outside the builder's alphabet, option profile "+prof, a, rawCaseP(doc, prof))
				resetDecOpts()
			}
		}
	})
	for _, r := range l.Raw {
		b, _ := base64.StdEncoding.DecodeString(r.B64)
		if r.AllOn {
			decOpt{lower: true, snake: true, asmap: true, keep: true, escdec: true, tagseq: true, apfx: "@", kpfx: "_"}.apply()
			mxj.CastValuesToInt(true)
		} else if r.Prof != "" {
			tokProfiles[r.Prof].apply()
		}
		cases += checkXmlInput(b, oracleClass(b), "replayed byte input", a, rawCase(b, r.AllOn))
		resetDecOpts()
		mxj.CastValuesToInt(false)
	}
	for _, c := range l.Cs {
		doc := renderToks(c.Ts)
		if oc := oracleClass(doc); oc != c.Cls {
			a.mu.Lock()
			a.Fatal = fmt.Sprintf("oracle disagreement on %q (%s): specification %s, encoding/xml %s", doc, c.Op, c.Cls, oc)
			a.mu.Unlock()
			return
		}
		k := checkXmlInput(doc, c.Cls, "token "+c.Op, a, tokLine{F: "tok", Cs: []tokCase{c}})
		cases += k
		// the same input under non-default decoder options, and with a BOM / stray text ahead of the root
		decOpt{lower: true, snake: true, asmap: true, keep: true, escdec: true, tagseq: true, apfx: "@", kpfx: "_"}.apply()
		mxj.CastValuesToInt(true)
		for _, pre := range []string{"", "\xef\xbb\xbf", "x \n"} {
			pdoc := append([]byte(pre), doc...)
			cases += checkXmlInput(pdoc, oracleClass(pdoc), "token "+c.Op+" with options and prefix", a, rawCase(pdoc, true))
		}
		resetDecOpts()
		mxj.CastValuesToInt(false)
		if c.Op != "none" {
			nontriv += k
			continue
		}
		for _, prof := range []string{"hash", "kdash"} {
			tokProfiles[prof].apply()
			cases += checkXmlInput(doc, c.Cls, "well-formed document under option profile "+prof, a, rawCaseP(doc, prof))
			resetDecOpts()
		}
		// byte level: every truncation, every single-byte deletion, a few substitutions per position
		for i := 0; i < len(doc); i++ {
			muts := [][]byte{doc[:i], append(append([]byte{}, doc[:i]...), doc[i+1:]...)}
			for _, sub := range []byte{'<', '>', '/', '"', '&', 0, 0xff, 'a', ' '} {
				if doc[i] != sub {
					mm := append([]byte{}, doc...)
					mm[i] = sub
					muts = append(muts, mm)
				}
			}
			for _, mdoc := range muts {
				k := checkXmlInput(mdoc, oracleClass(mdoc), fmt.Sprintf("byte mutation at %d of %q", i, doc), a, rawCase(mdoc, false))
				cases += k
				nontriv += k
			}
		}
	}
	a.Count(cases, nontriv)
	if len(l.Cs) > 10 {
		a.Sample(map[string]interface{}{"document": string(renderToks(l.Cs[0].Ts)), "corruption": l.Cs[5].Op, "bytes": string(renderToks(l.Cs[5].Ts)), "class": l.Cs[5].Cls})
	}
}

// JSON and gob byte input (oracle: encoding/json, encoding/gob): fixed seeds, every truncation / deletion / substitution
func jsonGobTotality(a *Acc) {
	seeds := []string{`{"a":1,"b":{"c":[1,"x",{"d":null}]},"e":"q\"r\\"}`, ` {"k":"{}}"} {"j":2}`, `[1,{"a":2}]`, `{"a":{"b":{"c":{}}}}x`, `}`, `{"a":"é\ud83d"}`}
	n := 0
	for _, s := range seeds {
		doc := []byte(s)
		var muts [][]byte
		muts = append(muts, doc)
		for i := 0; i <= len(doc); i++ {
			muts = append(muts, doc[:i])
			if i < len(doc) {
				muts = append(muts, append(append([]byte{}, doc[:i]...), doc[i+1:]...))
				for _, sub := range []byte{'{', '}', '"', '\\', '[', 0xff, 0} {
					mm := append([]byte{}, doc...)
					mm[i] = sub
					muts = append(muts, mm)
				}
			}
		}
		for _, mdoc := range muts {
			n++
			var first interface{}
			oerr := json.NewDecoder(bytes.NewReader(mdoc)).Decode(&first)
			_, isObj := first.(map[string]interface{})
			_, isArr := first.([]interface{})
			accept := len(mdoc) == 0 || (oerr == nil && (isObj || isArr))
			var m mxj.Map
			var err error
			if p := guard(func() { m, err = mxj.NewMapJson(mdoc) }); p != "" {
				a.Mis("tok:json:panic:NewMapJson", fmt.Sprintf("%q: %s", mdoc, p), map[string]interface{}{"json": string(mdoc)})
				continue
			}
			if (err == nil) != accept {
				a.Mis("tok:json:class:NewMapJson", fmt.Sprintf("NewMapJson(%q) err=%v, encoding/json on the first value: %v (%T)", mdoc, err, oerr, first), map[string]interface{}{"json": string(mdoc)})
			}
			if err != nil && len(m) != 0 {
				a.Mis("tok:json:partial-map", fmt.Sprintf("NewMapJson(%q) returned %s with error %v", mdoc, tagged.CanonGo(m), err), map[string]interface{}{"json": string(mdoc)})
			}
			if p := guard(func() {
				mxj.NewMapJsonReader(bytes.NewReader(mdoc))
				mxj.NewMapJsonReaderRaw(bytes.NewReader(mdoc))
				c := 0
				mxj.HandleJsonReader(bytes.NewReader(mdoc), func(mxj.Map) bool { c++; return c < 5 }, func(error) bool { return false })
				mxj.HandleJsonReaderRaw(bytes.NewReader(mdoc), func(mxj.Map, []byte) bool { c++; return c < 10 }, func(error, []byte) bool { return false })
				if err == nil {
					m.Json()
					m.Xml()
				}
			}); p != "" {
				a.Mis("tok:json:panic:readers", fmt.Sprintf("%q: %s", mdoc, p), map[string]interface{}{"json": string(mdoc)})
			}
		}
	}
	// gob
	g, _ := mxj.Map{"a": "x", "b": []interface{}{1.5, map[string]interface{}{"c": true}}}.Gob()
	for i := 0; i <= len(g); i++ {
		n++
		for _, mdoc := range [][]byte{g[:i], append(append([]byte{}, g[:i]...), 0xff)} {
			if p := guard(func() {
				m, err := mxj.NewMapGob(mdoc)
				if err != nil && len(m) != 0 {
					a.Mis("tok:gob:partial-map", fmt.Sprintf("NewMapGob returned %s with error %v", tagged.CanonGo(m), err), nil)
				}
			}); p != "" {
				a.Mis("tok:gob:panic", fmt.Sprintf("NewMapGob on %d bytes: %s", len(mdoc), p), nil)
			}
		}
	}
	a.Count(n, n)
}

var jsonGobDone bool

func init() {
	register("tok", &family{serial: true, replay: func(line []byte, a *Acc) {
		if !jsonGobDone {
			jsonGobDone = true
			jsonGobTotality(a)
		}
		replayTok(line, a)
	},
		rule: "one case = (byte input, decoder form): token-level corruptions with the specification's class, byte-level truncations/deletions/substitutions of every position with the class of an independent encoding/xml Token loop (JSON: encoding/json, gob: no panic); non-trivial = corrupted input"})
}
