package main

import (
	"bytes"
	"encoding/json"
	"errors"
	"fmt"
	"os"
	"path/filepath"
	"strings"

	mxj "github.com/clbanning/mxj/v2"
	"verif/harness/tagged"
)

// ---------------------------------------------------------------------------
// family "det" (C16): a construction history replayed into real Go maps of several capacities;
// the final Map encoded repeatedly through every encoder entry point.
// ---------------------------------------------------------------------------
type detOp struct {
	Op string     `json:"op"`
	K  string     `json:"k"`
	V  *tagged.TV `json:"v"`
}
type detLine struct {
	F    string  `json:"f"`
	Hist []detOp `json:"hist"`
	X    string  `json:"x"`
	J    string  `json:"j"`
	Js   string  `json:"js"`
}

type failWriter struct {
	mode string // "ok" | "short" | "err"
	buf  bytes.Buffer
}

var errSink = errors.New("sink failed")

func (w *failWriter) Write(p []byte) (int, error) {
	switch w.mode {
	case "short":
		n := len(p) / 2
		w.buf.Write(p[:n])
		return n, errSink
	case "err":
		return 0, errSink
	}
	return w.buf.Write(p)
}

func replayDet(line []byte, a *Acc) {
	var l detLine
	if err := json.Unmarshal(line, &l); err != nil {
		panic(err)
	}
	mxj.XMLEscapeChars(true)
	defer mxj.XMLEscapeChars(false)
	one := func(sig, detail string) {
		hs := []string{}
		for _, o := range l.Hist {
			hs = append(hs, o.Op+" "+o.K)
		}
		a.Mis(sig, "history ["+strings.Join(hs, ", ")+"]: "+detail, l)
	}
	dir, _ := os.MkdirTemp("", "mxjdet")
	defer os.RemoveAll(dir)
	cases := 0
	for _, capa := range []int{0, 16, 200} {
		inner := make(map[string]interface{}, capa)
		for _, o := range l.Hist {
			if o.Op == "put" {
				inner[o.K] = o.V.ToGo()
			} else {
				delete(inner, o.K)
			}
		}
		// rebuild nested maps with the same capacity trick (iteration order of nested maps too)
		m := mxj.Map{"r": inner}
		before := tagged.CanonGo(m)
		var hl held
		for rep := 0; rep < 2; rep++ {
			cases++
			check := func(name string, got []byte, err error, want string) bool {
				if err != nil || string(got) != want {
					one("det:"+name, fmt.Sprintf("%s (capacity %d, repetition %d) = %q (err %v), specification %q", name, capa, rep, got, err, want))
					return false
				}
				return true
			}
			b, err := m.Xml()
			xmlErr := l.X == "!ERR"
			if xmlErr {
				// a non-scalar attribute entry: every XML form must fail, the JSON forms still agree
				_, e2 := m.XmlIndent("", " ")
				var wx bytes.Buffer
				e3 := m.XmlWriter(&wx)
				_, e4 := mxj.Maps{m}.XmlString()
				if err == nil || e2 == nil || e3 == nil || e4 == nil || wx.Len() != 0 {
					one("det:xml-error-expected", fmt.Sprintf("attribute entry is not a scalar but Xml/XmlIndent/XmlWriter/XmlString returned %v / %v / %v / %v (written %q)", err, e2, e3, e4, wx.String()))
					return
				}
				j, jerr := m.Json()
				if !check("Json", j, jerr, l.J) {
					return
				}
				continue
			}
			if !check("Xml", b, err, l.X) {
				return
			}
			hl.add("Map.Xml()", b)
			var w bytes.Buffer
			err = m.XmlWriter(&w)
			if !check("XmlWriter", w.Bytes(), err, l.X) {
				return
			}
			var raw []byte
			_ = raw
			bi, err := m.XmlIndent("", "  ")
			ts, _ := significantTokens(b, false)
			ti, terr := significantTokens(bi, false)
			if err != nil || terr != nil || strings.Join(ts, "\x00") != strings.Join(ti, "\x00") {
				one("det:XmlIndent", fmt.Sprintf("XmlIndent = %q differs from the compact form beyond inter-element white space", bi))
				return
			}
			// the text of an element that holds nothing but text is the same, blank for blank, in both forms
			if st, sti := strings.Join(simpleTexts(b), "\x00"), strings.Join(simpleTexts(bi), "\x00"); st != sti {
				one("det:XmlIndent-text", fmt.Sprintf("XmlIndent = %q: the text of a text-only element differs from the compact form %q", bi, b))
				return
			}
			w.Reset()
			err = m.XmlIndentWriter(&w, "", "  ")
			if !check("XmlIndentWriter", w.Bytes(), err, string(bi)) {
				return
			}
			// a root tag that is ALSO the Map's only key: the Map is wrapped all the same (one more level), in the compact and the
			// indented form alike
			if rep == 0 && !strings.Contains(l.X, "\n") {
				rx, e1 := m.Xml("r")
				rxi, e2 := m.XmlIndent("", "  ", "r")
				if !check("Xml(\"r\") on a Map whose only key is r", rx, e1, "<r>"+l.X+"</r>") {
					return
				}
				t1, _ := significantTokens(rx, false)
				t2, te := significantTokens(rxi, false)
				if e2 != nil || te != nil || strings.Join(t1, "\x00") != strings.Join(t2, "\x00") {
					one("det:XmlIndent-roottag", fmt.Sprintf("XmlIndent(\"\", \"  \", \"r\") = %q (err %v) differs from Xml(\"r\") = %q beyond inter-element white space", rxi, e2, rx))
					return
				}
			}
			ax, err := mxj.AnyXml(inner, "r")
			if !check("AnyXml", ax, err, l.X) {
				return
			}
			// prefix / indent strings made of blanks, tabs and spaces of equal width after one another: the prefixed form is the
			// unprefixed form with the prefix in front of every line (whatever was encoded before), and token-equal to the compact form
			if rep == 0 && !strings.Contains(l.X, "\n") {
				for _, pi := range [][2]string{{"\t\t", "\t"}, {"  ", "\t"}, {" ", "  "}, {"\t", "  "}, {"  ", " "}, {"\t\t", " "}, {"  ", "  "}} {
					plain, e0 := m.XmlIndent("", pi[1])
					// (in between, an encode whose first-level indentation reads the same as the next call's: what an encode
					// leaves behind for later ones must not depend on such a coincidence)
					m.XmlIndent("", pi[0]+pi[1])
					pref, e1 := m.XmlIndent(pi[0], pi[1])
					want := pi[0] + strings.ReplaceAll(string(plain), "\n", "\n"+pi[0])
					tp, te := significantTokens(pref, false)
					if e0 != nil || e1 != nil || string(pref) != want || te != nil || strings.Join(tp, "\x00") != strings.Join(ts, "\x00") {
						one("det:XmlIndent-prefix", fmt.Sprintf("XmlIndent(%q, %q) = %q (%v); XmlIndent(\"\", %q) with the prefix before every line is %q (%v)", pi[0], pi[1], pref, e1, pi[1], want, e0))
						return
					}
				}
			}
			// a single key holding a list with a member that is not a map, in either order: the default root, in every variant
			// (Map.Xml() = Map.Xml("doc"); the indented form differs in inter-element white space only)
			if rep == 0 {
				for _, lst := range [][]interface{}{{inner, "x"}, {"x", inner}, {inner, inner, 1.5}} {
					lm := mxj.Map{"k": lst}
					c1, e1 := lm.Xml()
					c2, e2 := lm.Xml("doc")
					ci, e3 := lm.XmlIndent("", "  ")
					var cw bytes.Buffer
					e4 := lm.XmlWriter(&cw)
					t1, _ := significantTokens(c1, false)
					t2, te := significantTokens(ci, false)
					if e1 != nil || e2 != nil || e3 != nil || e4 != nil || string(c1) != string(c2) || cw.String() != string(c1) || te != nil || strings.Join(t1, "\x00") != strings.Join(t2, "\x00") {
						one("det:list-root", fmt.Sprintf("single key with a mixed list: Xml() = %q (%v), Xml(\"doc\") = %q (%v), XmlWriter wrote %q (%v), XmlIndent = %q (%v)", c1, e1, c2, e2, cw.String(), e4, ci, e3))
						return
					}
				}
			}
			// the validity check on top changes nothing for well-formed output (escaping is on): every variant returns / writes the same bytes
			if rep == 0 && wellFormed(b) == nil {
				mxj.XmlCheckIsValid(true)
				vb, e1 := m.Xml()
				vbi, e2 := m.XmlIndent("", "  ")
				var vw, vwi bytes.Buffer
				e3 := m.XmlWriter(&vw)
				e4 := m.XmlIndentWriter(&vwi, "", "  ")
				vax, e5 := mxj.AnyXml(inner, "r")
				vaxi, e6 := mxj.AnyXmlIndent(inner, "", "  ", "r")
				vs, e7 := mxj.Maps{m, m}.XmlStringIndent("", "  ")
				mxj.XmlCheckIsValid(false)
				axi, _ := mxj.AnyXmlIndent(inner, "", "  ", "r")
				si, _ := mxj.Maps{m, m}.XmlStringIndent("", "  ")
				if !check("Xml under XmlCheckIsValid", vb, e1, l.X) || !check("XmlIndent under XmlCheckIsValid", vbi, e2, string(bi)) ||
					!check("XmlWriter under XmlCheckIsValid", vw.Bytes(), e3, l.X) || !check("XmlIndentWriter under XmlCheckIsValid", vwi.Bytes(), e4, string(bi)) ||
					!check("AnyXml under XmlCheckIsValid", vax, e5, l.X) || !check("AnyXmlIndent under XmlCheckIsValid", vaxi, e6, string(axi)) ||
					!check("Maps.XmlStringIndent under XmlCheckIsValid", []byte(vs), e7, si) {
					return
				}
			}
			hl.add("AnyXml()", ax)
			hl.add("Map.XmlIndent()", bi)
			// JSON
			j, err := m.Json()
			if !check("Json", j, err, l.J) {
				return
			}
			js, err := m.Json(true)
			if !check("Json(safe)", js, err, l.Js) {
				return
			}
			hl.add("Map.Json()", j)
			hl.add("Map.Json(true)", js)
			w.Reset()
			err = m.JsonWriter(&w)
			if !check("JsonWriter", w.Bytes(), err, l.J) {
				return
			}
			w.Reset()
			raw, err = m.JsonWriterRaw(&w, true)
			if !check("JsonWriterRaw(safe)", raw, err, l.Js) || !check("JsonWriterRaw(written)", w.Bytes(), nil, l.Js) {
				return
			}
			ji, err := m.JsonIndent("", " ")
			var cj bytes.Buffer
			if err != nil || json.Compact(&cj, ji) != nil || cj.String() != l.J {
				one("det:JsonIndent", fmt.Sprintf("JsonIndent = %q does not compact to %q", ji, l.J))
				return
			}
			w.Reset()
			err = m.JsonIndentWriter(&w, "", " ")
			if !check("JsonIndentWriter", w.Bytes(), err, string(ji)) {
				return
			}
			w.Reset()
			raw, err = m.JsonIndentWriterRaw(&w, "", " ")
			if !check("JsonIndentWriterRaw", raw, err, string(ji)) {
				return
			}
			hl.add("Map.JsonIndent()", ji)
			hl.add("Map.JsonIndentWriterRaw()", raw)
			// every writer form under every spelling of the safe flag (absent / false / true), plain and indented ("" and blank indents)
			for _, sf := range [][]bool{nil, {false}, {true}} {
				want := l.J
				if len(sf) == 1 && sf[0] {
					want = l.Js
				}
				w.Reset()
				err = m.JsonWriter(&w, sf...)
				if !check(fmt.Sprintf("JsonWriter(safe %v)", sf), w.Bytes(), err, want) {
					return
				}
				w.Reset()
				raw, err = m.JsonWriterRaw(&w, sf...)
				if !check(fmt.Sprintf("JsonWriterRaw(safe %v) result", sf), raw, err, want) || !check(fmt.Sprintf("JsonWriterRaw(safe %v) written", sf), w.Bytes(), nil, want) {
					return
				}
				for _, ind := range [][2]string{{"", " "}, {"", ""}, {" ", "  "}} {
					jis, e0 := m.JsonIndent(ind[0], ind[1], sf...)
					var cjs bytes.Buffer
					if e0 != nil || json.Compact(&cjs, jis) != nil || cjs.String() != want {
						one("det:JsonIndent", fmt.Sprintf("JsonIndent(%q, %q, safe %v) = %q (err %v) does not compact to %q", ind[0], ind[1], sf, jis, e0, want))
						return
					}
					w.Reset()
					err = m.JsonIndentWriter(&w, ind[0], ind[1], sf...)
					if !check(fmt.Sprintf("JsonIndentWriter(%q, %q, safe %v)", ind[0], ind[1], sf), w.Bytes(), err, string(jis)) {
						return
					}
					w.Reset()
					raw, err = m.JsonIndentWriterRaw(&w, ind[0], ind[1], sf...)
					if !check(fmt.Sprintf("JsonIndentWriterRaw(%q, %q, safe %v) result", ind[0], ind[1], sf), raw, err, string(jis)) ||
						!check(fmt.Sprintf("JsonIndentWriterRaw(%q, %q, safe %v) written", ind[0], ind[1], sf), w.Bytes(), nil, string(jis)) {
						return
					}
				}
			}
			// Maps forms: concatenation of the per-Map encodings
			ms := mxj.Maps{m, m}
			s, err := ms.XmlString()
			if !check("Maps.XmlString", []byte(s), err, l.X+l.X) {
				return
			}
			s, err = ms.XmlStringIndent("", "  ")
			if !check("Maps.XmlStringIndent", []byte(s), err, string(bi)+string(bi)) {
				return
			}
			s, err = ms.JsonString()
			if !check("Maps.JsonString", []byte(s), err, l.J+l.J) {
				return
			}
			s, err = ms.JsonString(true)
			if !check("Maps.JsonString(safe)", []byte(s), err, l.Js+l.Js) {
				return
			}
			s, err = ms.JsonStringIndent("", " ")
			if !check("Maps.JsonStringIndent", []byte(s), err, string(ji)+"\n"+string(ji)) {
				return
			}
			// nothing to indent with: still the concatenation of the per-Map forms
			j0, _ := m.JsonIndent("", "")
			s, err = ms.JsonStringIndent("", "")
			if !check("Maps.JsonStringIndent(\"\",\"\")", []byte(s), err, string(j0)+"\n"+string(j0)) {
				return
			}
			jis, _ := m.JsonIndent("", " ", true)
			s, err = ms.JsonStringIndent("", " ", true)
			if !check("Maps.JsonStringIndent(safe)", []byte(s), err, string(jis)+"\n"+string(jis)) {
				return
			}
			// members that are empty or nil Maps: each is a document of its own (what the single-Map encoder makes of it)
			{
				var nilMap mxj.Map
				ex, _ := mxj.Map{}.Xml()
				nx, _ := nilMap.Xml()
				exi, _ := mxj.Map{}.XmlIndent("", "  ")
				nxi, _ := nilMap.XmlIndent("", "  ")
				ej, _ := mxj.Map{}.Json()
				nj, _ := nilMap.Json()
				eji, _ := mxj.Map{}.JsonIndent("", " ")
				nji, _ := nilMap.JsonIndent("", " ")
				mse := mxj.Maps{m, mxj.Map{}, nilMap, m}
				s, err = mse.XmlString()
				if !check("Maps{m, {}, nil, m}.XmlString", []byte(s), err, l.X+string(ex)+string(nx)+l.X) {
					return
				}
				s, err = mse.XmlStringIndent("", "  ")
				if !check("Maps{m, {}, nil, m}.XmlStringIndent", []byte(s), err, string(bi)+string(exi)+string(nxi)+string(bi)) {
					return
				}
				s, err = mse.JsonString()
				if !check("Maps{m, {}, nil, m}.JsonString", []byte(s), err, l.J+string(ej)+string(nj)+l.J) {
					return
				}
				s, err = mse.JsonStringIndent("", " ")
				if !check("Maps{m, {}, nil, m}.JsonStringIndent", []byte(s), err, string(ji)+"\n"+string(eji)+"\n"+string(nji)+"\n"+string(ji)) {
					return
				}
				if rep == 0 && capa == 0 {
					fx, fj := filepath.Join(dir, "xe"), filepath.Join(dir, "je")
					e1, e2 := mse.XmlFile(fx), mse.JsonFile(fj)
					bx, _ := os.ReadFile(fx)
					bj, _ := os.ReadFile(fj)
					if !check("Maps{m, {}, nil, m}.XmlFile", bx, e1, l.X+string(ex)+string(nx)+l.X) || !check("Maps{m, {}, nil, m}.JsonFile", bj, e2, l.J+string(ej)+string(nj)+l.J) {
						return
					}
					e1, e2 = mse.XmlFileIndent(fx, "", "  "), mse.JsonFileIndent(fj, "", " ")
					bx, _ = os.ReadFile(fx)
					bj, _ = os.ReadFile(fj)
					if !check("Maps{m, {}, nil, m}.XmlFileIndent", bx, e1, string(bi)+string(exi)+string(nxi)+string(bi)) ||
						!check("Maps{m, {}, nil, m}.JsonFileIndent", bj, e2, string(ji)+"\n"+string(eji)+"\n"+string(nji)+"\n"+string(ji)) {
						return
					}
					// nothing to indent with: the file holds the per-Map XmlIndent("", "") forms, not the compact ones
					x0, _ := m.XmlIndent("", "")
					e1 = ms.XmlFileIndent(fx, "", "")
					bx, _ = os.ReadFile(fx)
					if !check("Maps.XmlFileIndent(\"\",\"\")", bx, e1, string(x0)+string(x0)) {
						return
					}
					s, err = ms.XmlStringIndent("", "")
					if !check("Maps.XmlStringIndent(\"\",\"\")", []byte(s), err, string(x0)+string(x0)) {
						return
					}
				}
			}
			if rep == 0 && capa == 0 {
				fx, fj, fjs := filepath.Join(dir, "x"), filepath.Join(dir, "j"), filepath.Join(dir, "js")
				e1, e2, e3 := ms.XmlFile(fx), ms.JsonFile(fj), ms.JsonFile(fjs, true)
				bx, _ := os.ReadFile(fx)
				bj, _ := os.ReadFile(fj)
				bjs, _ := os.ReadFile(fjs)
				if !check("Maps.XmlFile", bx, e1, l.X+l.X) || !check("Maps.JsonFile", bj, e2, l.J+l.J) || !check("Maps.JsonFile(safe)", bjs, e3, l.Js+l.Js) {
					return
				}
				// a file is REPLACED: writing shorter content over longer content leaves nothing of the old
				long := mxj.Maps{m, m, m}
				for _, f := range []string{fx, fj} {
					var e1, e2 error
					want := l.X + l.X
					if f == fx {
						e1, e2 = long.XmlFile(f), ms.XmlFile(f)
					} else {
						e1, e2 = long.JsonFile(f), ms.JsonFile(f)
						want = l.J + l.J
					}
					got, _ := os.ReadFile(f)
					if e1 != nil || e2 != nil || string(got) != want {
						one("det:file-rewrite", fmt.Sprintf("after writing three Maps and then two to the same file it holds %q, expected %q", got, want))
						return
					}
				}
				fxi, fji := filepath.Join(dir, "xi"), filepath.Join(dir, "ji")
				e1, e2 = ms.XmlFileIndent(fxi, "", "  "), ms.JsonFileIndent(fji, "", " ")
				bx, _ = os.ReadFile(fxi)
				bj, _ = os.ReadFile(fji)
				if !check("Maps.XmlFileIndent", bx, e1, string(bi)+string(bi)) || !check("Maps.JsonFileIndent", bj, e2, string(ji)+"\n"+string(ji)) {
					return
				}
				long.XmlFileIndent(fxi, "", "  ")
				long.JsonFileIndent(fji, "", " ")
				e1, e2 = ms.XmlFileIndent(fxi, "", "  "), ms.JsonFileIndent(fji, "", " ")
				bx, _ = os.ReadFile(fxi)
				bj, _ = os.ReadFile(fji)
				if !check("Maps.XmlFileIndent(rewrite)", bx, e1, string(bi)+string(bi)) || !check("Maps.JsonFileIndent(rewrite)", bj, e2, string(ji)+"\n"+string(ji)) {
					return
				}
			}
			// sinks: the writer forms return the sink's error
			for _, mode := range []string{"short", "err"} {
				fw := &failWriter{mode: mode}
				if e := m.XmlWriter(fw); e != errSink {
					one("det:sink-error", fmt.Sprintf("XmlWriter on a %s sink returned %v", mode, e))
					return
				}
				fw = &failWriter{mode: mode}
				if e := m.JsonWriter(fw); e != errSink {
					one("det:sink-error", fmt.Sprintf("JsonWriter on a %s sink returned %v", mode, e))
					return
				}
				// the Raw forms return what Json / JsonIndent return, whatever the sink does
				fw = &failWriter{mode: mode}
				if r0, e := m.JsonWriterRaw(fw); e != errSink || string(r0) != l.J {
					one("det:sink-raw", fmt.Sprintf("JsonWriterRaw on a %s sink returned (%q, %v), Json() gives %q", mode, r0, e, l.J))
					return
				}
				fw = &failWriter{mode: mode}
				if r0, e := m.JsonIndentWriterRaw(fw, "", " "); e != errSink || string(r0) != string(ji) {
					one("det:sink-raw-indent", fmt.Sprintf("JsonIndentWriterRaw on a %s sink returned (%q, %v), JsonIndent() gives %q", mode, r0, e, ji))
					return
				}
			}
			// MapSeq: sequence order, deterministic
			seq, serr := mxj.NewMapXmlSeq(b)
			if serr == nil {
				s1, e1 := seq.Xml()
				s2, e2 := seq.Xml()
				var sw, sw3 bytes.Buffer
				e3 := seq.XmlWriter(&sw)
				si, _ := seq.XmlIndent("", " ")
				if e5 := seq.XmlIndentWriter(&sw3, "", " "); e5 != nil || sw3.String() != string(si) {
					one("det:MapSeq.XmlIndentWriter", fmt.Sprintf("wrote %q, XmlIndent returns %q", sw3.String(), si))
					return
				}
				t1, _ := significantTokens(s1, false)
				tx, _ := significantTokens([]byte(l.X), false)
				if e1 != nil || e2 != nil || e3 != nil || string(s1) != string(s2) || sw.String() != string(s1) || strings.Join(t1, "\x00") != strings.Join(tx, "\x00") {
					one("det:MapSeq.Xml", fmt.Sprintf("MapSeq.Xml = %q / %q / writer %q, expected the original order %q", s1, s2, sw.String(), l.X))
					return
				}
			}
		}
		if tagged.CanonGo(m) != before {
			one("det:receiver-modified", "encoding modified the Map")
		}
		// a result is a function of its Map: encoding ANOTHER Map afterwards does not change bytes handed out before
		other := mxj.Map{"other": map[string]interface{}{"-q": "different", "zz": []interface{}{before, 2.5, true}}}
		other.Json()
		other.Json(true)
		other.JsonIndent("", " ")
		other.Xml()
		other.XmlIndent("", "  ")
		mxj.AnyXml(map[string]interface{}(other), "o")
		var ow bytes.Buffer
		other.JsonWriterRaw(&ow)
		other.JsonIndentWriterRaw(&ow, "", " ")
		changed := false
		hl.check(func(name, was, now string) {
			changed = true
			one("det:result-changed-later", fmt.Sprintf("the bytes returned by %s were %q and read %q after another Map was encoded", name, was, now))
		})
		if changed {
			return
		}
	}
	a.Count(cases, cases)
	if len(l.Hist) > 3 && strings.Contains(l.X, "z=") {
		a.Sample(map[string]interface{}{"history": l.Hist, "xml": l.X, "json": l.J})
	}
}

func init() {
	register("det", &family{replay: replayDet, serial: true,
		rule: "one case = (construction history, map capacity, repetition): ~30 encoder entry points (byte-returning, Writer, WriterRaw, Indent, Maps string/file forms, AnyXml, MapSeq) compared with the specification's bytes and with each other; all cases non-trivial"})
}
