package main

import (
	"bytes"
	"encoding/json"
	"encoding/xml"
	"fmt"
	"io"
	"os"
	"path/filepath"
	"reflect"
	"strings"
	"sync"

	mxj "github.com/clbanning/mxj/v2"
	"verif/harness/tagged"
)

// ---------------------------------------------------------------------------
// family "stream" (C13): every complete behaviour of MxjStream (reader schedule, handler
// verdicts, expected call results) is replayed by a scripted io.Reader against the real
// reader functions.
// ---------------------------------------------------------------------------

type streamCall struct {
	Res string `json:"res"`
	Raw []int  `json:"raw"`
	Pos int    `json:"pos"`
}
type streamID struct {
	Dl   []int  `json:"dl"`
	Gl   []int  `json:"gl"`
	Cut  int    `json:"cut"`
	Text string `json:"text"`
}
type streamLine struct {
	F      string `json:"f"`
	Mode   string `json:"mode"`
	Caller string `json:"caller"`
	ID     streamID
	Docs   []struct {
		S int `json:"s"`
		E int `json:"e"`
	} `json:"docs"`
	Sched  []string     `json:"sched"`
	Hret   string       `json:"hret"`
	Calls  []streamCall `json:"calls"`
	Custom string       `json:"custom"`
}

// scripted reader: one schedule token per Read call
type schedReader struct {
	data   []byte
	pos    int
	sched  []string
	i      int
	desync string
}

func (r *schedReader) next() string {
	for r.i < len(r.sched) {
		t := r.sched[r.i]
		r.i++
		if t == "T" || t == "F" {
			continue // handler verdicts are consumed by the handlers
		}
		return t
	}
	return ""
}

func (r *schedReader) Read(p []byte) (int, error) {
	if len(p) == 0 {
		return 0, nil
	}
	t := r.next()
	switch t {
	case "D", "DE":
		if r.pos >= len(r.data) {
			r.desync = "schedule says data but the stream is exhausted"
			return 0, io.EOF
		}
		p[0] = r.data[r.pos]
		r.pos++
		if t == "DE" {
			return 1, io.EOF
		}
		// a caller that asks for more than one byte gets as many as the schedule has ready
		// (consecutive D tokens): a reader is free to fill the buffer it is given
		n := 1
		for n < len(p) && r.pos < len(r.data) {
			j := r.i
			for j < len(r.sched) && (r.sched[j] == "T" || r.sched[j] == "F") {
				j++ // handler verdicts are not the reader's business
			}
			if j < len(r.sched) && r.sched[j] != "D" {
				break
			}
			// (schedule exhausted = the behaviour ended here, e.g. a handler said stop; the
			// reader itself still has data and would hand it to anyone asking for it)
			p[n] = r.data[r.pos]
			r.pos++
			if j < len(r.sched) {
				r.i = j + 1
			}
			n++
		}
		return n, nil
	case "Z":
		return 0, nil
	case "E":
		return 0, io.EOF
	}
	// schedule exhausted: behave like any reader at its end
	if r.pos >= len(r.data) {
		return 0, io.EOF
	}
	if r.desync == "" {
		r.desync = fmt.Sprintf("code reads beyond the schedule at byte %d", r.pos)
	}
	p[0] = r.data[r.pos]
	r.pos++
	return 1, nil
}

// concrete XML documents of a given length (several syntactic variants)
func xmlDocOfLen(n, variant int) string {
	if n < 4 {
		panic("xml doc shorter than 4")
	}
	self := "<" + strings.Repeat("a", n-3) + "/>"
	if n < 7 {
		if n == 5 && variant%2 == 1 {
			return "<b />"
		}
		return self
	}
	switch variant % 3 {
	case 0:
		return "<b>" + strings.Repeat("1", n-7) + "</b>"
	case 1:
		if n >= 11 {
			return "<c>" + strings.Repeat("x", n-11) + "<d/></c>"
		}
		return self
	}
	if n >= 9 {
		return `<e k="` + strings.Repeat("v", n-9) + `"/>`
	}
	return self
}

// the bytes of a JSON stream: the specification's alphabet is ASCII, its character ~ stands for ONE byte above 0x7f (a byte no
// reader may re-encode; the reference is the direct decode of the same bytes, whatever encoding/json makes of them)
func jsonStreamBytes(text string) []byte {
	b := []byte(text)
	for i, c := range b {
		if c == '~' {
			b[i] = 0xe9
		}
	}
	return b
}

func xmlStream(id streamID, variant int) []byte {
	var b strings.Builder
	ws := []string{" ", "\n", "\t"}
	for i, l := range id.Dl {
		b.WriteString(strings.Repeat(ws[(variant+i)%3], id.Gl[i]))
		b.WriteString(xmlDocOfLen(l, variant+i))
	}
	b.WriteString(strings.Repeat(ws[variant%3], id.Gl[len(id.Dl)]))
	s := b.String()
	if id.Cut > 0 {
		s = s[:id.Cut]
	}
	return []byte(s)
}

type streamEntry struct {
	name string
	// call reads the next document; returns Map (canonical), raw, error
	call func(r io.Reader) (string, []byte, bool, error)
	// direct decodes a document's bytes
	direct func(b []byte) (string, error)
	// bulk handler form, if any
	handle func(r io.Reader, mh func(string, []byte) bool, eh func(error, []byte) bool) error
	raw    bool
}

func canonOrNil(m map[string]interface{}) string {
	if m == nil {
		return "<nil>"
	}
	return tagged.CanonGo(m)
}

var xmlEntries = []streamEntry{
	{name: "NewMapXmlReader",
		call: func(r io.Reader) (string, []byte, bool, error) {
			m, err := mxj.NewMapXmlReader(r)
			return canonOrNil(m), nil, m != nil, err
		},
		direct: func(b []byte) (string, error) { m, err := mxj.NewMapXml(b); return canonOrNil(m), err },
		handle: func(r io.Reader, mh func(string, []byte) bool, eh func(error, []byte) bool) error {
			return mxj.HandleXmlReader(r, func(m mxj.Map) bool { return mh(canonOrNil(m), nil) }, func(e error) bool { return eh(e, nil) })
		}},
	{name: "NewMapXmlReaderRaw", raw: true,
		call: func(r io.Reader) (string, []byte, bool, error) {
			m, raw, err := mxj.NewMapXmlReaderRaw(r)
			return canonOrNil(m), raw, m != nil, err
		},
		direct: func(b []byte) (string, error) { m, err := mxj.NewMapXml(b); return canonOrNil(m), err },
		handle: func(r io.Reader, mh func(string, []byte) bool, eh func(error, []byte) bool) error {
			return mxj.HandleXmlReaderRaw(r, func(m mxj.Map, raw []byte) bool { return mh(canonOrNil(m), raw) }, func(e error, raw []byte) bool { return eh(e, raw) })
		}},
	{name: "NewMapXmlSeqReader",
		call: func(r io.Reader) (string, []byte, bool, error) {
			m, err := mxj.NewMapXmlSeqReader(r)
			return canonOrNil(m), nil, m != nil, err
		},
		direct: func(b []byte) (string, error) { m, err := mxj.NewMapXmlSeq(b); return canonOrNil(m), err }},
	{name: "NewMapXmlSeqReaderRaw", raw: true,
		call: func(r io.Reader) (string, []byte, bool, error) {
			m, raw, err := mxj.NewMapXmlSeqReaderRaw(r)
			return canonOrNil(m), raw, m != nil, err
		},
		direct: func(b []byte) (string, error) { m, err := mxj.NewMapXmlSeq(b); return canonOrNil(m), err }},
}

// the same four readers with the cast argument: the reference is the direct decode WITH the cast argument
func init() {
	xmlEntries = append(xmlEntries,
		streamEntry{name: "NewMapXmlReader(cast)",
			call: func(r io.Reader) (string, []byte, bool, error) {
				m, err := mxj.NewMapXmlReader(r, true)
				return canonOrNil(m), nil, m != nil, err
			},
			direct: func(b []byte) (string, error) { m, err := mxj.NewMapXml(b, true); return canonOrNil(m), err }},
		streamEntry{name: "NewMapXmlReaderRaw(cast)", raw: true,
			call: func(r io.Reader) (string, []byte, bool, error) {
				m, raw, err := mxj.NewMapXmlReaderRaw(r, true)
				return canonOrNil(m), raw, m != nil, err
			},
			direct: func(b []byte) (string, error) { m, err := mxj.NewMapXml(b, true); return canonOrNil(m), err }},
		streamEntry{name: "NewMapXmlSeqReader(cast)",
			call: func(r io.Reader) (string, []byte, bool, error) {
				m, err := mxj.NewMapXmlSeqReader(r, true)
				return canonOrNil(m), nil, m != nil, err
			},
			direct: func(b []byte) (string, error) { m, err := mxj.NewMapXmlSeq(b, true); return canonOrNil(m), err }},
		streamEntry{name: "NewMapXmlSeqReaderRaw(cast)", raw: true,
			call: func(r io.Reader) (string, []byte, bool, error) {
				m, raw, err := mxj.NewMapXmlSeqReaderRaw(r, true)
				return canonOrNil(m), raw, m != nil, err
			},
			direct: func(b []byte) (string, error) { m, err := mxj.NewMapXmlSeq(b, true); return canonOrNil(m), err }})
}

var jsonEntries = []streamEntry{
	{name: "NewMapJsonReader",
		call: func(r io.Reader) (string, []byte, bool, error) {
			m, err := mxj.NewMapJsonReader(r)
			return canonOrNil(m), nil, m != nil, err
		},
		direct: func(b []byte) (string, error) { m, err := mxj.NewMapJson(b); return canonOrNil(m), err },
		handle: func(r io.Reader, mh func(string, []byte) bool, eh func(error, []byte) bool) error {
			return mxj.HandleJsonReader(r, func(m mxj.Map) bool { return mh(canonOrNil(m), nil) }, func(e error) bool { return eh(e, nil) })
		}},
	{name: "NewMapJsonReaderRaw", raw: true,
		call: func(r io.Reader) (string, []byte, bool, error) {
			m, raw, err := mxj.NewMapJsonReaderRaw(r)
			return canonOrNil(m), raw, m != nil, err
		},
		direct: func(b []byte) (string, error) { m, err := mxj.NewMapJson(b); return canonOrNil(m), err },
		handle: func(r io.Reader, mh func(string, []byte) bool, eh func(error, []byte) bool) error {
			return mxj.HandleJsonReaderRaw(r, func(m mxj.Map, raw []byte) bool { return mh(canonOrNil(m), raw) }, func(e error, raw []byte) bool { return eh(e, raw) })
		}},
}

func schedShape(s []string) string {
	has := map[string]bool{}
	for _, t := range s {
		has[t] = true
	}
	parts := []string{}
	for _, t := range []string{"Z", "DE"} {
		if has[t] {
			parts = append(parts, t)
		}
	}
	if len(parts) == 0 {
		return "plain"
	}
	return strings.Join(parts, "+")
}

func pick(data []byte, idx []int) []byte {
	b := make([]byte, len(idx))
	for i, x := range idx {
		b[i] = data[x-1]
	}
	return b
}

// With a CustomDecoder (caller-supplied xml.Decoder settings, here a pass-through CharsetReader) the stream readers decode a
// document that declares another encoding exactly as NewMapXml does: the option is honoured, or ignored, by all entry points alike.
// Runs once, before the workers start (the option is package-level).
var streamCustomFinding string

func streamCustomDecoderCheck() {
	defer func() { mxj.CustomDecoder = nil; mxj.XmlCharsetReader = nil }()
	pass := func(label string, input io.Reader) (io.Reader, error) { return input, nil }
	docs := []string{`<?xml version="1.0" encoding="ISO-8859-1"?><a><b>x</b></a>`, `<?xml version="1.0" encoding="us-ascii"?><c d="1"/>`, `<e>y</e>`}
	for _, setting := range []string{"CustomDecoder with a CharsetReader", "XmlCharsetReader only"} {
		if setting == "XmlCharsetReader only" {
			mxj.CustomDecoder = nil
			mxj.XmlCharsetReader = pass
		} else {
			mxj.CustomDecoder = &xml.Decoder{Strict: false, CharsetReader: pass}
			mxj.XmlCharsetReader = nil
		}
		for _, d := range docs {
			want, werr := mxj.NewMapXml([]byte(d))
			m1, e1 := mxj.NewMapXmlReader(hideByteReader{strings.NewReader(d)})
			m2, raw, e2 := mxj.NewMapXmlReaderRaw(hideByteReader{strings.NewReader(d)})
			var m3 mxj.Map
			mxj.HandleXmlReader(hideByteReader{strings.NewReader(d)}, func(m mxj.Map) bool { m3 = m; return true }, func(error) bool { return false })
			w := canonOrNil(want) + cls(werr)
			if g := canonOrNil(m1) + cls(e1); g != w {
				streamCustomFinding = fmt.Sprintf("%s: NewMapXmlReader(%q) = %s, NewMapXml gives %s", setting, d, g, w)
			} else if g := canonOrNil(m2) + cls(e2); g != w || (werr == nil && string(raw) != d) {
				streamCustomFinding = fmt.Sprintf("%s: NewMapXmlReaderRaw(%q) = %s (raw %q), NewMapXml gives %s", setting, d, g, raw, w)
			} else if werr == nil && canonOrNil(m3) != canonOrNil(want) {
				streamCustomFinding = fmt.Sprintf("%s: HandleXmlReader(%q) handed over %s, NewMapXml gives %s", setting, d, canonOrNil(m3), w)
			}
		}
	}
}

func replayStream(line []byte, a *Acc) {
	var l streamLine
	if err := json.Unmarshal(line, &l); err != nil {
		panic(err)
	}
	if streamCustomFinding != "" {
		a.mu.Lock()
		f := streamCustomFinding
		streamCustomFinding = ""
		a.mu.Unlock()
		if f != "" {
			a.Mis("stream:xml:custom-decoder", f, map[string]string{"f": "stream", "custom": "1"})
		}
	}
	if l.Mode == "" && l.Custom != "" {
		return // (replay case of the finding above: the check has just run again)
	}
	if l.Mode == "" {
		checkLongZeroReads(a) // (replay case of a long-zero-read finding)
		checkDeepAndPipes(a)
		return
	}
	longZeroOnce.Do(func() { checkLongZeroReads(a); checkDeepAndPipes(a) })
	entries := xmlEntries
	variants := 2
	if l.Mode == "json" {
		entries = jsonEntries
		variants = 1
	}
	ncases := 0
	for v := 0; v < variants; v++ {
		var data []byte
		if l.Mode == "json" {
			data = jsonStreamBytes(l.ID.Text)
		} else {
			data = xmlStream(l.ID, v)
		}
		for _, en := range entries {
			ncases++
			one := func(sig, detail string) {
				a.Mis(sig, fmt.Sprintf("%s stream %q schedule %v: %s", en.name, string(data), l.Sched, detail), l)
			}
			// expected Maps: each document decoded directly
			expMaps := make([]string, len(l.Docs))
			for i, d := range l.Docs {
				expMaps[i], _ = en.direct(data[d.S-1 : d.E])
			}
			rd := &schedReader{data: data, sched: l.Sched}
			shape := schedShape(l.Sched)
			if l.Caller == "single" {
				bad := false
				for ci, c := range l.Calls {
					var got string
					var raw []byte
					var has bool
					var err error
					if p := guard(func() { got, raw, has, err = en.call(rd) }); p != "" {
						one("stream:panic:"+l.Mode, p)
						bad = true
						break
					}
					res := "M"
					if err == io.EOF {
						res = "EOF"
					} else if err != nil {
						res = "ERR"
					}
					exp := c.Res
					if exp == "BAD" {
						exp = "ERR"
					}
					if res != exp {
						one(fmt.Sprintf("stream:%s:result:%s:spec=%s:got=%s", l.Mode, shape, exp, res), fmt.Sprintf("call %d returned %s (err=%v), specification says %s", ci+1, res, err, c.Res))
						bad = true
						break
					}
					if res == "M" {
						if !has || got != expMaps[ci] {
							one(fmt.Sprintf("stream:%s:map:%s", l.Mode, shape), fmt.Sprintf("call %d returned %s, decoding the document directly gives %s", ci+1, got, expMaps[ci]))
							bad = true
							break
						}
						if rd.pos != c.Pos {
							one(fmt.Sprintf("stream:%s:overread:%s", l.Mode, shape), fmt.Sprintf("call %d left the reader at byte %d, the document ends at %d", ci+1, rd.pos, c.Pos))
							bad = true
							break
						}
					} else if has && res != "M" && got != "<nil>" && got != "{}" {
						one(fmt.Sprintf("stream:%s:partial-map", l.Mode), fmt.Sprintf("call %d returned error %v together with Map %s", ci+1, err, got))
						bad = true
						break
					}
					if en.raw && res == "M" {
						if string(raw) != string(pick(data, c.Raw)) {
							one(fmt.Sprintf("stream:%s:raw:%s", l.Mode, shape), fmt.Sprintf("call %d raw = %q, specification says %q", ci+1, raw, pick(data, c.Raw)))
							bad = true
							break
						}
					}
				}
				if !bad && rd.desync != "" {
					one("stream:"+l.Mode+":desync:"+shape, rd.desync)
				}
				continue
			}
			// bulk handler: verdict tokens in schedule order
			if en.handle == nil {
				ncases--
				continue
			}
			verdicts := []bool{}
			for _, t := range l.Sched {
				if t == "T" {
					verdicts = append(verdicts, true)
				} else if t == "F" {
					verdicts = append(verdicts, false)
				}
			}
			vi := 0
			nextVerdict := func() bool {
				if vi < len(verdicts) {
					vi++
					return verdicts[vi-1]
				}
				vi++
				return false
			}
			var seen []string // "M:<canon>" or "E"
			var raws [][]byte
			var herr error
			if p := guard(func() {
				herr = en.handle(rd, func(m string, raw []byte) bool {
					seen = append(seen, "M:"+m)
					raws = append(raws, raw)
					return nextVerdict()
				}, func(e error, raw []byte) bool {
					seen = append(seen, "E")
					raws = append(raws, raw)
					return nextVerdict()
				})
			}); p != "" {
				one("stream:handler-panic:"+l.Mode, p)
				continue
			}
			// expected handler invocations: one per call that is not EOF, up to and including the first 'false'
			var exp []string
			var expRaw [][]byte
			k := 0
			for ci, c := range l.Calls {
				if c.Res == "EOF" {
					break
				}
				if k >= len(verdicts) {
					break
				}
				if c.Res == "M" {
					exp = append(exp, "M:"+expMaps[ci])
				} else {
					exp = append(exp, "E")
				}
				expRaw = append(expRaw, pick(data, c.Raw))
				k++
				if !verdicts[k-1] {
					break
				}
			}
			if strings.Join(seen, " | ") != strings.Join(exp, " | ") || vi != len(verdicts) {
				one(fmt.Sprintf("stream:%s:handler-calls:%s", l.Mode, shape), fmt.Sprintf("handlers saw [%s] (%d verdicts used), specification says [%s] (%d verdicts)", strings.Join(seen, " | "), vi, strings.Join(exp, " | "), len(verdicts)))
				continue
			}
			if (herr != nil) != (l.Hret == "err") {
				one(fmt.Sprintf("stream:%s:handler-return", l.Mode), fmt.Sprintf("bulk call returned %v, specification says %q", herr, l.Hret))
				continue
			}
			if en.raw {
				for i := range exp {
					if strings.HasPrefix(exp[i], "M:") && string(raws[i]) != string(expRaw[i]) {
						one(fmt.Sprintf("stream:%s:handler-raw:%s", l.Mode, shape), fmt.Sprintf("handler %d raw = %q, specification says %q", i+1, raws[i], expRaw[i]))
						break
					}
				}
			}
			if rd.desync != "" {
				one("stream:"+l.Mode+":desync:"+shape, rd.desync)
			}
			// no over-read: when the bulk call returns, the reader stands where the last call of the
			// specification's behaviour left it
			if want := l.Calls[len(l.Calls)-1].Pos; rd.pos != want {
				one(fmt.Sprintf("stream:%s:handler-overread:%s", l.Mode, shape), fmt.Sprintf("bulk call left the reader at byte %d, the specification at %d", rd.pos, want))
			}
		}
	}
	nt := 0
	if schedShape(l.Sched) != "plain" || len(l.Docs) > 1 {
		nt = ncases
	}
	a.Count(ncases, nt)
	if len(l.Docs) > 1 && schedShape(l.Sched) == "Z+DE" {
		a.Sample(map[string]interface{}{"mode": l.Mode, "caller": l.Caller, "doc_lengths": l.ID.Dl, "gaps": l.ID.Gl, "json_text": l.ID.Text, "schedule": l.Sched, "calls": l.Calls})
	}
}

func init() {
	register("stream", &family{replay: replayStream, initOnce: streamCustomDecoderCheck,
		rule: "one case = (stream profile, complete reader schedule incl. handler verdicts, entry point, concrete syntax variant); non-trivial = the schedule contains a (0,nil) read or data+EOF, or the stream holds more than one document"})
}

// ---------------------------------------------------------------------------
// family "file" (C19, reader half): every stream profile (whole and cut at every byte)
// written to a real temporary file and read back with NewMapsFrom{Xml,Json}File[Raw].
// ---------------------------------------------------------------------------
type fileLine struct {
	F    string `json:"f"`
	Mode string `json:"mode"`
	ID   streamID
	Docs []struct {
		S int `json:"s"`
		E int `json:"e"`
	} `json:"docs"`
	Tail string `json:"tail"`
}

func stripWs(b []byte) string {
	return strings.Map(func(r rune) rune {
		if r == ' ' || r == '\n' || r == '\t' || r == '\r' {
			return -1
		}
		return r
	}, string(b))
}

// gapReader delivers one byte per Read and `gap` empty reads (0, nil) before each of them
type gapReader struct {
	data []byte
	gap  int
	left int
}

func (g *gapReader) Read(p []byte) (int, error) {
	if g.left > 0 {
		g.left--
		return 0, nil
	}
	if len(g.data) == 0 {
		return 0, io.EOF
	}
	p[0] = g.data[0]
	g.data = g.data[1:]
	g.left = g.gap
	return 1, nil
}

var longZeroOnce sync.Once

// long documents with an empty read before every byte: any number of empty reads is legal as long as data keeps coming
func checkLongZeroReads(a *Acc) {
	jdoc := `{"k":"` + strings.Repeat("abcdefghij", 15) + `"}`
	xdoc := `<k a="` + strings.Repeat("abcdefghij", 15) + `">` + strings.Repeat("t", 40) + `</k>`
	for _, gap := range []int{1, 3} {
		jr := &gapReader{data: []byte(jdoc + "\n" + jdoc), gap: gap}
		for i := 0; i < 2; i++ {
			m, err := mxj.NewMapJsonReader(jr)
			want, _ := mxj.NewMapJson([]byte(jdoc))
			if err != nil || tagged.CanonGo(m) != tagged.CanonGo(want) {
				a.Mis("stream:json:zero-reads-long", fmt.Sprintf("NewMapJsonReader, document %d of a %d-byte stream with %d empty read(s) before every byte: %v", i+1, 2*len(jdoc)+1, gap, err), map[string]string{"f": "stream"})
				break
			}
		}
		xr := &gapReader{data: []byte(xdoc + xdoc), gap: gap}
		for i := 0; i < 2; i++ {
			m, err := mxj.NewMapXmlReader(xr)
			want, _ := mxj.NewMapXml([]byte(xdoc))
			if err != nil || tagged.CanonGo(m) != tagged.CanonGo(want) {
				a.Mis("stream:xml:zero-reads-long", fmt.Sprintf("NewMapXmlReader, document %d with %d empty read(s) before every byte: %v", i+1, gap, err), map[string]string{"f": "stream"})
				break
			}
		}
	}
}

// documents nested deeper than any 8-bit counter, one after the other on one stream; and streams that are an *os.File
// which cannot seek (a pipe) or can (a regular file): the documents, in order, then io.EOF -- as from any other reader
func checkDeepAndPipes(a *Acc) {
	c := map[string]string{"f": "stream"}
	for _, depth := range []int{255, 256, 257, 300} { // (below tagged.MaxDepth)
		jdeep := strings.Repeat(`{"a":`, depth) + `1` + strings.Repeat(`}`, depth)
		jdocs := []string{jdeep, `{"s":"}{"}`, jdeep, `{"t":[{"u":1}]}`}
		want := make([]string, len(jdocs))
		for i, d := range jdocs {
			m, err := mxj.NewMapJson([]byte(d))
			if err != nil {
				panic("deep JSON reference: " + err.Error())
			}
			want[i] = tagged.CanonGo(m)
		}
		stream := strings.Join(jdocs, "\n")
		rd := strings.NewReader(stream)
		for i := range jdocs {
			m, err := mxj.NewMapJsonReader(rd)
			if err != nil || tagged.CanonGo(m) != want[i] {
				a.Mis("stream:json:deep", fmt.Sprintf("NewMapJsonReader, document %d of a stream whose documents 1 and 3 are objects nested %d deep: err %v, Map equal to NewMapJson of the document: %v", i+1, depth, err, err == nil && tagged.CanonGo(m) == want[i]), c)
				break
			}
		}
		rd = strings.NewReader(stream)
		for i := range jdocs {
			m, raw, err := mxj.NewMapJsonReaderRaw(rd)
			if err != nil || tagged.CanonGo(m) != want[i] || string(raw) != jdocs[i] {
				a.Mis("stream:json:deep", fmt.Sprintf("NewMapJsonReaderRaw, document %d of a stream whose documents 1 and 3 are objects nested %d deep: err %v, %d raw bytes of %d", i+1, depth, err, len(raw), len(jdocs[i])), c)
				break
			}
		}
		n, nerr := 0, 0
		mxj.HandleJsonReader(strings.NewReader(stream), func(m mxj.Map) bool {
			if n < len(want) && tagged.CanonGo(m) != want[n] {
				nerr++
			}
			n++
			return true
		}, func(error) bool { nerr++; return false })
		if n != len(jdocs) || nerr != 0 {
			a.Mis("stream:json:deep", fmt.Sprintf("HandleJsonReader over %d documents (1 and 3 nested %d deep): %d Maps handed over, %d wrong or error calls", len(jdocs), depth, n, nerr), c)
		}
		xdeep := strings.Repeat("<a>", depth) + "t" + strings.Repeat("</a>", depth)
		xdocs := []string{xdeep, `<s k="&gt;">x</s>`, xdeep}
		xr := strings.NewReader(strings.Join(xdocs, ""))
		for i, d := range xdocs {
			wm, _ := mxj.NewMapXml([]byte(d))
			m, raw, err := mxj.NewMapXmlReaderRaw(xr)
			if err != nil || tagged.CanonGo(m) != tagged.CanonGo(wm) || string(raw) != d {
				a.Mis("stream:xml:deep", fmt.Sprintf("NewMapXmlReaderRaw, document %d of a stream whose documents 1 and 3 are elements nested %d deep: err %v, %d raw bytes of %d", i+1, depth, err, len(raw), len(d)), c)
				break
			}
		}
	}
	// a *bytes.Buffer the producer keeps appending to: the raw bytes handed back for one document stay what they were
	// when the next document is written to the buffer and read
	{
		bx := []string{`<item>apple</item>`, `<item k="1">pear and plum</item>`, `<note>done</note>`, `<list>` + strings.Repeat("<e>x</e>", 40) + `</list>`, `<z/>`}
		bj := []string{`{"item":"apple"}`, `{"item":{"k":"pear and plum"}}`, `{"note":"done"}`, `{"list":[` + strings.Repeat(`"x",`, 40) + `"y"]}`, `{"z":1}`}
		var bufX, bufJ bytes.Buffer
		var rawsX, rawsJ [][]byte
		for i := range bx {
			bufX.WriteString(bx[i])
			_, raw, err := mxj.NewMapXmlReaderRaw(&bufX)
			if err != nil {
				a.Mis("stream:buffer:raw-held", fmt.Sprintf("NewMapXmlReaderRaw on a *bytes.Buffer, document %d: %v", i+1, err), c)
				break
			}
			rawsX = append(rawsX, raw)
			bufJ.WriteString(bj[i])
			_, rawj, err := mxj.NewMapJsonReaderRaw(&bufJ)
			if err != nil {
				a.Mis("stream:buffer:raw-held", fmt.Sprintf("NewMapJsonReaderRaw on a *bytes.Buffer, document %d: %v", i+1, err), c)
				break
			}
			rawsJ = append(rawsJ, rawj)
		}
		for i := range rawsX {
			if string(rawsX[i]) != bx[i] {
				a.Mis("stream:buffer:raw-held", fmt.Sprintf("NewMapXmlReaderRaw on a *bytes.Buffer that is appended to between the calls: the raw bytes returned for document %d read %q after the later calls, the document is %q", i+1, rawsX[i], bx[i]), c)
				break
			}
		}
		for i := range rawsJ {
			if string(rawsJ[i]) != bj[i] {
				a.Mis("stream:buffer:raw-held", fmt.Sprintf("NewMapJsonReaderRaw on a *bytes.Buffer that is appended to between the calls: the raw bytes returned for document %d read %q after the later calls, the document is %q", i+1, rawsJ[i], bj[i]), c)
				break
			}
		}
	}
	// *os.File streams
	xdocs := []string{`<a k="1"><b>x</b></a>`, `<c/>`, `<d>` + strings.Repeat("y", 5000) + `</d>`, `<q>5" long</q>`, `<r k='"'>it's > that</r>`, `<e>z</e>`}
	jdocs := []string{`{"a":{"b":"x"}}`, `{"c":[1,2]}`, `{"d":"` + strings.Repeat("y", 5000) + `"}`, `{"q":"it's 5\" long"}`, `{"e":true}`}
	// ... and the same documents as a FILE through the file readers (quotes in character data are data: only a tag has quoting)
	{
		for _, sep := range []string{"", "\n"} {
			fx, _ := os.CreateTemp("", "mxjfilex")
			fx.WriteString(strings.Join(xdocs, sep))
			fx.Close()
			ms, err := mxj.NewMapsFromXmlFile(fx.Name())
			rs, rerr := mxj.NewMapsFromXmlFileRaw(fx.Name())
			os.Remove(fx.Name())
			okx := err == nil && rerr == nil && len(ms) == len(xdocs) && len(rs) == len(xdocs)
			for i := 0; okx && i < len(xdocs); i++ {
				wm, _ := mxj.NewMapXml([]byte(xdocs[i]))
				okx = tagged.CanonGo(ms[i]) == tagged.CanonGo(wm) && tagged.CanonGo(rs[i].M) == tagged.CanonGo(wm) && strings.TrimSpace(string(rs[i].R)) == xdocs[i]
			}
			if !okx {
				a.Mis("stream:file:quotes", fmt.Sprintf("NewMapsFromXmlFile[Raw] on a file of %d documents (separator %q; quotes and > in character data, a quote inside an attribute value): %d / %d Maps, errors %v / %v", len(xdocs), sep, len(ms), len(rs), err, rerr), c)
			}
			fj, _ := os.CreateTemp("", "mxjfilej")
			fj.WriteString(strings.Join(jdocs, sep))
			fj.Close()
			mj, jerr := mxj.NewMapsFromJsonFile(fj.Name())
			os.Remove(fj.Name())
			okj := jerr == nil && len(mj) == len(jdocs)
			for i := 0; okj && i < len(jdocs); i++ {
				wm, _ := mxj.NewMapJson([]byte(jdocs[i]))
				okj = tagged.CanonGo(mj[i]) == tagged.CanonGo(wm)
			}
			if !okj {
				a.Mis("stream:file:quotes", fmt.Sprintf("NewMapsFromJsonFile on a file of %d documents (separator %q): %d Maps, error %v", len(jdocs), sep, len(mj), jerr), c)
			}
		}
	}
	open := func(kind, data string) *os.File {
		if kind == "pipe" {
			pr, pw, err := os.Pipe()
			if err != nil {
				panic(err)
			}
			go func() { pw.WriteString(data); pw.Close() }()
			return pr
		}
		f, err := os.CreateTemp("", "mxjstream")
		if err != nil {
			panic(err)
		}
		f.WriteString(data)
		f.Seek(0, io.SeekStart)
		return f
	}
	closeF := func(kind string, f *os.File) {
		f.Close()
		if kind == "file" {
			os.Remove(f.Name())
		}
	}
	for _, kind := range []string{"pipe", "file"} {
		for _, sep := range []string{"", "\n"} {
			type entry struct {
				name string
				docs []string
				read func(f *os.File) (mxj.Map, error)
				ref  func(d string) mxj.Map
			}
			xref := func(d string) mxj.Map { m, _ := mxj.NewMapXml([]byte(d)); return m }
			jref := func(d string) mxj.Map { m, _ := mxj.NewMapJson([]byte(d)); return m }
			sref := func(d string) mxj.Map { m, _ := mxj.NewMapXmlSeq([]byte(d)); return mxj.Map(m) }
			for _, e := range []entry{
				{"NewMapXmlReader", xdocs, func(f *os.File) (mxj.Map, error) { return mxj.NewMapXmlReader(f) }, xref},
				{"NewMapXmlReaderRaw", xdocs, func(f *os.File) (mxj.Map, error) { m, _, err := mxj.NewMapXmlReaderRaw(f); return m, err }, xref},
				{"NewMapXmlSeqReader", xdocs, func(f *os.File) (mxj.Map, error) { m, err := mxj.NewMapXmlSeqReader(f); return mxj.Map(m), err }, sref},
				{"NewMapJsonReader", jdocs, func(f *os.File) (mxj.Map, error) { return mxj.NewMapJsonReader(f) }, jref},
				{"NewMapJsonReaderRaw", jdocs, func(f *os.File) (mxj.Map, error) { m, _, err := mxj.NewMapJsonReaderRaw(f); return m, err }, jref},
			} {
				f := open(kind, strings.Join(e.docs, sep))
				for i := 0; i <= len(e.docs); i++ {
					m, err := e.read(f)
					if i == len(e.docs) {
						if err != io.EOF {
							a.Mis("stream:osfile:"+kind, fmt.Sprintf("%s on an *os.File (%s) holding %d documents: call %d gave err %v, want io.EOF", e.name, kind, len(e.docs), i+1, err), c)
						}
						break
					}
					if err != nil || tagged.CanonGo(m) != tagged.CanonGo(e.ref(e.docs[i])) {
						a.Mis("stream:osfile:"+kind, fmt.Sprintf("%s on an *os.File (%s) holding %d documents (separator %q): call %d gave %s err %v, want document %d", e.name, kind, len(e.docs), sep, i+1, short(canonOrNil(m)), err, i+1), c)
						break
					}
				}
				closeF(kind, f)
			}
			f := open(kind, strings.Join(xdocs, sep))
			n := 0
			mxj.HandleXmlReader(f, func(m mxj.Map) bool { n++; return true }, func(error) bool { n += 100; return false })
			closeF(kind, f)
			if n != len(xdocs) {
				a.Mis("stream:osfile:"+kind, fmt.Sprintf("HandleXmlReader on an *os.File (%s) holding %d documents: %d handler calls (100 per error call)", kind, len(xdocs), n), c)
			}
			f = open(kind, strings.Join(jdocs, sep))
			n = 0
			mxj.HandleJsonReader(f, func(m mxj.Map) bool { n++; return true }, func(error) bool { n += 100; return false })
			closeF(kind, f)
			if n != len(jdocs) {
				a.Mis("stream:osfile:"+kind, fmt.Sprintf("HandleJsonReader on an *os.File (%s) holding %d documents: %d handler calls (100 per error call)", kind, len(jdocs), n), c)
			}
		}
	}
}

func replayFile(line []byte, a *Acc) {
	var l fileLine
	if err := json.Unmarshal(line, &l); err != nil {
		panic(err)
	}
	dir, err := os.MkdirTemp("", "mxjfile")
	if err != nil {
		panic(err)
	}
	defer os.RemoveAll(dir)
	variants := 2
	if l.Mode == "json" {
		variants = 1
	}
	ncases := 0
	for v := 0; v < variants; v++ {
		var data []byte
		if l.Mode == "json" {
			data = jsonStreamBytes(l.ID.Text)
		} else {
			data = xmlStream(l.ID, v)
		}
		name := filepath.Join(dir, fmt.Sprintf("f%d", v))
		if err := os.WriteFile(name, data, 0o644); err != nil {
			panic(err)
		}
		exp := make([]string, len(l.Docs))
		for i, d := range l.Docs {
			if l.Mode == "json" {
				m, _ := mxj.NewMapJson(data[d.S-1 : d.E])
				exp[i] = canonOrNil(m)
			} else {
				m, _ := mxj.NewMapXml(data[d.S-1 : d.E])
				exp[i] = canonOrNil(m)
			}
		}
		one := func(sig, detail string) {
			a.Mis(sig, fmt.Sprintf("file %q (cut %d): %s", string(data), l.ID.Cut, detail), l)
		}
		for _, raw := range []bool{false, true} {
			ncases++
			var got []string
			var raws [][]byte
			var rerr error
			fn := ""
			p := guard(func() {
				switch {
				case l.Mode == "xml" && !raw:
					fn = "NewMapsFromXmlFile"
					ms, e := mxj.NewMapsFromXmlFile(name)
					rerr = e
					for _, m := range ms {
						got = append(got, canonOrNil(m))
					}
				case l.Mode == "xml" && raw:
					fn = "NewMapsFromXmlFileRaw"
					ms, e := mxj.NewMapsFromXmlFileRaw(name)
					rerr = e
					for _, m := range ms {
						got = append(got, canonOrNil(m.M))
						raws = append(raws, m.R)
					}
				case l.Mode == "json" && !raw:
					fn = "NewMapsFromJsonFile"
					ms, e := mxj.NewMapsFromJsonFile(name)
					rerr = e
					for _, m := range ms {
						got = append(got, canonOrNil(m))
					}
				default:
					fn = "NewMapsFromJsonFileRaw"
					ms, e := mxj.NewMapsFromJsonFileRaw(name)
					rerr = e
					for _, m := range ms {
						got = append(got, canonOrNil(m.M))
						raws = append(raws, m.R)
					}
				}
			})
			if p != "" {
				one("file:panic:"+l.Mode, fn+": "+p)
				continue
			}
			if strings.Join(got, " | ") != strings.Join(exp, " | ") {
				one(fmt.Sprintf("file:%s:maps:tail=%s", l.Mode, l.Tail), fmt.Sprintf("%s returned [%s], the documents before the damage are [%s]", fn, strings.Join(got, " | "), strings.Join(exp, " | ")))
				continue
			}
			if (rerr != nil) != (l.Tail == "ERR") {
				one(fmt.Sprintf("file:%s:error:tail=%s", l.Mode, l.Tail), fmt.Sprintf("%s returned error %v, specification says tail %s", fn, rerr, l.Tail))
				continue
			}
			// XML: the raw values are precisely the bytes consumed -- their concatenation is a prefix of the file
			if l.Mode == "xml" && len(raws) > 0 {
				if cat := bytes.Join(raws, nil); !bytes.HasPrefix(data, cat) {
					one("file:xml:raw-prefix", fmt.Sprintf("%s: the concatenation of the raw values %q is not a prefix of the file", fn, cat))
					continue
				}
			}
			for i, r := range raws {
				doc := data[l.Docs[i].S-1 : l.Docs[i].E]
				ok := false
				if l.Mode == "xml" {
					ok = strings.HasSuffix(string(r), string(doc))
				} else {
					ok = stripWs(r) == stripWs(doc)
				}
				if !ok {
					one("file:"+l.Mode+":raw", fmt.Sprintf("%s raw %d = %q does not contain the document %q", fn, i+1, r, doc))
					break
				}
			}
		}
	}
	// a damaged JSON file: the brace that opens the second document replaced by a closing one -- the scanner meets a
	// closing brace outside any object: the Maps read so far and an error (never silence)
	if l.Mode == "json" && l.ID.Cut == 0 && len(l.Docs) >= 2 {
		data := jsonStreamBytes(l.ID.Text)
		first, _ := mxj.NewMapJson(data[l.Docs[0].S-1 : l.Docs[0].E])
		data[l.Docs[1].S-1] = '}'
		name := filepath.Join(dir, "damaged")
		os.WriteFile(name, data, 0o644)
		ncases++
		var ms mxj.Maps
		var mr []mxj.MapRaw
		var e1, e2 error
		if p := guard(func() { ms, e1 = mxj.NewMapsFromJsonFile(name); mr, e2 = mxj.NewMapsFromJsonFileRaw(name) }); p != "" {
			a.Mis("file:json:damaged-panic", p, l)
		} else if e1 == nil || e2 == nil || len(ms) != 1 || len(mr) != 1 || canonOrNil(ms[0]) != canonOrNil(first) || canonOrNil(mr[0].M) != canonOrNil(first) {
			a.Mis("file:json:damaged", fmt.Sprintf("file %q: NewMapsFromJsonFile returned %d Maps (err %v), NewMapsFromJsonFileRaw %d (err %v); expected the first document %s and an error",
				data, len(ms), e1, len(mr), e2, canonOrNil(first)), l)
		}
	}
	// corruption (not truncation) of ANY one document, the others intact: the Maps read so far -- the documents before the
	// damaged one, none after it -- and an error.  XML: the name of the document's last end tag is overwritten (or, for an
	// empty-element document, its '/'); JSON: the opening brace becomes a closing one.
	if l.ID.Cut == 0 && len(l.Docs) >= 2 {
		whole := func() []byte {
			if l.Mode == "json" {
				return jsonStreamBytes(l.ID.Text)
			}
			return xmlStream(l.ID, 0)
		}
		for kk := 0; kk < 2*len(l.Docs); kk++ {
			k, variant := kk/2, kk%2
			data := whole()
			doc := data[l.Docs[k].S-1 : l.Docs[k].E]
			if l.Mode == "json" {
				if variant == 1 {
					continue
				}
				doc[0] = '}'
			} else if i := bytes.LastIndex(doc, []byte("</")); i >= 0 && i+2 < len(doc) {
				if variant == 0 {
					doc[i+2] = '!'
				} else {
					doc[i+2] = 'q' // a well-formed end tag of ANOTHER name: nothing to repair, an error
				}
			} else if i := bytes.LastIndexByte(doc, '/'); i >= 0 && variant == 0 {
				doc[i] = '<'
			} else {
				continue
			}
			var exp []string
			for i := 0; i < k; i++ {
				d := whole()[l.Docs[i].S-1 : l.Docs[i].E]
				if l.Mode == "json" {
					m, _ := mxj.NewMapJson(d)
					exp = append(exp, canonOrNil(m))
				} else {
					m, _ := mxj.NewMapXml(d)
					exp = append(exp, canonOrNil(m))
				}
			}
			name := filepath.Join(dir, fmt.Sprintf("corrupt%d", kk))
			os.WriteFile(name, data, 0o644)
			ncases++
			var g1, g2 []string
			var e1, e2 error
			if p := guard(func() {
				if l.Mode == "json" {
					ms, e := mxj.NewMapsFromJsonFile(name)
					mr, ee := mxj.NewMapsFromJsonFileRaw(name)
					e1, e2 = e, ee
					for _, m := range ms {
						g1 = append(g1, canonOrNil(m))
					}
					for _, m := range mr {
						g2 = append(g2, canonOrNil(m.M))
					}
				} else {
					ms, e := mxj.NewMapsFromXmlFile(name)
					mr, ee := mxj.NewMapsFromXmlFileRaw(name)
					e1, e2 = e, ee
					for _, m := range ms {
						g1 = append(g1, canonOrNil(m))
					}
					for _, m := range mr {
						g2 = append(g2, canonOrNil(m.M))
					}
				}
			}); p != "" {
				a.Mis("file:"+l.Mode+":corrupt-panic", p, l)
			} else if e1 == nil || e2 == nil || strings.Join(g1, " | ") != strings.Join(exp, " | ") || strings.Join(g2, " | ") != strings.Join(exp, " | ") {
				a.Mis("file:"+l.Mode+":corrupt", fmt.Sprintf("file %q (document %d of %d corrupted): the file reader returned [%s] (err %v), the Raw reader [%s] (err %v); expected the documents before the damage [%s] and an error",
					data, k+1, len(l.Docs), strings.Join(g1, " | "), e1, strings.Join(g2, " | "), e2, strings.Join(exp, " | ")), l)
			}
		}
	}
	// unreadable files: error, no panic
	for _, bad := range []string{filepath.Join(dir, "missing"), dir} {
		if p := guard(func() {
			_, e1 := mxj.NewMapsFromXmlFile(bad)
			_, e2 := mxj.NewMapsFromXmlFileRaw(bad)
			_, e3 := mxj.NewMapsFromJsonFile(bad)
			_, e4 := mxj.NewMapsFromJsonFileRaw(bad)
			if e1 == nil || e2 == nil || e3 == nil || e4 == nil {
				a.Mis("file:unreadable-no-error", "reading "+bad+" returned no error", l)
			}
		}); p != "" {
			a.Mis("file:unreadable-panic", p, l)
		}
	}
	nt := 0
	if l.ID.Cut > 0 || len(l.Docs) > 1 {
		nt = ncases
	}
	a.Count(ncases, nt)
	if l.Tail == "ERR" && len(l.Docs) > 0 {
		a.Sample(map[string]interface{}{"mode": l.Mode, "doc_lengths": l.ID.Dl, "gaps": l.ID.Gl, "cut_at": l.ID.Cut, "json_text": l.ID.Text, "expected_maps": len(l.Docs), "expected_error": true})
	}
}

func init() {
	register("file", &family{replay: replayFile,
		rule: "one case = (stream profile whole or cut at a byte offset, concrete syntax variant, reader function); non-trivial = cut file or more than one document"})
}

// ---------------------------------------------------------------------------
// family "filert" (C19, writer half): lists of Maps written with the four file writers and read
// back with the matching readers; gob and Copy per Map.
// ---------------------------------------------------------------------------
type filertCase struct {
	Ms     []*tagged.TV `json:"ms"`
	XmlErr bool         `json:"xmlerr"`
	Xml    string       `json:"xml"`
	XBack  []*tagged.TV `json:"xback"`
	Json   string       `json:"json"`
}
type filertLine struct {
	F  string       `json:"f"`
	Cs []filertCase `json:"cs"`
}

func canonMaps(ms []mxj.Map) string {
	s := make([]string, len(ms))
	for i, m := range ms {
		s[i] = tagged.CanonGo(m)
	}
	return strings.Join(s, " | ")
}

func replayFileRT(line []byte, a *Acc) {
	var l filertLine
	if err := json.Unmarshal(line, &l); err != nil {
		panic(err)
	}
	mxj.XMLEscapeChars(true)
	defer mxj.XMLEscapeChars(false)
	dir, err := os.MkdirTemp("", "mxjfilert")
	if err != nil {
		panic(err)
	}
	defer os.RemoveAll(dir)
	cases := 0
	for ci, c := range l.Cs {
		one := func(sig, detail string) { a.Mis(sig, detail, filertLine{F: "filert", Cs: []filertCase{c}}) }
		ms := make(mxj.Maps, len(c.Ms))
		orig := make([]string, len(c.Ms))
		for i, t := range c.Ms {
			ms[i] = t.ToMap()
			orig[i] = t.Norm()
		}
		origAll := strings.Join(orig, " | ")
		cx, cj := subst1(c.Xml), subst1(c.Json) // (placeholders of the specification's ASCII alphabet)
		// ---- XML
		fx := filepath.Join(dir, fmt.Sprintf("x%d", ci))
		cases++
		// (the file already exists and is longer: writing REPLACES a file)
		longer := append(append(mxj.Maps{}, ms...), ms...)
		longer.XmlFile(fx)
		werr := ms.XmlFile(fx)
		if c.XmlErr {
			if werr == nil {
				one("filert:xml:no-error", "XmlFile succeeded although an attribute entry is not a scalar")
			}
		} else {
			got, _ := os.ReadFile(fx)
			if werr != nil || string(got) != cx {
				one("filert:xml:content", fmt.Sprintf("XmlFile wrote %q (err %v), expected the concatenation %q", got, werr, cx))
			} else {
				exp := make([]string, len(c.XBack))
				for i, t := range c.XBack {
					exp[i] = t.Norm()
				}
				expAll := strings.Join(exp, " | ")
				back, rerr := mxj.NewMapsFromXmlFile(fx)
				if rerr != nil || canonMaps(back) != expAll {
					one("filert:xml:readback", fmt.Sprintf("NewMapsFromXmlFile(%q) = [%s] (err %v), expected [%s]", cx, canonMaps(back), rerr, expAll))
				}
				raws, rerr := mxj.NewMapsFromXmlFileRaw(fx)
				okr := rerr == nil && len(raws) == len(exp)
				cat := ""
				for i := 0; okr && i < len(raws); i++ {
					okr = tagged.CanonGo(raws[i].M) == exp[i]
					cat += string(raws[i].R)
				}
				if !okr || cat != cx {
					one("filert:xml:readback-raw", fmt.Sprintf("NewMapsFromXmlFileRaw(%q): %d entries (err %v), raw concatenation %q", cx, len(raws), rerr, cat))
				}
				for _, ind := range []string{"    ", " ", "\t", ""} { // (longest first: each later file is shorter or equal)
					fxi := fx + "i"
					if e := ms.XmlFileIndent(fxi, "", ind); e != nil {
						one("filert:xml:indent-error", e.Error())
						continue
					}
					// the file holds the per-Map indented encodings, one after the other (with nothing to indent with, too:
					// XmlIndent("", "") is not Xml())
					wantI := ""
					for _, m := range ms {
						bi, _ := m.XmlIndent("", ind)
						wantI += string(bi)
					}
					if b, _ := os.ReadFile(fxi); string(b) != wantI {
						one("filert:xml:indent-content", fmt.Sprintf("XmlFileIndent(\"\", %q) wrote %q, the concatenation of the Maps' XmlIndent(\"\", %q) is %q", ind, b, ind, wantI))
						continue
					}
					if ind == "" {
						continue // (what that text reads back as is the readers' side)
					}
					back, rerr := mxj.NewMapsFromXmlFile(fxi)
					if rerr != nil || canonMaps(back) != expAll {
						b, _ := os.ReadFile(fxi)
						one("filert:xml:indent-readback", fmt.Sprintf("indent %q: file %q read back as [%s] (err %v), expected [%s]", ind, b, canonMaps(back), rerr, expAll))
					}
				}
			}
		}
		// ---- JSON
		fj := filepath.Join(dir, fmt.Sprintf("j%d", ci))
		cases++
		longer.JsonFile(fj)
		werr = ms.JsonFile(fj)
		got, _ := os.ReadFile(fj)
		if werr != nil || string(got) != cj {
			one("filert:json:content", fmt.Sprintf("JsonFile wrote %q (err %v), expected %q", got, werr, cj))
		} else {
			back, rerr := mxj.NewMapsFromJsonFile(fj)
			if rerr != nil || canonMaps(back) != origAll {
				one("filert:json:readback", fmt.Sprintf("NewMapsFromJsonFile(%q) = [%s] (err %v), expected [%s]", cj, canonMaps(back), rerr, origAll))
			} else if len(back) > 1 {
				// the Maps read back are independent values: filling the first leaves the others as they were
				mutateAll(map[string]interface{}(back[0]))
				if rest := canonMaps(back[1:]); rest != strings.Join(orig[1:], " | ") {
					one("filert:json:readback-shared", fmt.Sprintf("NewMapsFromJsonFile(%q): after the first Map was changed by the caller the others read [%s], expected [%s]", cj, rest, strings.Join(orig[1:], " | ")))
				}
			}
			raws, rerr := mxj.NewMapsFromJsonFileRaw(fj)
			okr := rerr == nil && len(raws) == len(orig)
			for i := 0; okr && i < len(raws); i++ {
				okr = tagged.CanonGo(raws[i].M) == orig[i]
				m2, e2 := mxj.NewMapJson(raws[i].R)
				okr = okr && e2 == nil && tagged.CanonGo(m2) == orig[i]
			}
			if !okr {
				one("filert:json:readback-raw", fmt.Sprintf("NewMapsFromJsonFileRaw(%q): %d entries (err %v)", cj, len(raws), rerr))
			}
			for _, ind := range []string{"   ", " ", "\t", ""} {
				fji := fj + "i"
				if e := ms.JsonFileIndent(fji, "", ind); e != nil {
					one("filert:json:indent-error", e.Error())
					continue
				}
				wantI := make([]string, len(ms))
				for i, m := range ms {
					bi, _ := m.JsonIndent("", ind)
					wantI[i] = string(bi)
				}
				if b, _ := os.ReadFile(fji); string(b) != strings.Join(wantI, "\n") {
					one("filert:json:indent-content", fmt.Sprintf("JsonFileIndent(\"\", %q) wrote %q, the Maps' JsonIndent(\"\", %q) forms joined by newlines are %q", ind, b, ind, strings.Join(wantI, "\n")))
					continue
				}
				back, rerr := mxj.NewMapsFromJsonFile(fji)
				if rerr != nil || canonMaps(back) != origAll {
					b, _ := os.ReadFile(fji)
					one("filert:json:indent-readback", fmt.Sprintf("indent %q: file %q read back as [%s] (err %v), expected [%s]", ind, b, canonMaps(back), rerr, origAll))
				}
			}
		}
		// ---- gob, Copy (all Maps are encoded first: a returned gob belongs to the caller and must survive later calls)
		gobs := make([][]byte, len(ms))
		gerrs := make([]error, len(ms))
		for i, m := range ms {
			gobs[i], gerrs[i] = m.Gob()
		}
		for i, m := range ms {
			cases++
			g, gerr := gobs[i], gerrs[i]
			m2, derr := mxj.NewMapGob(g)
			if gerr != nil || derr != nil || tagged.CanonGo(m2) != orig[i] {
				one("filert:gob", fmt.Sprintf("Gob/NewMapGob of %s gave %s (%v %v)", orig[i], tagged.CanonGo(m2), gerr, derr))
			}
			cp, cerr := m.Copy()
			if cerr != nil || tagged.CanonGo(cp) != orig[i] {
				one("filert:copy", fmt.Sprintf("Copy of %s gave %s (%v)", orig[i], tagged.CanonGo(cp), cerr))
			} else if !reflect.DeepEqual(map[string]interface{}(cp), map[string]interface{}(m)) {
				// same rendering, yet not deeply equal: an empty list that became a nil list, a changed number type, ...
				one("filert:copy-not-deep-equal", fmt.Sprintf("Copy of %s renders the same but is not reflect.DeepEqual to the original: %#v vs %#v", orig[i], cp, m))
			}
		}
	}
	// Copy is the identity on every float64: integral values beyond 2^53, whose JSON text is not their exact value
	{
		big := mxj.Map{"n": float64(1 << 62), "l": []interface{}{1e18, 1234567890123456789.0, float64(1<<53) + 2, map[string]interface{}{"m": float64(1 << 60)}}}
		cp, cerr := big.Copy()
		cases++
		if cerr != nil || !reflect.DeepEqual(map[string]interface{}(cp), map[string]interface{}(big)) {
			a.Mis("filert:copy-big-floats", fmt.Sprintf("Copy of %#v gave %#v (%v)", big, cp, cerr), filertLine{F: "filert"})
		}
	}
	a.Count(cases, cases)
	if len(l.Cs) > 0 && len(l.Cs[0].Ms) > 1 && len(l.Cs[0].Xml) > 30 {
		a.Sample(map[string]interface{}{"maps": []string{l.Cs[0].Ms[0].Norm(), l.Cs[0].Ms[1].Norm()}, "xml_file": l.Cs[0].Xml, "json_file": l.Cs[0].Json})
	}
}

func init() {
	register("filert", &family{replay: replayFileRT, serial: true,
		rule: "one case = (list of one or two Maps, XML or JSON file form incl. Raw readers and three indent strings) or (Map, gob+Copy); real temporary files; all cases non-trivial"})
}
