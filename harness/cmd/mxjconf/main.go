// mxjconf binds the TLA+ specification of mxj to the real code.
//
//	mxjconf replay <family> [-j N] [-out summary.json] [-tlclog file]   < TLC stdout
//	     spec -> code: every line TLC prints with PrintT(ToJson(..)) is a behaviour
//	     (inputs + the specification's expected results); it is executed on the real
//	     package and compared.
//	mxjconf record <family> [-seed S] [-n N] -trace out.ndjson [-out summary.json]
//	     code -> spec: drivers call the real package and log one event per call for
//	     validation by a TLA+ trace specification.
//	mxjconf one <family> <replay-file>
//	     re-executes a single saved case (isolation re-check of a candidate).
package main

import (
	"bufio"
	"bytes"
	"encoding/binary"
	"encoding/json"
	"flag"
	"fmt"
	"io"
	"os"
	"os/exec"
	"runtime/debug"
	"sort"
	"strings"
	"sync"
)

// Mismatch is one disagreement between the specification and the code.
type Mismatch struct {
	Sig    string      `json:"sig"`    // stable class signature (used by known_findings.txt)
	Detail string      `json:"detail"` // human readable
	Case   interface{} `json:"case"`   // enough to re-execute (family specific)
	// Ctx: for serial families (package-level state), the raw lines this process replayed last, the
	// current one included; used when the case alone does not reproduce (state carried between calls)
	Ctx []string `json:"ctx,omitempty"`
}

type Acc struct {
	mu         sync.Mutex
	Family     string           `json:"family"`
	Lines      int              `json:"lines"`
	Cases      int              `json:"cases"`
	Nontrivial int              `json:"distinct_nontrivial"`
	Rule       string           `json:"rule"`
	MisCount   int              `json:"mismatch_count"`
	SigCounts  map[string]int   `json:"sig_counts"`
	Mismatches []Mismatch       `json:"mismatches"` // first few per signature
	Samples    []interface{}    `json:"samples"`
	Extra      map[string]int64 `json:"extra"`
	Fatal      string           `json:"fatal,omitempty"` // harness-level failure (exit 2)
	perSig     map[string]int
	ctx        []string // last raw lines (serial families only)
}

func newAcc(f string) *Acc {
	return &Acc{Family: f, Mismatches: []Mismatch{}, Samples: []interface{}{}, SigCounts: map[string]int{}, perSig: map[string]int{}, Extra: map[string]int64{}}
}

const keepPerSig = 3

func (a *Acc) Mis(sig, detail string, c interface{}) {
	a.mu.Lock()
	defer a.mu.Unlock()
	a.MisCount++
	a.SigCounts[sig]++
	if a.perSig[sig] < keepPerSig && len(a.Mismatches) < 200 {
		a.perSig[sig]++
		mm := Mismatch{Sig: sig, Detail: detail, Case: c}
		if a.perSig[sig] == 1 && len(a.ctx) > 0 {
			mm.Ctx = append([]string(nil), a.ctx...)
		}
		a.Mismatches = append(a.Mismatches, mm)
	}
}

// merge adds the counts, first mismatches and samples of another accumulator (child process or worker)
func (total *Acc) merge(a *Acc) {
	total.Lines += a.Lines
	total.Cases += a.Cases
	total.Nontrivial += a.Nontrivial
	total.MisCount += a.MisCount
	for s, n := range a.SigCounts {
		total.SigCounts[s] += n
	}
	for _, m := range a.Mismatches {
		if total.perSig[m.Sig] < keepPerSig && len(total.Mismatches) < 200 {
			total.perSig[m.Sig]++
			total.Mismatches = append(total.Mismatches, m)
		}
	}
	for _, smp := range a.Samples {
		if len(total.Samples) < 4 {
			total.Samples = append(total.Samples, smp)
		}
	}
	for k2, v := range a.Extra {
		total.Extra[k2] += v
	}
	if a.Fatal != "" {
		total.Fatal = a.Fatal
	}
}

// pushCtx remembers the raw line about to be replayed (at most ctxLines lines, ctxBytes bytes)
const ctxBytes = 4 << 20

// ctxLines: how many lines a mismatch carries as context (sessions are short lines and state can come from far back)
var ctxLines = 4

func (a *Acc) pushCtx(line string) {
	a.mu.Lock()
	a.ctx = append(a.ctx, line)
	if len(a.ctx) > ctxLines {
		a.ctx = a.ctx[len(a.ctx)-ctxLines:]
	}
	n := 0
	for i := len(a.ctx) - 1; i >= 0; i-- {
		n += len(a.ctx[i])
		if n > ctxBytes && i < len(a.ctx)-1 {
			a.ctx = a.ctx[i+1:]
			break
		}
	}
	a.mu.Unlock()
}

func (a *Acc) Count(cases, nontrivial int) {
	a.mu.Lock()
	a.Cases += cases
	a.Nontrivial += nontrivial
	a.mu.Unlock()
}

func (a *Acc) Add(key string, n int64) {
	a.mu.Lock()
	a.Extra[key] += n
	a.mu.Unlock()
}

func (a *Acc) Sample(s interface{}) {
	a.mu.Lock()
	if len(a.Samples) < 4 {
		a.Samples = append(a.Samples, s)
	}
	a.mu.Unlock()
}

// held: results handed out by the package are values of the specification -- they must not change
// when later calls are made (a result aliasing a recycled buffer does).
type heldItem struct {
	name string
	b    []byte
	was  string
}
type held struct{ items []heldItem }

func (h *held) add(name string, b []byte) {
	if len(b) > 0 {
		h.items = append(h.items, heldItem{name, b, string(b)})
	}
}

// check reports the first held result whose bytes changed after it was returned
func (h *held) check(report func(name, was, now string)) {
	for _, it := range h.items {
		if string(it.b) != it.was {
			report(it.name, it.was, string(it.b))
			return
		}
	}
}

// heldFn: the same for results that are not bytes (slices of values, of paths, of leaf nodes): the result is
// rendered when returned and rendered again later
type heldFnItem struct {
	name   string
	was    string
	render func() string
}
type heldFns struct{ items []heldFnItem }

func (h *heldFns) add(name string, render func() string) {
	if len(h.items) < 64 {
		h.items = append(h.items, heldFnItem{name, render(), render})
	}
}
func (h *heldFns) check(report func(name, was, now string)) {
	for _, it := range h.items {
		if now := it.render(); now != it.was {
			report(it.name, it.was, now)
			return
		}
	}
}

// family registry
type replayFn func(line []byte, a *Acc)
type recordFn func(seed int64, n int, w *bufio.Writer, a *Acc)

type family struct {
	replay   replayFn
	record   recordFn
	serial   bool // must not run concurrently (touches package-level options)
	ctxLines int  // lines of context kept for a mismatch (default 4)
	rule     string
	initOnce func()
}

var families = map[string]*family{}

func register(name string, f *family) { families[name] = f }

// guard runs fn and converts a panic into a description.
func guard(fn func()) (pan string) {
	defer func() {
		if r := recover(); r != nil {
			st := string(debug.Stack())
			// keep the first frames below the panic
			lines := strings.Split(st, "\n")
			where := ""
			for i, l := range lines {
				if strings.Contains(l, "panic(") && i+2 < len(lines) {
					for j := i + 2; j < len(lines) && j < i+8; j++ {
						if strings.Contains(lines[j], "clbanning/mxj") || strings.Contains(lines[j], "/repo/") {
							where = strings.TrimSpace(lines[j])
							break
						}
					}
					break
				}
			}
			pan = fmt.Sprintf("panic: %v @ %s", r, where)
		}
	}()
	fn()
	return ""
}

func writeSummary(a *Acc, out string) {
	b, _ := json.MarshalIndent(a, "", " ")
	if out == "" || out == "-" {
		os.Stdout.Write(b)
		os.Stdout.Write([]byte("\n"))
		return
	}
	if err := os.WriteFile(out, b, 0o644); err != nil {
		fmt.Fprintln(os.Stderr, "mxjconf: cannot write summary:", err)
		os.Exit(2)
	}
}

func doReplay(args []string) {
	fs := flag.NewFlagSet("replay", flag.ExitOnError)
	j := fs.Int("j", 8, "worker goroutines")
	out := fs.String("out", "", "summary file")
	tlclog := fs.String("tlclog", "", "file receiving the non-data lines of TLC's output")
	procs := fs.Int("procs", 1, "for families that touch package-level options (serial): number of child processes the lines are spread over")
	child := fs.Bool("child", false, "internal: child process of -procs (reads raw lines on stdin)")
	cur := fs.String("cur", "", "prefix of the files that hold the line each worker is replaying (read by the caller when the process dies of a fatal runtime error)")
	if len(args) < 1 {
		fmt.Fprintln(os.Stderr, "usage: mxjconf replay <family> ...")
		os.Exit(2)
	}
	name := args[0]
	fs.Parse(args[1:])
	f := families[name]
	if f == nil || f.replay == nil {
		fmt.Fprintln(os.Stderr, "mxjconf: unknown replay family", name)
		os.Exit(2)
	}
	if f.initOnce != nil {
		f.initOnce()
	}
	if f.ctxLines > 0 {
		ctxLines = f.ctxLines
	}
	a := newAcc(name)
	a.Rule = f.rule
	var logw io.Writer = io.Discard
	if *tlclog != "" {
		lf, err := os.Create(*tlclog)
		if err != nil {
			fmt.Fprintln(os.Stderr, err)
			os.Exit(2)
		}
		defer lf.Close()
		logw = lf
	}
	n := *j
	if f.serial {
		n = 1
	}
	_ = child
	if *cur == "" && *out != "" {
		*cur = *out + ".cur"
	}
	if f.serial && *procs > 1 && !*child {
		replayMultiProc(name, *procs, *out, *cur, logw)
		return
	}
	ch := make(chan []byte, 256)
	var wg sync.WaitGroup
	// one accumulator per worker: its context is exactly the lines this worker replayed, in order
	was := make([]*Acc, n)
	for i := 0; i < n; i++ {
		wg.Add(1)
		wa := newAcc(name)
		was[i] = wa
		var cf *os.File
		if *cur != "" {
			cf, _ = os.Create(fmt.Sprintf("%s.w%d", *cur, i))
		}
		go func() {
			defer wg.Done()
			if cf != nil {
				// (removed when the worker ends in an orderly way: what is left behind marks a process that died)
				defer func() { cf.Close(); os.Remove(cf.Name()) }()
			}
			var hdr [8]byte
			for raw := range ch {
				// raw is a TLA+ string literal that is also a JSON string
				var s string
				if err := json.Unmarshal(raw, &s); err != nil {
					wa.mu.Lock()
					wa.Fatal = "cannot parse TLC line: " + err.Error()
					wa.mu.Unlock()
					continue
				}
				wa.pushCtx(s)
				if cf != nil {
					// the line being replayed, at a fixed place: one positioned write, no truncation (length first)
					binary.LittleEndian.PutUint64(hdr[:], uint64(len(s)))
					cf.WriteAt(append(hdr[:], s...), 0)
				}
				if p := guard(func() { f.replay([]byte(s), wa) }); p != "" {
					if strings.Contains(p, "value deeper than MaxDepth") {
						// a value the library handed back (or left in the caller's Map) cannot be walked: it contains itself.
						// No Map of the specification does; the line is the replayable case
						wa.Mis(name+":cyclic-result", "an operation of this case left a value that contains itself ("+p+")", json.RawMessage(s))
						continue
					}
					wa.mu.Lock()
					wa.Fatal = "harness panic: " + p
					wa.mu.Unlock()
				}
			}
		}()
	}
	rd := bufio.NewReaderSize(os.Stdin, 1<<20)
	for {
		line, err := rd.ReadBytes('\n')
		if len(line) > 0 {
			if line[0] == '"' && len(line) > 2 && line[1] == '{' {
				a.Lines++
				cp := make([]byte, len(line))
				copy(cp, line)
				// MXJ_SUBST: placeholder characters of the specification's alphabet stand for strings the TLA+ side cannot carry
				// or that would be unwieldy there (multi-byte characters, keys of 40 bytes, values of 4 KiB): replaced in the WHOLE
				// line, i.e. consistently in the inputs and in the expected results (set per stage by check.py)
				for _, sb := range lineSubst {
					cp = bytes.ReplaceAll(cp, sb[0], sb[1])
				}
				ch <- cp
			} else {
				logw.Write(line)
			}
		}
		if err != nil {
			break
		}
	}
	close(ch)
	wg.Wait()
	for _, wa := range was {
		a.merge(wa)
	}
	writeSummary(a, *out)
	runAtExit()
	if a.Fatal != "" {
		fmt.Fprintln(os.Stderr, "mxjconf:", a.Fatal)
		os.Exit(2)
	}
}

// replayMultiProc spreads the data lines over child processes (each with its own copy of the
// package-level option registers) and merges their summaries.
func replayMultiProc(name string, procs int, out, cur string, logw io.Writer) {
	type kid struct {
		cmd  *exec.Cmd
		in   io.WriteCloser
		outf string
	}
	kids := make([]*kid, procs)
	for i := range kids {
		tf, err := os.CreateTemp("", "mxjconf-child-*.json")
		if err != nil {
			fmt.Fprintln(os.Stderr, err)
			os.Exit(2)
		}
		tf.Close()
		cargs := []string{"replay", name, "-child", "-out", tf.Name()}
		if cur != "" {
			cargs = append(cargs, "-cur", fmt.Sprintf("%s.c%d", cur, i))
		}
		c := exec.Command(os.Args[0], cargs...)
		c.Stderr = os.Stderr
		in, err := c.StdinPipe()
		if err != nil {
			fmt.Fprintln(os.Stderr, err)
			os.Exit(2)
		}
		if err := c.Start(); err != nil {
			fmt.Fprintln(os.Stderr, err)
			os.Exit(2)
		}
		kids[i] = &kid{c, in, tf.Name()}
	}
	rd := bufio.NewReaderSize(os.Stdin, 1<<20)
	writers := make([]*bufio.Writer, procs)
	for i, k := range kids {
		writers[i] = bufio.NewWriterSize(k.in, 1<<20)
	}
	ln := 0
	for {
		line, err := rd.ReadBytes('\n')
		if len(line) > 0 {
			if line[0] == '"' && len(line) > 2 && line[1] == '{' {
				writers[ln%procs].Write(line)
				ln++
			} else {
				logw.Write(line)
			}
		}
		if err != nil {
			break
		}
	}
	total := newAcc(name)
	total.Rule = families[name].rule
	for i, k := range kids {
		writers[i].Flush()
		k.in.Close()
		werr := k.cmd.Wait()
		b, rerr := os.ReadFile(k.outf)
		os.Remove(k.outf)
		var a Acc
		if rerr != nil || json.Unmarshal(b, &a) != nil {
			total.Fatal = fmt.Sprintf("child %d produced no summary (%v)", i, werr)
			continue
		}
		total.merge(&a)
	}
	writeSummary(total, out)
	if total.Fatal != "" {
		fmt.Fprintln(os.Stderr, "mxjconf:", total.Fatal)
		os.Exit(2)
	}
}

func doRecord(args []string) {
	fs := flag.NewFlagSet("record", flag.ExitOnError)
	seed := fs.Int64("seed", 1, "seed")
	n := fs.Int("n", 1000, "number of events/cases")
	out := fs.String("out", "", "summary file")
	trace := fs.String("trace", "trace.ndjson", "trace output")
	fs.StringVar(&recordOps, "ops", "", "recorder specific: comma separated operation classes to record (default: all)")
	if len(args) < 1 {
		fmt.Fprintln(os.Stderr, "usage: mxjconf record <family> ...")
		os.Exit(2)
	}
	name := args[0]
	fs.Parse(args[1:])
	f := families[name]
	if f == nil || f.record == nil {
		fmt.Fprintln(os.Stderr, "mxjconf: unknown record family", name)
		os.Exit(2)
	}
	if f.initOnce != nil {
		f.initOnce()
	}
	a := newAcc(name)
	a.Rule = f.rule
	tf, err := os.Create(*trace)
	if err != nil {
		fmt.Fprintln(os.Stderr, err)
		os.Exit(2)
	}
	w := bufio.NewWriterSize(tf, 1<<20)
	if p := guard(func() { f.record(*seed, *n, w, a) }); p != "" {
		a.Fatal = "harness panic: " + p
	}
	w.Flush()
	tf.Close()
	writeSummary(a, *out)
	if a.Fatal != "" {
		fmt.Fprintln(os.Stderr, "mxjconf:", a.Fatal)
		os.Exit(2)
	}
}

// recordOps: operation classes a recorder is asked to restrict itself to ("" = all)
var recordOps string

func wantOp(op string) bool {
	if recordOps == "" {
		return true
	}
	for _, o := range strings.Split(recordOps, ",") {
		if o == op {
			return true
		}
	}
	return false
}

// doOne re-executes saved mismatch cases: file holds {"family":..,"case":..}; the family's
// replay function is fed the case re-wrapped as a line.
func doOne(args []string) {
	useCtx, usePar := false, false
	if len(args) > 0 && args[0] == "-ctx" {
		useCtx = true
		args = args[1:]
	} else if len(args) > 0 && args[0] == "-par" {
		usePar = true
		args = args[1:]
	}
	if len(args) < 1 {
		fmt.Fprintln(os.Stderr, "usage: mxjconf one [-ctx] <replay-file>")
		os.Exit(2)
	}
	b, err := os.ReadFile(args[0])
	if err != nil {
		fmt.Fprintln(os.Stderr, err)
		os.Exit(2)
	}
	var r struct {
		Family string          `json:"family"`
		Sig    string          `json:"sig"`
		Case   json.RawMessage `json:"case"`
		Ctx    []string        `json:"ctx"`
	}
	if err := json.Unmarshal(b, &r); err != nil {
		fmt.Fprintln(os.Stderr, err)
		os.Exit(2)
	}
	f := families[r.Family]
	if f == nil || f.replay == nil {
		fmt.Fprintln(os.Stderr, "mxjconf: unknown family", r.Family)
		os.Exit(2)
	}
	if f.initOnce != nil {
		f.initOnce()
	}
	a := newAcc(r.Family)
	if usePar {
		// neither the case alone nor its context reproduced sequentially, and the family is one whose lines are replayed by
		// concurrent workers on PRIVATE inputs: the candidate came from calls overlapping in time.  The case and its context are
		// replayed by 8 goroutines at once (each with its own accumulator); reproduced iff the same class shows again.
		if f.serial {
			fmt.Fprintln(os.Stderr, "mxjconf: family", r.Family, "is serial; -par does not apply")
			os.Exit(2)
		}
		lines := append(append([]string{}, r.Ctx...), string(r.Case))
		accs := make([]*Acc, 8)
		var wg sync.WaitGroup
		for g := range accs {
			accs[g] = newAcc(r.Family)
			wg.Add(1)
			go func(ag *Acc) {
				defer wg.Done()
				for rep := 0; rep < 40; rep++ {
					for _, l := range lines {
						f.replay([]byte(l), ag)
					}
				}
			}(accs[g])
		}
		wg.Wait()
		hit := false
		for _, ag := range accs {
			if ag.SigCounts[r.Sig] > 0 {
				hit = true
			}
		}
		runAtExit()
		if hit {
			os.Exit(1)
		}
		return
	}
	if useCtx {
		// the lines that preceded the mismatch in its process, in order: reproduced iff the same class shows again
		// (a family whose lines are sessions recorded from the code -- "path" -- reports a reproduced LAST session;
		//  families replayed by several workers see the lines twice, so that every order of two calls occurs)
		passes := 1
		if !f.serial {
			passes = 2
		}
		scratch := newAcc(r.Family)
		for p := 0; p < passes; p++ {
			for i, l := range r.Ctx {
				if f.record != nil && i < len(r.Ctx)-1 {
					f.replay([]byte(l), scratch)
				} else {
					f.replay([]byte(l), a)
				}
			}
		}
		writeSummary(a, "-")
		if a.SigCounts[r.Sig] > 0 || (f.record != nil && a.MisCount > 0) {
			os.Exit(1)
		}
		return
	}
	if p := guard(func() { f.replay(r.Case, a) }); p != "" {
		if !strings.Contains(p, "value deeper than MaxDepth") {
			panic(p)
		}
		a.Mis(r.Family+":cyclic-result", "an operation of this case left a value that contains itself ("+p+")", r.Case) // (as in the replay loop)
	}
	writeSummary(a, "-")
	runAtExit()
	if a.MisCount > 0 {
		os.Exit(1)
	}
}

// lineSubst: from MXJ_SUBST="c=replacement;;c=replacement" (replacements must be valid inside a JSON string inside a JSON string:
// no quote, no backslash, no control character)
var lineSubst [][2][]byte

func init() {
	if v := os.Getenv("MXJ_SUBST"); v != "" {
		for _, p := range strings.Split(v, ";;") {
			if i := strings.Index(p, "="); i > 0 {
				lineSubst = append(lineSubst, [2][]byte{[]byte(p[:i]), []byte(p[i+1:])})
			}
		}
	}
}

// atExit: scratch areas of families, removed when the command ends
var atExit []func()

func runAtExit() {
	for _, f := range atExit {
		f()
	}
}

func main() {
	defer runAtExit()
	if len(os.Args) < 2 {
		names := []string{}
		for k := range families {
			names = append(names, k)
		}
		sort.Strings(names)
		fmt.Fprintln(os.Stderr, "usage: mxjconf replay|record|one <family>; families:", strings.Join(names, " "))
		os.Exit(2)
	}
	switch os.Args[1] {
	case "replay":
		doReplay(os.Args[2:])
	case "record":
		doRecord(os.Args[2:])
	case "one":
		doOne(os.Args[2:])
	default:
		if fn, ok := extraCmds[os.Args[1]]; ok {
			fn(os.Args[2:])
			return
		}
		fmt.Fprintln(os.Stderr, "mxjconf: unknown command", os.Args[1])
		os.Exit(2)
	}
}

var extraCmds = map[string]func([]string){}
