package main

import (
	"bufio"
	"encoding/json"
	"fmt"
	"math/rand"
	"sort"
	"strconv"
	"strings"

	mxj "github.com/clbanning/mxj/v2"
	"verif/harness/tagged"
)

// ---------------------------------------------------------------------------
// code -> spec recorder for the query / mutation family ("path"): sessions on live
// objects.  A session starts with a "reset" event carrying a random Map (deeper and
// wider than TLC enumerates: lists and maps wider than the initial result capacity
// of 32), then queries and mutators are applied to the SAME live object; each event
// logs the abstract arguments and the observed result (and post-state for mutators).
// The trace specification Trace_Path.tla keeps its own current Map, computed by the
// specification's operators, so the history is chained, not guessed.
// ---------------------------------------------------------------------------

type rgen struct {
	r     *rand.Rand
	keys  []string
	fresh int
}

func (g *rgen) scalar() interface{} {
	switch g.r.Intn(8) {
	case 0:
		return true
	case 1:
		return float64(1)
	case 2:
		return "y"
	case 3:
		return "z"
	case 4:
		return nil
	default:
		return "x"
	}
}

func (g *rgen) value(depth int, wide bool) interface{} {
	if depth <= 0 {
		return g.scalar()
	}
	switch g.r.Intn(10) {
	case 0, 1, 2:
		return g.scalar()
	case 3, 4, 5, 6:
		return g.mapv(depth, wide)
	default:
		n := g.r.Intn(4)
		if wide && g.r.Intn(3) == 0 {
			n = 31 + g.r.Intn(6)
		}
		l := make([]interface{}, n)
		allowNested := g.r.Intn(6) == 0
		for i := range l {
			v := g.value(depth-1, false)
			if _, isl := v.([]interface{}); isl && !allowNested {
				v = g.mapv(depth-1, false)
			}
			l[i] = v
		}
		return l
	}
}

func (g *rgen) mapv(depth int, wide bool) map[string]interface{} {
	n := 1 + g.r.Intn(4)
	m := map[string]interface{}{}
	for i := 0; i < n; i++ {
		m[g.keys[g.r.Intn(len(g.keys))]] = g.value(depth-1, wide)
	}
	if wide && g.r.Intn(4) == 0 {
		for i := 0; i < 34; i++ {
			m["w"+strconv.Itoa(i)] = g.scalar()
		}
	}
	return m
}

type pkey struct {
	Name string `json:"name"`
	Idx  int    `json:"idx"`
}

// randomPath follows the live value so that most paths match something.
func (g *rgen) randomPath(m map[string]interface{}, maxLen int, allowIdx bool) []pkey {
	var ks []pkey
	var cur interface{} = m
	n := 1 + g.r.Intn(maxLen)
	for len(ks) < n {
		// list transparency: look into a member
		for {
			l, ok := cur.([]interface{})
			if !ok || len(l) == 0 {
				break
			}
			cur = l[g.r.Intn(len(l))]
		}
		mm, ok := cur.(map[string]interface{})
		name := g.keys[g.r.Intn(len(g.keys))]
		if !ok && len(ks) > 0 && g.r.Intn(4) != 0 {
			break // nothing below: usually stop here
		}
		if ok && len(mm) > 0 && g.r.Intn(12) != 0 {
			name = sortedKeys(mm)[g.r.Intn(len(mm))]
		}
		k := pkey{name, -1}
		nxt := interface{}(nil)
		if ok {
			nxt = mm[name]
		}
		if g.r.Intn(5) == 0 {
			k.Name = "*"
		} else if allowIdx && g.r.Intn(4) == 0 {
			k.Idx = g.r.Intn(2)
			if l, isl := nxt.([]interface{}); isl && len(l) > 0 && g.r.Intn(4) != 0 {
				k.Idx = g.r.Intn(len(l) + 1)
			}
		}
		ks = append(ks, k)
		cur = nxt
	}
	return ks
}

func pathString(ks []pkey) string {
	parts := make([]string, len(ks))
	for i, k := range ks {
		parts[i] = k.Name
		if k.Idx >= 0 {
			parts[i] += "[" + strconv.Itoa(k.Idx) + "]"
		}
	}
	return strings.Join(parts, ".")
}

func names(ks []pkey) []string {
	r := make([]string, len(ks))
	for i, k := range ks {
		r[i] = k.Name
	}
	return r
}

func (g *rgen) conds() []cond {
	n := 0
	switch g.r.Intn(10) {
	case 0, 1:
		n = 1
	case 2:
		n = 2
	}
	cs := []cond{}
	seen := map[string]bool{}
	for len(cs) < n {
		c := cond{K: g.keys[g.r.Intn(len(g.keys))], Neg: g.r.Intn(3) == 0}
		switch g.r.Intn(5) {
		case 0:
			c.Kind, c.V = "star", "*"
		case 1:
			c.Kind, c.V = "b", "true"
		case 2:
			c.Kind, c.V = "f", "1"
		default:
			c.Kind, c.V = "s", []string{"x", "y"}[g.r.Intn(2)]
		}
		id := fmt.Sprint(c.Neg, c.K)
		if seen[id] {
			continue
		}
		seen[id] = true
		cs = append(cs, c)
	}
	return cs
}

func tvList(vs []interface{}) []*tagged.TV {
	r := make([]*tagged.TV, len(vs))
	for i, v := range vs {
		r[i] = tagged.FromGo(v)
	}
	return r
}

func hasName(ks []pkey, n string) bool {
	for _, k := range ks {
		if k.Name == n {
			return true
		}
	}
	return false
}

func hasWild(ks []pkey) string {
	for _, k := range ks {
		if k.Name == "*" {
			return "1"
		}
	}
	return "0"
}

func emit(w *bufio.Writer, ev map[string]interface{}) {
	b, err := json.Marshal(ev)
	if err != nil {
		panic(err)
	}
	w.Write(b)
	w.WriteByte('\n')
}

func recordPath(seed int64, n int, w *bufio.Writer, a *Acc) {
	g := &rgen{r: rand.New(rand.NewSource(seed)), keys: []string{"a", "b", "c", "d", "-x", "#text"}}
	events := 0
	nontriv := 0
	var mv mxj.Map
	sessionLeft := 0
	for events < n {
		if sessionLeft == 0 {
			wide := g.r.Intn(3) == 0
			mv = mxj.Map(g.mapv(3+g.r.Intn(3), wide))
			emit(w, map[string]interface{}{"op": "reset", "m": tagged.FromGo(mv)})
			events++
			sessionLeft = 6 + g.r.Intn(10)
			if events < 4 {
				a.Sample(map[string]interface{}{"op": "reset", "m": tagged.CanonGo(mv)[:min(400, len(tagged.CanonGo(mv)))]})
			}
			continue
		}
		sessionLeft--
		events++
		m := map[string]interface{}(mv)
		switch g.r.Intn(12) {
		case 0, 1, 2:
			ks := g.randomPath(m, 5, true)
			cs := g.conds()
			vals, err := mv.ValuesForPath(pathString(ks), condStrs(cs, ":")...)
			if err != nil {
				panic(fmt.Sprintf("recorder: ValuesForPath(%q): %v", pathString(ks), err))
			}
			if len(vals) > 0 {
				nontriv++
			}
			emit(w, map[string]interface{}{"op": "vfp", "keys": ks, "conds": cs, "w": hasWild(ks), "r": tvList(vals)})
		case 3:
			key := g.keys[g.r.Intn(len(g.keys))]
			if g.r.Intn(6) == 0 {
				key = "*"
			}
			cs := g.conds()
			vals, err := mv.ValuesForKey(key, condStrs(cs, ":")...)
			if err != nil {
				panic(err)
			}
			if len(vals) > 0 {
				nontriv++
			}
			emit(w, map[string]interface{}{"op": "vfk", "key": key, "conds": cs, "r": tvList(vals)})
		case 4:
			// key search consistency on OBSERVED data: values, paths, values through each path
			key := g.keys[g.r.Intn(len(g.keys))]
			vals, _ := mv.ValuesForKey(key)
			paths := mv.PathsForKey(key)
			if paths == nil {
				paths = []string{}
			}
			pvals := make([][]*tagged.TV, len(paths))
			for i, p := range paths {
				v, _ := mv.ValuesForPath(p)
				pvals[i] = tvList(v)
			}
			sh := mv.PathForKeyShortest(key)
			if len(vals) > 0 {
				nontriv++
			}
			emit(w, map[string]interface{}{"op": "ksearch", "key": key, "r": tvList(vals), "paths": paths, "pvals": pvals, "sh": sh})
		case 5:
			na := g.r.Intn(2) == 0
			dot := g.r.Intn(2) == 0
			mxj.LeafUseDotNotation(dot)
			ln := mv.LeafNodes(na)
			mxj.LeafUseDotNotation(false)
			r := make([]map[string]interface{}, len(ln))
			for i, x := range ln {
				r[i] = map[string]interface{}{"p": x.Path, "v": tagged.FromGo(x.Value)}
			}
			nontriv++
			emit(w, map[string]interface{}{"op": "leaf", "na": na, "dot": dot, "ak": []string{"-x"}, "r": r})
		case 6, 7:
			ks := g.randomPath(m, 4, false)
			key := g.keys[g.r.Intn(len(g.keys))]
			if g.r.Intn(2) == 0 {
				key = ks[len(ks)-1].Name
				if key == "*" {
					key = "a"
				}
			}
			g.fresh++
			val := "N" + strconv.Itoa(g.fresh)
			cs := g.conds()
			if len(cs) > 1 {
				cs = cs[:1]
			}
			cnt, err := mv.UpdateValuesForPath(map[string]interface{}{key: val}, pathString(ks), condStrs(cs, ":")...)
			if err != nil {
				panic(err)
			}
			if cnt > 0 {
				nontriv++
			}
			emit(w, map[string]interface{}{"op": "upd", "key": key, "val": tagged.FromGo(val), "path": names(ks), "conds": cs, "c": cnt, "post": tagged.FromGo(mv)})
			// now and then a two-call sequence: a LIST of records stored under the key at every addressed node (one Go slice
			// in several places), then one of those nodes updated through a sub-key that selects a member of the list
			if g.r.Intn(4) == 0 && events+2 < n {
				g.fresh += 2
				t1, t2 := "L"+strconv.Itoa(g.fresh-1), "L"+strconv.Itoa(g.fresh)
				lv := []interface{}{map[string]interface{}{"s": t1}, map[string]interface{}{"s": t2}}
				cnt, err := mv.UpdateValuesForPath(map[string]interface{}{key: lv}, pathString(ks))
				if err != nil {
					panic(err)
				}
				events++
				emit(w, map[string]interface{}{"op": "upd", "key": key, "val": tagged.FromGo(lv), "path": names(ks), "conds": []cond{}, "c": cnt, "post": tagged.FromGo(mv)})
				// now and then the caller stores the SAME list object at a second place by a call of its own (sharing that is the
				// caller's doing); the call below then REPLACES a member of the list at one node -- a new list there, the caller's
				// object and the other node as they were
				cnt1 := cnt
				if ks2 := g.randomPath(m, 3, false); g.r.Intn(2) == 0 && events+3 < n && hasWild(ks2) == "0" && !hasName(ks2, "s") {
					// (a plain path that does not lead into the list itself; the session ends after this sequence: from here on the
					// Map is not a tree any more, by the caller's own doing)
					beforeB := tagged.CanonGo(mv)
					cntB, errB := mv.UpdateValuesForPath(map[string]interface{}{key: lv}, pathString(ks2))
					if errB != nil {
						panic(errB)
					}
					if tagged.CanonGo(mv) != beforeB { // (a value replaced by an equal one is no event: the frame predicate counts replacements by their difference)
						events++
						emit(w, map[string]interface{}{"op": "upd", "key": key, "val": tagged.FromGo(lv), "path": names(ks2), "conds": []cond{}, "c": cntB, "post": tagged.FromGo(mv)})
						cnt1 += cntB
					}
					sessionLeft = 0
				}
				if ps := mv.PathsForKey(key); cnt1 > 1 && len(ps) > 0 {
					sort.Strings(ps)
					p2 := strings.Split(ps[g.r.Intn(len(ps))], ".")
					g.fresh++
					v2 := "N" + strconv.Itoa(g.fresh)
					c2 := []cond{{K: "s", Kind: "s", V: t1}}
					cnt2, err2 := mv.UpdateValuesForPath(map[string]interface{}{key: v2}, strings.Join(p2, "."), condStrs(c2, ":")...)
					if err2 != nil {
						panic(err2)
					}
					events++
					emit(w, map[string]interface{}{"op": "upd", "key": key, "val": tagged.FromGo(v2), "path": p2, "conds": c2, "c": cnt2, "post": tagged.FromGo(mv)})
				}
			}
		case 8:
			ks := g.plainMapPath(m, 4)
			g.fresh++
			val := "S" + strconv.Itoa(g.fresh)
			out := "ok"
			if p := guard(func() {
				if err := mv.SetValueForPath(val, strings.Join(ks, ".")); err != nil {
					out = "err"
				}
			}); p != "" {
				out = "panic"
			}
			emit(w, map[string]interface{}{"op": "set", "path": ks, "val": tagged.FromGo(val), "out": out, "post": tagged.FromGo(mv)})
		case 9:
			ks := g.plainMapPath(m, 4)
			if len(ks) == 1 && g.r.Intn(3) != 0 {
				events--
				sessionLeft++
				continue // keep most top-level keys alive
			}
			out := "ok"
			if err := mv.Remove(strings.Join(ks, ".")); err != nil {
				out = "err"
			} else {
				nontriv++
			}
			emit(w, map[string]interface{}{"op": "remove", "path": ks, "out": out, "post": tagged.FromGo(mv)})
		case 10:
			ks := g.plainMapPath(m, 4)
			nn := g.keys[g.r.Intn(len(g.keys))]
			if g.r.Intn(2) == 0 {
				nn = "r" + strconv.Itoa(g.r.Intn(3))
			}
			out := "ok"
			if err := mv.RenameKey(strings.Join(ks, "."), nn); err != nil {
				out = "err"
			} else {
				nontriv++
			}
			emit(w, map[string]interface{}{"op": "rename", "path": ks, "new": nn, "out": out, "post": tagged.FromGo(mv)})
		case 11:
			// NewMap with non-wildcard old paths (order of wildcard results is unspecified)
			np := 1 + g.r.Intn(3)
			pairs := []map[string]interface{}{}
			strs := []string{}
			for i := 0; i < np; i++ {
				old := g.randomPath(m, 3, true)
				if hasWild(old) == "1" {
					continue
				}
				nw := []string{"p" + strconv.Itoa(i)}
				if g.r.Intn(2) == 0 {
					nw = append(nw, "q")
				}
				if g.r.Intn(3) == 0 && i > 0 {
					nw[0] = "p0" // shared prefix or overlap
				}
				pairs = append(pairs, map[string]interface{}{"old": old, "new": nw})
				strs = append(strs, pathString(old)+":"+strings.Join(nw, "."))
			}
			before := tagged.CanonGo(mv)
			res, err := mv.NewMap(strs...)
			if err != nil {
				panic(err)
			}
			same := tagged.CanonGo(mv) == before
			emit(w, map[string]interface{}{"op": "newmap", "pairs": pairs, "r": tagged.FromGo(res), "unchanged": same})
		}
	}
	a.Count(events, nontriv)
}

// plainMapPath: a dot-path through nested maps (existing mostly, sometimes missing tail)
func (g *rgen) plainMapPath(m map[string]interface{}, maxLen int) []string {
	var ks []string
	var cur interface{} = m
	n := 1 + g.r.Intn(maxLen)
	for len(ks) < n {
		mm, ok := cur.(map[string]interface{})
		name := g.keys[g.r.Intn(len(g.keys))]
		if ok && len(mm) > 0 && g.r.Intn(6) != 0 {
			name = sortedKeys(mm)[g.r.Intn(len(mm))]
		}
		ks = append(ks, name)
		if ok {
			cur = mm[name]
		} else {
			cur = nil
		}
	}
	return ks
}

// sortedKeys makes the recorder's choices a function of the seed only
func sortedKeys(m map[string]interface{}) []string {
	ks := make([]string, 0, len(m))
	for k := range m {
		ks = append(ks, k)
	}
	sort.Strings(ks)
	return ks
}

func min(a, b int) int {
	if a < b {
		return a
	}
	return b
}

func init() {
	register("path", &family{record: recordPath, serial: true,
		rule: "one event = one call (ValuesForPath/ValuesForKey/key-search consistency/LeafNodes/UpdateValuesForPath/SetValueForPath/Remove/RenameKey/NewMap) on a live random Map (depth <= 5, lists and maps up to 37 wide), sessions of 6-15 chained calls; non-trivial = non-empty result or successful mutation"})
}

// ---------------------------------------------------------------------------
// isolation re-check of a rejected trace event: the replay case is the session (events
// from the last "reset" up to the rejected one); it is re-executed on the real code and
// the candidate counts as reproduced when the code yields the logged observations again.
// ---------------------------------------------------------------------------
type pathEvent struct {
	Op    string          `json:"op"`
	M     *tagged.TV      `json:"m"`
	Keys  []pkey          `json:"keys"`
	Conds []cond          `json:"conds"`
	W     string          `json:"w"`
	R     json.RawMessage `json:"r"`
	Key   string          `json:"key"`
	Val   *tagged.TV      `json:"val"`
	Path  []string        `json:"path"`
	C     int             `json:"c"`
	Post  *tagged.TV      `json:"post"`
	Out   string          `json:"out"`
	New   string          `json:"new"`
	Na    bool            `json:"na"`
	Dot   bool            `json:"dot"`
	Pairs []struct {
		Old []pkey   `json:"old"`
		New []string `json:"new"`
	} `json:"pairs"`
	Unchanged bool `json:"unchanged"`
}

func replayPathSession(line []byte, a *Acc) {
	var c struct {
		Session []pathEvent `json:"session"`
	}
	if err := json.Unmarshal(line, &c); err != nil {
		panic(err)
	}
	var mv mxj.Map
	same := true
	note := ""
	var lastList interface{}
	lastListNorm := "-"
	for i, e := range c.Session {
		last := i == len(c.Session)-1
		switch e.Op {
		case "reset":
			mv = e.M.ToMap()
		case "vfp", "vfk":
			var vals []interface{}
			if e.Op == "vfp" {
				vals, _ = mv.ValuesForPath(pathString(e.Keys), condStrs(e.Conds, ":")...)
			} else {
				vals, _ = mv.ValuesForKey(e.Key, condStrs(e.Conds, ":")...)
			}
			var logged []*tagged.TV
			json.Unmarshal(e.R, &logged)
			if last && !tagged.SameBag(tagged.CanonList(vals), tagged.NormList(logged)) {
				same = false
			}
			note = fmt.Sprintf("%s(%s %s %v) = %v", e.Op, pathString(e.Keys), e.Key, condStrs(e.Conds, ":"), tagged.CanonList(vals))
		case "ksearch", "leaf", "newmap":
			// observation-only events: re-execution is the same deterministic call
			note = e.Op
		case "upd":
			// (the recorder passes ONE list object in consecutive calls that store the same list: so does the re-execution)
			nv := e.Val.ToGo()
			if _, isList := nv.([]interface{}); isList && e.Val.Norm() == lastListNorm {
				nv = lastList
			} else if isList {
				lastList, lastListNorm = nv, e.Val.Norm()
			}
			n, _ := mv.UpdateValuesForPath(map[string]interface{}{e.Key: nv}, strings.Join(e.Path, "."), condStrs(e.Conds, ":")...)
			if tagged.CanonGo(mv) != e.Post.Norm() || n != e.C {
				same = false
			}
			note = fmt.Sprintf("UpdateValuesForPath({%s:%s}, %q, %v) = %d", e.Key, e.Val.Norm(), strings.Join(e.Path, "."), condStrs(e.Conds, ":"), n)
		case "set":
			guard(func() { mv.SetValueForPath(e.Val.ToGo(), strings.Join(e.Path, ".")) })
			if e.Out != "panic" && tagged.CanonGo(mv) != e.Post.Norm() {
				same = false
			}
			note = "SetValueForPath " + strings.Join(e.Path, ".")
		case "remove":
			mv.Remove(strings.Join(e.Path, "."))
			if tagged.CanonGo(mv) != e.Post.Norm() {
				same = false
			}
			note = "Remove " + strings.Join(e.Path, ".")
		case "rename":
			mv.RenameKey(strings.Join(e.Path, "."), e.New)
			if tagged.CanonGo(mv) != e.Post.Norm() {
				same = false
			}
			note = "RenameKey " + strings.Join(e.Path, ".") + " -> " + e.New
		}
	}
	if same {
		a.Mis("trace:path:reproduced", "the real code reproduces the logged observations the specification rejects; last call: "+note, c)
	}
}

func init() { families["path"].replay = replayPathSession }
