package main

import (
	"bufio"
	"bytes"
	"encoding/base64"
	"encoding/json"
	"fmt"
	"math/rand"
	"os"
	"strings"

	mxj "github.com/clbanning/mxj/v2"
	"verif/harness/tagged"
)

// ---------------------------------------------------------------------------
// recorder "xml" (code -> spec, C01/C02/C04/C18): sessions on the real package -- option setter
// calls interleaved with decodes / round trips / sequence round trips of RANDOM documents that are
// larger than the builder's (depth 4, up to 5 children, 3 attributes) -- logged as one event per
// call for validation by Trace_Xml.tla.  A document is logged in the abstract form of MxjXml
// (names, attribute values and texts as character sequences); what the real code is given is one
// of its concrete renderings.
// ---------------------------------------------------------------------------

type xgen struct{ r *rand.Rand }

func chars(s string) []string {
	out := make([]string, 0, len(s))
	for _, c := range s {
		out = append(out, string(c))
	}
	return out
}

var (
	xgElemNames = []xName{{"", chars("a")}, {"", chars("B")}, {"", chars("a-b")}, {"", chars("A_b")}, {"ns", chars("b")}, {"", chars("item")}, {"", chars("Item")}, {"", chars("c")}}
	// attribute names stay distinct under every key folding (the decoder's documented domain)
	xgAttrNames = []xName{{"", chars("x")}, {"", chars("Yy")}, {"", chars("k-z")}, {"", chars("n_m")}, {"p", chars("note")}, {"xml", chars("lang")}}
	xgAttrVals  = []string{"1", " &", "", "v", "'\"", "a b", "<", "q>", "\"", "say \"hi\"", "'"}
	xgTexts     = []string{"v", " v ", "7", "<&", "a b", "x>y", "t", "\tw\n", "it's"}
)

func noName() xName { return xName{P: "", L: []string{}} }

func (g *xgen) elem(depth int) *xNode {
	n := &xNode{K: "e", Nm: xgElemNames[g.r.Intn(len(xgElemNames))], At: []xAttr{}, Ch: []*xNode{}, Tx: []string{}}
	perm := g.r.Perm(len(xgAttrNames))
	for i := 0; i < g.r.Intn(4); i++ {
		n.At = append(n.At, xAttr{Nm: xgAttrNames[perm[i]], V: chars(xgAttrVals[g.r.Intn(len(xgAttrVals))])})
	}
	// at most one non-blank text run, first in its element (domain of C01 and C04)
	if g.r.Intn(2) == 0 {
		n.Ch = append(n.Ch, &xNode{K: "t", Nm: noName(), At: []xAttr{}, Ch: []*xNode{}, Tx: chars(xgTexts[g.r.Intn(len(xgTexts))])})
	}
	comment := false
	if depth > 0 {
		kids := g.r.Intn(6)
		if depth < 3 && kids > 3 {
			kids = 3
		}
		if g.r.Intn(12) == 0 {
			// a WIDE element: 13 to 40 children, identically named siblings interleaved with others
			// (library sort routines switch algorithm above a dozen entries)
			kids = 13 + g.r.Intn(28)
			depth = 1
		}
		for i := 0; i < kids; i++ {
			if !comment && g.r.Intn(12) == 0 {
				comment = true
				n.Ch = append(n.Ch, &xNode{K: "c", Nm: noName(), At: []xAttr{}, Ch: []*xNode{}, Tx: chars([]string{"c", "c&<'", " note "}[g.r.Intn(3)])})
			}
			if g.r.Intn(8) == 0 { // inter-element white space without blanks (keep-spaces domain)
				n.Ch = append(n.Ch, &xNode{K: "t", Nm: noName(), At: []xAttr{}, Ch: []*xNode{}, Tx: []string{"\n"}})
			}
			n.Ch = append(n.Ch, g.elem(depth-1-g.r.Intn(2)))
		}
	}
	return n
}

// a random JSON-shaped value for the encoders (C03 at scale): attribute and text keys of both prefix families, lists incl.
// nested and empty ones, nil, numbers, booleans, strings with special characters
var (
	xgKeys    = []string{"a", "b", "c", "e-f", "-x", "-y", "@y", "#text", "_text", "a"}
	xgStrings = []string{"x", "y <", "&z", "]]>", "'q\"", "", " sp ", "1.5", "t\tab"}
)

func (g *xgen) jscalar() interface{} {
	switch g.r.Intn(9) {
	case 0:
		return true
	case 1:
		return 1.5
	case 2:
		return nil
	case 3:
		return float64(42)
	default:
		return xgStrings[g.r.Intn(len(xgStrings))]
	}
}

func (g *xgen) jvalue(depth int) interface{} {
	if depth <= 0 {
		return g.jscalar()
	}
	switch g.r.Intn(10) {
	case 0, 1, 2, 3:
		return g.jscalar()
	case 4, 5, 6:
		return g.jmap(depth)
	default:
		n := g.r.Intn(4)
		l := make([]interface{}, n)
		for i := range l {
			l[i] = g.jvalue(depth - 1)
		}
		return l
	}
}

func (g *xgen) jmap(depth int) map[string]interface{} {
	n := 1 + g.r.Intn(5)
	m := map[string]interface{}{}
	for i := 0; i < n; i++ {
		k := xgKeys[g.r.Intn(len(xgKeys))]
		v := g.jvalue(depth - 1)
		if (k[0] == '-' || k[0] == '@' || strings.HasSuffix(k, "text")) && g.r.Intn(8) != 0 {
			v = g.jscalar() // attribute / text entries are mostly scalars (a container there is the documented error case)
		}
		m[k] = v
	}
	return m
}

func countElems(n *xNode) int {
	c := 0
	if n.K == "e" {
		c = 1
	}
	for _, k := range n.Ch {
		c += countElems(k)
	}
	return c
}

// the setter calls a session may make (MxjOptions!Calls over the constants of Trace_Xml.cfg)
var xgCalls = func() [][2]string {
	var cs [][2]string
	for _, f := range []string{"IncludeTagSeqNum", "CoerceKeysToLower", "CoerceKeysToSnakeCase", "DecodeSimpleValuesAsMap", "DisableTrimWhiteSpace",
		"XMLEscapeChars", "XMLEscapeCharsDecoder", "XmlCheckIsValid", "CastValuesToBool", "LeafUseDotNotation"} {
		for _, a := range []string{"T", "F", "none"} {
			cs = append(cs, [2]string{f, a})
		}
	}
	for _, p := range []string{"-", "@", ""} {
		cs = append(cs, [2]string{"SetAttrPrefix", p})
	}
	cs = append(cs, [2]string{"PrependAttrWithHyphen", "T"}, [2]string{"PrependAttrWithHyphen", "F"},
		[2]string{"SetGlobalKeyMapPrefix", "#"}, [2]string{"SetGlobalKeyMapPrefix", "_"},
		[2]string{"XmlGoEmptyElemSyntax", "none"}, [2]string{"XmlDefaultEmptyElemSyntax", "none"},
		[2]string{"SetFieldSeparator", "|"}, [2]string{"SetArraySize", "64"})
	return cs
}()

// explicit calls that bring every register back to its default (MxjOptions!RestoreCalls)
func restoreAllOptions() {
	for _, c := range [][2]string{{"SetAttrPrefix", "-"}, {"IncludeTagSeqNum", "F"}, {"CoerceKeysToLower", "F"}, {"CoerceKeysToSnakeCase", "F"},
		{"DisableTrimWhiteSpace", "F"}, {"DecodeSimpleValuesAsMap", "F"}, {"HandleXMPPStreamTag", "F"}, {"CastValuesToInt", "F"},
		{"CastValuesToFloat", "T"}, {"CastValuesToBool", "T"}, {"CastNanInf", "F"}, {"SetCheckTagToSkipFunc", "F"},
		{"XmlDefaultEmptyElemSyntax", "none"}, {"XmlCheckIsValid", "F"}, {"LeafUseDotNotation", "F"}, {"SetFieldSeparator", "none"},
		{"SetArraySize", "0"}, {"SetGlobalKeyMapPrefix", "#"}, {"JsonUseNumber", "F"}, {"XMLEscapeChars", "F"}, {"XMLEscapeCharsDecoder", "F"}} {
		applyCall(c[0], c[1])
	}
}

func recordXml(seed int64, n int, w *bufio.Writer, a *Acc) {
	g := &xgen{r: rand.New(rand.NewSource(seed))}
	defer restoreAllOptions()
	events, nontriv, sessionLeft := 0, 0, 0
	for events < n {
		if sessionLeft == 0 {
			restoreAllOptions()
			emit(w, map[string]interface{}{"op": "reset"})
			events++
			sessionLeft = 6 + g.r.Intn(8)
			continue
		}
		sessionLeft--
		events++
		k := g.r.Intn(10)
		if k < 4 {
			c := xgCalls[g.r.Intn(len(xgCalls))]
			applyCall(c[0], c[1])
			emit(w, map[string]interface{}{"op": "set", "fn": c[0], "arg": c[1]})
			continue
		}
		d := g.elem(2 + g.r.Intn(3))
		if countElems(d) > 3 {
			nontriv++
		}
		variant := g.r.Intn(3)
		// the operation classes asked for (-ops), in turn
		kinds := []string{}
		for _, o := range []string{"dec", "rt", "seq", "encv"} {
			if wantOp(o) {
				kinds = append(kinds, o)
			}
		}
		kind := kinds[g.r.Intn(len(kinds))]
		if kind == "encv" {
			mv := mxj.Map(g.jmap(2 + g.r.Intn(3)))
			tv := tagged.FromGo(map[string]interface{}(mv))
			cv := mxj.VerifOptions()["checkValid"].(bool)
			mxj.XmlCheckIsValid(false)
			b, e1 := mv.Xml()
			mxj.XmlCheckIsValid(cv)
			ev := map[string]interface{}{"op": "encv", "m": tv, "x": string(b), "encerr": cls(e1)}
			if e1 != nil {
				ev["x"] = ""
			}
			if tagged.CanonGo(mv) != tv.Norm() {
				ev["encerr"] = "receiver-modified"
			}
			emit(w, ev)
			continue
		}
		switch {
		case kind == "dec":
			emit(w, observeXml("dec", d, variant))
			if events < 40 && countElems(d) > 4 {
				a.Sample(map[string]interface{}{"op": "dec", "document": string(renderDoc(d, variant)), "options": fmt.Sprint(mxj.VerifOptions()["attrPrefix"], mxj.VerifOptions()["lower"], mxj.VerifOptions()["snake"])})
			}
		case kind == "rt":
			emit(w, observeXml("rt", d, variant))
		default:
			emit(w, observeXml("seq", d, variant))
		}
	}
	a.Count(events, nontriv)
}

// observeXml makes one codec call of the given class on the real package and returns the event to log
func observeXml(kind string, d *xNode, variant int) map[string]interface{} {
	{
		switch {
		case kind == "dec":
			doc := renderDoc(d, variant)
			m, err := mxj.NewMapXml(doc)
			ev := map[string]interface{}{"op": "dec", "d": d, "err": cls(err), "r": tagged.FromGo(map[string]interface{}(m))}
			if err != nil {
				ev["r"] = tagged.FromGo(map[string]interface{}{})
			}
			return ev
		case kind == "rt":
			// decode, encode (compact), decode again; the validity check is set aside for the encode (bytes are compared)
			doc := renderDoc(d, variant)
			m, err := mxj.NewMapXml(doc)
			ev := map[string]interface{}{"op": "rt", "d": d, "err": cls(err), "x": "", "encerr": "ok", "r2": tagged.FromGo(map[string]interface{}{}), "err2": "ok"}
			if err == nil {
				cv := mxj.VerifOptions()["checkValid"].(bool)
				mxj.XmlCheckIsValid(false)
				b, e1 := m.Xml()
				mxj.XmlCheckIsValid(cv)
				ev["x"], ev["encerr"] = string(b), cls(e1)
				if e1 == nil {
					m2, e2 := mxj.NewMapXml(b)
					ev["err2"] = cls(e2)
					if e2 == nil {
						ev["r2"] = tagged.FromGo(map[string]interface{}(m2))
					}
				}
			}
			return ev
		default:
			// sequence codec: the document starts with its root element (no declaration: that is the NoRoot case)
			var sb strings.Builder
			d.render(&sb, variant%2)
			doc := []byte(sb.String())
			// the reader form, on a stream of TWO copies of the document over a reader that only has Read: each call takes one
			rd := hideByteReader{bytes.NewReader(append(append(append([]byte{}, doc...), '\n'), doc...))}
			ms, err := mxj.NewMapXmlSeqReader(rd)
			ev := map[string]interface{}{"op": "seq", "d": d, "err": cls(err), "r": tagged.FromGo(map[string]interface{}{}), "x": "", "encerr": "ok", "twice": "ok"}
			if err == nil {
				ms2, err2 := mxj.NewMapXmlSeqReader(rd)
				if err2 != nil {
					ev["twice"] = "err"
				} else if tagged.CanonGo(map[string]interface{}(ms2)) != tagged.CanonGo(map[string]interface{}(ms)) {
					ev["twice"] = "differs"
				}
			}
			if err == nil {
				ev["r"] = tagged.FromGo(map[string]interface{}(ms))
				cv := mxj.VerifOptions()["checkValid"].(bool)
				mxj.XmlCheckIsValid(false)
				b, e1 := ms.Xml()
				mxj.XmlCheckIsValid(cv)
				ev["x"], ev["encerr"] = string(b), cls(e1)
			}
			return ev
		}
	}
}

// mxjconf rerun xml <replay-file> <trace-out>: the session of a rejected event (with its context sessions) is executed
// AGAIN on the real package and the fresh observations are written as a trace -- for defects that do not repeat the
// same wrong answer (hash iteration order) the verdict is the trace specification's, on the new observations
func rerunXml(args []string) {
	if len(args) < 2 {
		fmt.Fprintln(os.Stderr, "usage: mxjconf rerunxml <replay-file> <trace-out>")
		os.Exit(2)
	}
	b, err := os.ReadFile(args[0])
	if err != nil {
		fmt.Fprintln(os.Stderr, err)
		os.Exit(2)
	}
	var r struct {
		Case json.RawMessage `json:"case"`
		Ctx  []string        `json:"ctx"`
	}
	if err := json.Unmarshal(b, &r); err != nil {
		fmt.Fprintln(os.Stderr, err)
		os.Exit(2)
	}
	lines := r.Ctx
	if len(lines) == 0 {
		lines = []string{string(r.Case)}
	}
	f, _ := os.Create(args[1])
	w := bufio.NewWriter(f)
	defer restoreAllOptions()
	for _, l := range lines {
		var c struct {
			Session []map[string]json.RawMessage `json:"session"`
		}
		if json.Unmarshal([]byte(l), &c) != nil {
			continue
		}
		for _, e := range c.Session {
			var op, fn, arg string
			json.Unmarshal(e["op"], &op)
			switch op {
			case "reset":
				restoreAllOptions()
				emit(w, map[string]interface{}{"op": "reset"})
			case "set":
				json.Unmarshal(e["fn"], &fn)
				json.Unmarshal(e["arg"], &arg)
				applyCall(fn, arg)
				emit(w, map[string]interface{}{"op": "set", "fn": fn, "arg": arg})
			case "dec", "rt", "seq":
				var d xNode
				if json.Unmarshal(e["d"], &d) == nil {
					for variant := 0; variant < 3; variant++ {
						emit(w, observeXml(op, &d, variant))
					}
				}
			}
		}
	}
	w.Flush()
	f.Close()
}

func init() { extraCmds["rerunxml"] = rerunXml }

// replay of a rejected session (mxjconf one): the events are re-executed; reproduced iff the real code
// produces the logged observations again
func replayXmlSession(line []byte, a *Acc) {
	var c struct {
		Session []map[string]json.RawMessage `json:"session"`
	}
	if err := json.Unmarshal(line, &c); err != nil {
		panic(err)
	}
	defer restoreAllOptions()
	same := true
	note := ""
	str := func(r json.RawMessage) string {
		var s string
		json.Unmarshal(r, &s)
		return s
	}
	for i, e := range c.Session {
		last := i == len(c.Session)-1
		op := str(e["op"])
		switch op {
		case "reset":
			restoreAllOptions()
		case "set":
			applyCall(str(e["fn"]), str(e["arg"]))
		case "decx":
			// a call observed in the repository's tests: the logged registers, the original bytes
			var o struct {
				Lower, Snake, Asmap, Keep, Escdec, Tagseq bool
				Apfx, Kpfx                                string
			}
			json.Unmarshal(e["o"], &o)
			decOpt{lower: o.Lower, snake: o.Snake, asmap: o.Asmap, keep: o.Keep, escdec: o.Escdec, tagseq: o.Tagseq, apfx: o.Apfx, kpfx: o.Kpfx}.apply()
			doc, _ := base64.StdEncoding.DecodeString(str(e["doc"]))
			m, err := mxj.NewMapXml(doc)
			var r tagged.TV
			json.Unmarshal(e["r"], &r)
			same = cls(err) == str(e["err"]) && (err != nil || tagged.CanonGo(m) == r.Norm())
			note = "NewMapXml(" + short(string(doc)) + ") = " + short(tagged.CanonGo(m))
		case "dec", "rt", "seq":
			var d xNode
			if err := json.Unmarshal(e["d"], &d); err != nil {
				panic(err)
			}
			if !last {
				continue
			}
			// the logged observation must come back under SOME rendering of the document
			same = false
			for variant := 0; variant < 3 && !same; variant++ {
				switch op {
				case "dec":
					m, err := mxj.NewMapXml(renderDoc(&d, variant))
					var r tagged.TV
					json.Unmarshal(e["r"], &r)
					same = cls(err) == str(e["err"]) && (err != nil || tagged.CanonGo(m) == r.Norm())
					note = "NewMapXml = " + short(tagged.CanonGo(m))
				case "rt":
					m, err := mxj.NewMapXml(renderDoc(&d, variant))
					if err != nil {
						same = cls(err) == str(e["err"])
						continue
					}
					cv := mxj.VerifOptions()["checkValid"].(bool)
					mxj.XmlCheckIsValid(false)
					b, _ := m.Xml()
					mxj.XmlCheckIsValid(cv)
					same = string(b) == str(e["x"])
					note = "Map.Xml = " + string(b)
				case "seq":
					var sb strings.Builder
					d.render(&sb, variant%2)
					ms, err := mxj.NewMapXmlSeq([]byte(sb.String()))
					var r tagged.TV
					json.Unmarshal(e["r"], &r)
					if err != nil {
						same = cls(err) == str(e["err"])
						continue
					}
					cv := mxj.VerifOptions()["checkValid"].(bool)
					mxj.XmlCheckIsValid(false)
					b, _ := ms.Xml()
					mxj.XmlCheckIsValid(cv)
					same = tagged.CanonGo(map[string]interface{}(ms)) == r.Norm() && string(b) == str(e["x"])
					note = "NewMapXmlSeq = " + short(tagged.CanonGo(map[string]interface{}(ms))) + ", MapSeq.Xml = " + string(b)
				}
			}
		}
	}
	if same {
		a.Mis("trace:xml:reproduced", "the real code reproduces the logged observations the specification rejects; last call: "+note, c)
	}
}

func init() {
	register("xml", &family{record: recordXml, replay: replayXmlSession, serial: true,
		rule: "recorded sessions: one event = one setter call or one codec call (NewMapXml; NewMapXml + Map.Xml + NewMapXml; NewMapXmlSeqReader + MapSeq.Xml) on a random document of up to ~40 elements rendered in one of three syntaxes; validated by Trace_Xml.tla against the integrated specification; non-trivial = document with more than three elements"})
}
