package main

import (
	"bytes"
	"encoding/json"
	"fmt"
	"go/ast"
	"go/parser"
	"go/token"
	"io"
	"os"
	"path/filepath"
	"sort"
	"strings"
	"sync"

	mxj "github.com/clbanning/mxj/v2"
	"github.com/clbanning/mxj/v2/j2x"
	"github.com/clbanning/mxj/v2/x2j"
	wrap "github.com/clbanning/mxj/v2/x2j-wrapper"
	"verif/harness/tagged"
)

// ---------------------------------------------------------------------------
// family "legacy" (C20): every exported function of j2x, x2j and x2j-wrapper that has a core
// counterpart is called and compared with (a) the specification's prediction where there is
// one (paths, values, the wrapper's own walkers) and (b) the documented composition executed
// on the real core.  The binding table is checked against the specification's list and against
// the exported identifiers found in the packages' sources.
// ---------------------------------------------------------------------------
type legKey struct {
	Key   string       `json:"key"`
	Paths []string     `json:"paths"`
	Sl    int          `json:"sl"`
	Vals  []*tagged.TV `json:"vals"`
}
type legPath struct {
	P     string       `json:"p"`
	W     string       `json:"w"`
	Core  []*tagged.TV `json:"core"`
	From0 []*tagged.TV `json:"from0"`
	From1 []*tagged.TV `json:"from1"`
	At0   []*tagged.TV `json:"at0"`
	At1   []*tagged.TV `json:"at1"`
}
type legLine struct {
	F     string     `json:"f"`
	M     *tagged.TV `json:"m"`
	Ks    []legKey   `json:"ks"`
	Ps    []legPath  `json:"ps"`
	Bound []string   `json:"bound"`
	Oos   []string   `json:"oos"`
}

var legBindingChecked bool

// exportedFuncs lists the exported top-level functions of a package directory
func exportedFuncs(dir string) []string {
	fset := token.NewFileSet()
	pkgs, err := parser.ParseDir(fset, dir, func(fi os.FileInfo) bool { return !strings.HasSuffix(fi.Name(), "_test.go") }, 0)
	if err != nil {
		return nil
	}
	var out []string
	for _, p := range pkgs {
		for _, f := range p.Files {
			for _, d := range f.Decls {
				if fd, ok := d.(*ast.FuncDecl); ok && fd.Recv == nil && fd.Name.IsExported() {
					out = append(out, fd.Name.Name)
				}
			}
		}
	}
	sort.Strings(out)
	return out
}

// the functions this file actually calls (kept next to the calls below)
var legCalled = map[string]bool{}

func called(name string) { legCalled[name] = true }

func checkBinding(l *legLine, a *Acc) {
	legBindingChecked = true
	repo := os.Getenv("VERIF_REPO")
	if repo == "" {
		repo = "/repo"
	}
	spec := map[string]bool{}
	for _, b := range l.Bound {
		spec[b] = true
	}
	oos := map[string]bool{}
	for _, b := range l.Oos {
		oos[b] = true
	}
	for _, dir := range []string{"j2x", "x2j", "x2j-wrapper"} {
		fns := exportedFuncs(filepath.Join(repo, dir))
		if len(fns) == 0 {
			a.mu.Lock()
			a.Fatal = "cannot parse the sources of " + dir
			a.mu.Unlock()
			return
		}
		for _, fn := range fns {
			if !spec[fn] && !oos[fn] {
				a.Mis("legacy:unbound-export", fmt.Sprintf("%s.%s is exported but neither bound to a core composition in MxjLegacy!Bindings nor listed as out of scope", dir, fn), nil)
			}
		}
	}
}

func sameJSON(a, b []byte) bool {
	var x, y interface{}
	if json.Unmarshal(a, &x) != nil || json.Unmarshal(b, &y) != nil {
		return false
	}
	return tagged.CanonGo(x) == tagged.CanonGo(y)
}

func leafStr(ln []mxj.LeafNode) []string {
	s := make([]string, len(ln))
	for i, l := range ln {
		s[i] = l.Path + "=" + tagged.CanonGo(l.Value)
	}
	sort.Strings(s)
	return s
}

var legacyCharsetOnce sync.Once

// the wrappers decode with the CORE's settings: with the core's XmlCharsetReader set (a pass-through for an ASCII document that
// declares another encoding) every wrapper that takes XML text decodes what the core decodes (the family is serial: no other
// worker decodes meanwhile)
func legacyCharsetCheck() string {
	defer func() { mxj.XmlCharsetReader = nil }()
	mxj.XmlCharsetReader = func(label string, input io.Reader) (io.Reader, error) { return input, nil }
	doc := `<?xml version="1.0" encoding="ISO-8859-1"?><doc k="v"><a>x</a><a>y</a><b><c>7</c></b></doc>`
	cm, cerr := mxj.NewMapXml([]byte(doc))
	if cerr != nil {
		return "" // (the core itself refuses it: nothing to compare)
	}
	want := tagged.CanonGo(map[string]interface{}(cm))
	cj, _ := cm.Json()
	if g, e := wrap.DocToMap(doc); e != nil || tagged.CanonGo(g) != want {
		return fmt.Sprintf("mxj.XmlCharsetReader set, document %q: x2j-wrapper.DocToMap = %s (err %v), NewMapXml gives %s", doc, tagged.CanonGo(g), e, want)
	}
	if g, e := wrap.ByteDocToMap([]byte(doc)); e != nil || tagged.CanonGo(g) != want {
		return fmt.Sprintf("mxj.XmlCharsetReader set, document %q: x2j-wrapper.ByteDocToMap = %s (err %v), NewMapXml gives %s", doc, tagged.CanonGo(g), e, want)
	}
	if g, e := wrap.DocToJson(doc); e != nil || g != string(cj) {
		return fmt.Sprintf("mxj.XmlCharsetReader set, document %q: x2j-wrapper.DocToJson = %s (err %v), the core gives %s", doc, g, e, cj)
	}
	if g, e := wrap.ToMap(strings.NewReader(doc)); e != nil || tagged.CanonGo(g) != want {
		return fmt.Sprintf("mxj.XmlCharsetReader set, document %q: x2j-wrapper.ToMap(reader) = %s (err %v), NewMapXml gives %s", doc, tagged.CanonGo(g), e, want)
	}
	if g, e := wrap.PathsForTag(doc, "c"); e != nil || fmt.Sprint(g) != "[doc.b.c]" {
		return fmt.Sprintf("mxj.XmlCharsetReader set, document %q: x2j-wrapper.PathsForTag(c) = %v (err %v)", doc, g, e)
	}
	if g, e := wrap.ValuesFromTagPath(doc, "doc.a"); e != nil || len(g) != 2 {
		return fmt.Sprintf("mxj.XmlCharsetReader set, document %q: x2j-wrapper.ValuesFromTagPath(doc.a) = %v (err %v)", doc, g, e)
	}
	if g, e := x2j.XmlToMap([]byte(doc)); e != nil || tagged.CanonGo(g) != want {
		return fmt.Sprintf("mxj.XmlCharsetReader set, document %q: x2j.XmlToMap = %s (err %v), NewMapXml gives %s", doc, tagged.CanonGo(g), e, want)
	}
	if g, e := x2j.XmlToJson([]byte(doc)); e != nil || string(g) != string(cj) {
		return fmt.Sprintf("mxj.XmlCharsetReader set, document %q: x2j.XmlToJson = %s (err %v), the core gives %s", doc, g, e, cj)
	}
	return ""
}

func replayLegacy(line []byte, a *Acc) {
	var l legLine
	if err := json.Unmarshal(line, &l); err != nil {
		panic(err)
	}
	if !legBindingChecked {
		checkBinding(&l, a)
	}
	m := map[string]interface{}(l.M.ToMap())
	mv := mxj.Map(m)
	before := tagged.CanonGo(m)
	one := func(sig, detail string) { a.Mis(sig, fmt.Sprintf("Map %s: %s", short(before), detail), l) }
	legacyCharsetOnce.Do(func() {
		if f := legacyCharsetCheck(); f != "" {
			one("legacy:charset-reader", f)
		}
	})
	var hl held
	defer hl.check(func(name, was, now string) {
		one("legacy:result-changed-later", fmt.Sprintf("the bytes returned by %s were %q and read %q after later wrapper calls", name, was, now))
	})
	// value lists returned by the walkers belong to the caller: re-read after all later wrapper calls
	var hf heldFns
	defer hf.check(func(name, was, now string) {
		one("legacy:result-changed-later", fmt.Sprintf("the values returned by %s were %s and read %s after later wrapper calls", name, was, now))
	})
	holdList := func(name string, vs []interface{}) {
		if len(vs) > 0 {
			hf.add(name, func() string { return strings.Join(tagged.CanonList(vs), " ") })
		}
	}
	n := 0
	jdoc, _ := mv.Json()
	mxj.XMLEscapeChars(true)
	defer mxj.XMLEscapeChars(false)
	xdoc, xerr := mv.Xml()
	var xm mxj.Map
	encErr := xerr
	if xerr == nil {
		// the XML side needs a document that can be read back as ONE document: a Map whose only top-level key is
		// an attribute key, or a list of maps (several roots), is outside the domain -- the XML side is skipped
		var raw []byte
		xm, raw, xerr = mxj.NewMapXmlReaderRaw(bytes.NewReader(xdoc))
		if xerr == nil && len(raw) != len(xdoc) {
			xerr = fmt.Errorf("several roots")
		}
	}
	eq := func(name string, got, want interface{}) bool {
		n++
		if fmt.Sprint(got) != fmt.Sprint(want) {
			one("legacy:"+name, fmt.Sprintf("%s = %v, the documented composition gives %v", name, got, want))
			return false
		}
		return true
	}
	bag := func(vs []interface{}) string {
		c := tagged.CanonList(vs)
		sort.Strings(c)
		return strings.Join(c, " ")
	}
	// ------------------------------------------------ j2x (JSON text of the Map; all scalars are strings: identity round trip)
	called("JsonToMap")
	jm, e := j2x.JsonToMap(jdoc)
	eq("j2x.JsonToMap", tagged.CanonGo(jm)+fmt.Sprint(e), before+"<nil>")
	called("MapToJson")
	for _, safe := range []bool{false, true} {
		b1, e1 := j2x.MapToJson(m, safe)
		b2, e2 := mv.Json(safe)
		eq(fmt.Sprintf("j2x.MapToJson(safe=%v)", safe), string(b1)+fmt.Sprint(e1), string(b2)+fmt.Sprint(e2))
	}
	called("JsonToXml")
	b1, e1 := j2x.JsonToXml(jdoc)
	eq("j2x.JsonToXml", string(b1)+cls(e1), string(xdoc)+cls(encErr))
	called("JsonToXmlWriter")
	var w bytes.Buffer
	e1 = j2x.JsonToXmlWriter(jdoc, &w)
	if xerr == nil {
		eq("j2x.JsonToXmlWriter", w.String()+cls(e1), string(xdoc)+"ok")
	}
	called("JsonReaderToXml")
	raw, b1, e1 := j2x.JsonReaderToXml(bytes.NewReader(jdoc))
	if xerr == nil {
		eq("j2x.JsonReaderToXml", string(raw)+"|"+string(b1)+cls(e1), string(jdoc)+"|"+string(xdoc)+"ok")
	}
	called("JsonReaderToXmlWriter")
	w.Reset()
	e1 = j2x.JsonReaderToXmlWriter(bytes.NewReader(jdoc), &w)
	if xerr == nil {
		eq("j2x.JsonReaderToXmlWriter", w.String()+cls(e1), string(xdoc)+"ok")
	}
	if xerr == nil {
		// a stream of two messages on a reader that only has Read: each call takes exactly one message (as the core readers do)
		two := append(append(append([]byte{}, jdoc...), '\n'), jdoc...)
		rd := hideByteReader{bytes.NewReader(two)}
		r1, x1, ea := j2x.JsonReaderToXml(rd)
		r2, x2, eb := j2x.JsonReaderToXml(rd)
		eq("j2x.JsonReaderToXml twice on one stream of two messages", string(r1)+"|"+string(x1)+cls(ea)+"|"+strings.TrimSpace(string(r2))+"|"+string(x2)+cls(eb),
			string(jdoc)+"|"+string(xdoc)+"ok|"+string(jdoc)+"|"+string(xdoc)+"ok")
		rd = hideByteReader{bytes.NewReader(two)}
		var w1, w2 bytes.Buffer
		ea = j2x.JsonReaderToXmlWriter(rd, &w1)
		eb = j2x.JsonReaderToXmlWriter(rd, &w2)
		eq("j2x.JsonReaderToXmlWriter twice on one stream of two messages", w1.String()+cls(ea)+"|"+w2.String()+cls(eb), string(xdoc)+"ok|"+string(xdoc)+"ok")
	}
	// a message whose top-level value is a LIST (of the document twice; of scalars): the bytes forms are NewMapJson then
	// Xml / XmlWriter (the list is wrapped under "object"), the reader forms NewMapJsonReaderRaw then Xml -- each its own composition
	for li, ldoc := range [][]byte{append(append(append(append([]byte("["), jdoc...), ','), jdoc...), ']'), []byte(`[1,"x"]`), []byte(`[]`)} {
		kind := []string{"[doc,doc]", `[1,"x"]`, "[]"}[li]
		lm, lerr := mxj.NewMapJson(ldoc)
		var lx []byte
		lxerr := lerr
		if lerr == nil {
			lx, lxerr = lm.Xml()
		}
		b1, e1 := j2x.JsonToXml(ldoc)
		eq("j2x.JsonToXml on the list message "+kind, string(b1)+cls(e1), string(lx)+cls(lxerr))
		var lw, lw2 bytes.Buffer
		e1 = j2x.JsonToXmlWriter(ldoc, &lw)
		var e2 error = lerr
		if lerr == nil {
			e2 = lm.XmlWriter(&lw2)
		}
		eq("j2x.JsonToXmlWriter on the list message "+kind, lw.String()+cls(e1), lw2.String()+cls(e2))
		jm2, e3 := j2x.JsonToMap(ldoc)
		eq("j2x.JsonToMap on the list message "+kind, canonOrNil(mxj.Map(jm2))+cls(e3), canonOrNil(lm)+cls(lerr))
		rm, rraw, rerr := mxj.NewMapJsonReaderRaw(bytes.NewReader(ldoc))
		var rx []byte
		rxerr := rerr
		if rerr == nil {
			rx, rxerr = rm.Xml()
		}
		raw2, b2, e4 := j2x.JsonReaderToXml(bytes.NewReader(ldoc))
		eq("j2x.JsonReaderToXml on the list message "+kind, string(raw2)+"|"+string(b2)+cls(e4), string(rraw)+"|"+string(rx)+cls(rxerr))
	}
	for _, k := range l.Ks {
		called("JsonPathsForKey")
		ps, e := j2x.JsonPathsForKey(jdoc, k.Key)
		sort.Strings(ps)
		want := append([]string{}, k.Paths...)
		sort.Strings(want)
		eq("j2x.JsonPathsForKey("+k.Key+")", fmt.Sprint(ps, e), fmt.Sprint(want, nil))
		called("JsonPathForKeyShortest")
		sh, _ := j2x.JsonPathForKeyShortest(jdoc, k.Key)
		n++
		if (len(k.Paths) == 0) != (sh == "") || (sh != "" && len(strings.Split(sh, ".")) != k.Sl) {
			one("legacy:j2x.JsonPathForKeyShortest", fmt.Sprintf("key %s: %q, specification: minimal length %d among %v", k.Key, sh, k.Sl, k.Paths))
		}
		called("JsonValuesForKey")
		vs, e := j2x.JsonValuesForKey(jdoc, k.Key)
		wv := tagged.NormList(k.Vals)
		sort.Strings(wv)
		eq("j2x.JsonValuesForKey("+k.Key+")", bag(vs)+fmt.Sprint(e), strings.Join(wv, " ")+"<nil>")
		// x2j-wrapper's own PathsForKey / PathForKeyShortest on the Map itself
		called("PathsForKey")
		wps := wrap.PathsForKey(m, k.Key)
		sort.Strings(wps)
		eq("x2j-wrapper.PathsForKey("+k.Key+")", fmt.Sprint(wps), fmt.Sprint(want))
		called("PathForKeyShortest")
		wsh := wrap.PathForKeyShortest(m, k.Key)
		n++
		if (len(k.Paths) == 0) != (wsh == "") || (wsh != "" && len(strings.Split(wsh, ".")) != k.Sl) {
			one("legacy:x2j-wrapper.PathForKeyShortest", fmt.Sprintf("key %s: %q, specification: minimal length %d among %v", k.Key, wsh, k.Sl, k.Paths))
		}
		if xerr == nil {
			// x2j / wrapper tag forms: differential with the core on the decoded document
			called("XmlPathsForTag")
			called("PathsForTag")
			called("BytePathsForTag")
			cp := xm.PathsForKey(k.Key)
			sort.Strings(cp)
			for name, f := range map[string]func() ([]string, error){
				"x2j.XmlPathsForTag":          func() ([]string, error) { return x2j.XmlPathsForTag(xdoc, k.Key) },
				"x2j-wrapper.PathsForTag":     func() ([]string, error) { return wrap.PathsForTag(string(xdoc), k.Key) },
				"x2j-wrapper.BytePathsForTag": func() ([]string, error) { return wrap.BytePathsForTag(xdoc, k.Key) },
			} {
				got, e := f()
				sort.Strings(got)
				eq(name+"("+k.Key+")", fmt.Sprint(got, e), fmt.Sprint(cp, nil))
			}
			called("XmlPathForTagShortest")
			called("PathForTagShortest")
			called("BytePathForTagShortest")
			csh := xm.PathForKeyShortest(k.Key)
			s1, _ := x2j.XmlPathForTagShortest(xdoc, k.Key)
			s2, _ := wrap.PathForTagShortest(string(xdoc), k.Key)
			s3, _ := wrap.BytePathForTagShortest(xdoc, k.Key)
			for i, s := range []string{s1, s2, s3} {
				n++
				if len(strings.Split(s, ".")) != len(strings.Split(csh, ".")) || (s == "") != (csh == "") {
					one("legacy:tag-shortest", fmt.Sprintf("form %d for key %s = %q, core %q", i, k.Key, s, csh))
				}
			}
			called("XmlValuesForTag")
			xv, e := x2j.XmlValuesForTag(xdoc, k.Key)
			cv, ce := xm.ValuesForKey(k.Key)
			eq("x2j.XmlValuesForTag("+k.Key+")", bag(xv)+fmt.Sprint(e), bag(cv)+fmt.Sprint(ce))
		}
	}
	for _, p := range l.Ps {
		called("JsonValuesForKeyPath")
		vs, e := j2x.JsonValuesForKeyPath(jdoc, p.P)
		want := tagged.NormList(p.Core)
		got := tagged.CanonList(vs)
		if p.W == "1" {
			sort.Strings(want)
			sort.Strings(got)
		}
		holdList("j2x.JsonValuesForKeyPath("+p.P+")", vs)
		eq("j2x.JsonValuesForKeyPath("+p.P+")", fmt.Sprint(got, e), fmt.Sprint(want, nil))
		// the wrapper's own walkers
		called("ValuesFromKeyPath")
		called("ValuesAtKeyPath")
		for i, ga := range []bool{false, true} {
			wf := wrap.ValuesFromKeyPath(m, p.P, ga)
			ef := [][]*tagged.TV{p.From0, p.From1}[i]
			wa := wrap.ValuesAtKeyPath(m, p.P, ga)
			ea := [][]*tagged.TV{p.At0, p.At1}[i]
			g1, w1 := tagged.CanonList(wf), tagged.NormList(ef)
			g2, w2 := tagged.CanonList(wa), tagged.NormList(ea)
			if p.W == "1" {
				sort.Strings(g1)
				sort.Strings(w1)
				sort.Strings(g2)
				sort.Strings(w2)
			}
			holdList(fmt.Sprintf("x2j-wrapper.ValuesFromKeyPath(%s,%v)", p.P, ga), wf)
			holdList(fmt.Sprintf("x2j-wrapper.ValuesAtKeyPath(%s,%v)", p.P, ga), wa)
			eq(fmt.Sprintf("x2j-wrapper.ValuesFromKeyPath(%s,%v)", p.P, ga), fmt.Sprint(g1), fmt.Sprint(w1))
			eq(fmt.Sprintf("x2j-wrapper.ValuesAtKeyPath(%s,%v)", p.P, ga), fmt.Sprint(g2), fmt.Sprint(w2))
		}
		if xerr == nil {
			called("XmlValuesForPath")
			xv, e := x2j.XmlValuesForPath(xdoc, p.P)
			cv, ce := xm.ValuesForPath(p.P)
			eq("x2j.XmlValuesForPath("+p.P+")", bag(xv)+fmt.Sprint(e), bag(cv)+fmt.Sprint(ce))
			called("ValuesFromTagPath")
			called("ReaderValuesFromTagPath")
			called("ValuesAtTagPath")
			t1, e1 := wrap.ValuesFromTagPath(string(xdoc), p.P, true)
			t2, e2 := wrap.ReaderValuesFromTagPath(bytes.NewReader(xdoc), p.P, true)
			c1 := wrap.ValuesFromKeyPath(xm, p.P, true)
			eq("x2j-wrapper.ValuesFromTagPath("+p.P+")", bag(t1)+fmt.Sprint(e1)+bag(t2)+fmt.Sprint(e2), bag(c1)+"<nil>"+bag(c1)+"<nil>")
			t3, e3 := wrap.ValuesAtTagPath(string(xdoc), p.P, true)
			c3 := wrap.ValuesAtKeyPath(xm, p.P, true)
			eq("x2j-wrapper.ValuesAtTagPath("+p.P+")", bag(t3)+fmt.Sprint(e3), bag(c3)+"<nil>")
			holdList("x2j.XmlValuesForPath("+p.P+")", xv)
			holdList("x2j-wrapper.ValuesFromTagPath("+p.P+")", t1)
			holdList("x2j-wrapper.ReaderValuesFromTagPath("+p.P+")", t2)
			holdList("x2j-wrapper.ValuesAtTagPath("+p.P+")", t3)
		}
	}
	// update / new-map / leaf wrappers: differential with the composition on the real core
	firstPath := "a"
	if len(l.Ps) > 0 {
		firstPath = l.Ps[len(l.Ps)/2].P
	}
	called("JsonUpdateValsForPath")
	{
		c := mxj.Map(tagged.DeepCopyGo(m).(map[string]interface{}))
		_, ce := c.UpdateValuesForPath("a:N", firstPath)
		cj, _ := c.Json()
		got, e := j2x.JsonUpdateValsForPath(jdoc, "a:N", firstPath)
		eq("j2x.JsonUpdateValsForPath", string(got)+cls(e), string(cj)+cls(ce))
	}
	{
		// the same on a non-canonical text of the document (indented), with a path that addresses nothing
		jind, _ := mv.JsonIndent("", "  ")
		for _, path := range []string{firstPath, "zz.q", "*.zz.q"} {
			c := mxj.Map(tagged.DeepCopyGo(m).(map[string]interface{}))
			_, ce := c.UpdateValuesForPath("a:N", path, "zz:1")
			cj, _ := c.Json()
			got, e := j2x.JsonUpdateValsForPath(jind, "a:N", path, "zz:1")
			eq("j2x.JsonUpdateValsForPath(indented input, "+path+")", string(got)+cls(e), string(cj)+cls(ce))
		}
	}
	for _, k := range l.Ks {
		if len(k.Paths) == 0 {
			continue
		}
		up := k.Paths[len(k.Paths)-1]
		c := mxj.Map(tagged.DeepCopyGo(m).(map[string]interface{}))
		cn, ce := c.UpdateValuesForPath(k.Key+":N", up)
		if ce != nil || cn == 0 {
			continue
		}
		cj, _ := c.Json()
		got, e := j2x.JsonUpdateValsForPath(jdoc, k.Key+":N", up)
		if !eq("j2x.JsonUpdateValsForPath("+k.Key+":N, "+up+")", string(got)+cls(e), string(cj)+"ok") {
			break
		}
		vs, e := j2x.JsonValuesForKey(jdoc, k.Key)
		cv, cve := mv.ValuesForKey(k.Key)
		lv, _ := j2x.JsonLeafValues(jdoc)
		if !eq("j2x read wrappers after j2x.JsonUpdateValsForPath("+k.Key+":N, "+up+") on the same document", bag(vs)+fmt.Sprint(e)+"|"+bag(lv), bag(cv)+fmt.Sprint(cve)+"|"+bag(mv.LeafValues())) {
			break
		}
	}
	called("JsonNewJson")
	called("JsonNewXml")
	{
		nm, ce := mv.NewMap("a:p", "b:q.r")
		cj, _ := nm.Json()
		cx, cxe := nm.Xml()
		got, e := j2x.JsonNewJson(jdoc, "a:p", "b:q.r")
		eq("j2x.JsonNewJson", string(got)+cls(e), string(cj)+cls(ce))
		gx, e := j2x.JsonNewXml(jdoc, "a:p", "b:q.r")
		eq("j2x.JsonNewXml", string(gx)+cls(e), string(cx)+cls(cxe))
		// key pairs the core refuses (after a pair it accepts): the wrappers report the error, no partial document
		for _, bad := range [][]string{{"a:p", "a:b:c"}, {"a:p", "b:q.*"}, {"a:p", "b:"}, {"a[x]:p"}} {
			_, ce := mv.NewMap(bad...)
			gj, e1 := j2x.JsonNewJson(jdoc, bad...)
			gx, e2 := j2x.JsonNewXml(jdoc, bad...)
			if ce != nil {
				eq(fmt.Sprintf("j2x.JsonNewJson / JsonNewXml with the refused key pairs %v", bad), fmt.Sprintf("%q %s %q %s", gj, cls(e1), gx, cls(e2)), `"" err "" err`)
			}
		}
	}
	called("JsonLeafNodes")
	called("JsonLeafValues")
	called("JsonLeafPath")
	{
		ln, _ := j2x.JsonLeafNodes(jdoc)
		eq("j2x.JsonLeafNodes", fmt.Sprint(leafStr(ln)), fmt.Sprint(leafStr(mv.LeafNodes())))
		lv, _ := j2x.JsonLeafValues(jdoc)
		eq("j2x.JsonLeafValues", bag(lv), bag(mv.LeafValues()))
		lp, _ := j2x.JsonLeafPath(jdoc)
		cp := mv.LeafPaths()
		sort.Strings(lp)
		sort.Strings(cp)
		eq("j2x.JsonLeafPath", fmt.Sprint(lp), fmt.Sprint(cp))
	}
	if xerr == nil {
		called("XmlToMap")
		g, e := x2j.XmlToMap(xdoc)
		eq("x2j.XmlToMap", tagged.CanonGo(g)+cls(e), tagged.CanonGo(xm)+"ok")
		called("MapToXml")
		gx, e := x2j.MapToXml(m)
		eq("x2j.MapToXml", string(gx)+cls(e), string(xdoc)+"ok")
		// the variadic flag is handed on as it is: with none, with one, with more than the documented one
		for _, flags := range [][]bool{{}, {true, false}, {true, true}, {false, true}, {true, false, false}} {
			cj, _ := xm.Json(flags...)
			g1, e1 := x2j.XmlToJson(xdoc, flags...)
			var w1, w2 bytes.Buffer
			g2, e2 := x2j.XmlToJsonWriter(xdoc, &w1, flags...)
			_, g3, e3 := x2j.XmlReaderToJson(bytes.NewReader(xdoc), flags...)
			_, g4, e4 := x2j.XmlReaderToJsonWriter(bytes.NewReader(xdoc), &w2, flags...)
			b5, e5 := j2x.MapToJson(m, flags...)
			c5, _ := mv.Json(flags...)
			eq(fmt.Sprintf("x2j.XmlToJson / XmlToJsonWriter / XmlReaderToJson / XmlReaderToJsonWriter / j2x.MapToJson with the flags %v", flags),
				fmt.Sprint(string(g1), cls(e1), "|", string(g2), cls(e2), "|", string(g3), cls(e3), "|", string(g4), cls(e4), "|", string(b5), cls(e5)),
				fmt.Sprint(string(cj), "ok|", string(cj), "ok|", string(cj), "ok|", string(cj), "ok|", string(c5), "ok"))
		}
		for _, safe := range []bool{false, true} {
			cj, _ := xm.Json(safe)
			called("XmlToJson")
			gj, e := x2j.XmlToJson(xdoc, safe)
			eq(fmt.Sprintf("x2j.XmlToJson(safe=%v)", safe), string(gj)+cls(e), string(cj)+"ok")
			called("XmlToJsonWriter")
			w.Reset()
			gj, e = x2j.XmlToJsonWriter(xdoc, &w, safe)
			eq(fmt.Sprintf("x2j.XmlToJsonWriter(safe=%v)", safe), string(gj)+"|"+w.String()+cls(e), string(cj)+"|"+string(cj)+"ok")
			hl.add(fmt.Sprintf("x2j.XmlToJsonWriter(safe=%v)", safe), gj)
			{
				// ... and another, different, message through the same wrappers while the result is held
				var w0 bytes.Buffer
				x2j.XmlToJsonWriter([]byte(`<other k="v"><x>1</x></other>`), &w0, safe)
				x2j.XmlReaderToJsonWriter(strings.NewReader(`<o2>text</o2>`), &w0, safe)
			}
			called("XmlReaderToJson")
			xr, gj, e := x2j.XmlReaderToJson(bytes.NewReader(xdoc), safe)
			eq(fmt.Sprintf("x2j.XmlReaderToJson(safe=%v)", safe), string(xr)+"|"+string(gj)+cls(e), string(xdoc)+"|"+string(cj)+"ok")
			{
				two := append(append(append([]byte{}, xdoc...), '\n'), xdoc...)
				rd := hideByteReader{bytes.NewReader(two)}
				_, j1, ea := x2j.XmlReaderToJson(rd, safe)
				_, j2, eb := x2j.XmlReaderToJson(rd, safe)
				eq(fmt.Sprintf("x2j.XmlReaderToJson twice on one stream of two messages (safe=%v)", safe), string(j1)+cls(ea)+"|"+string(j2)+cls(eb), string(cj)+"ok|"+string(cj)+"ok")
			}
			{
				// a stream whose tail is not a message (a newline, a comment, an instruction): the call that finds the end hands on
				// what the core's reader consumed on the way, with the core's error
				for _, tail := range []string{"\n", "<!-- c -->", "<?p i?>\n "} {
					st := append(append([]byte{}, xdoc...), tail...)
					rd1, rd2 := hideByteReader{bytes.NewReader(st)}, hideByteReader{bytes.NewReader(st)}
					x2j.XmlReaderToJson(rd1, safe)
					mxj.NewMapXmlReaderRaw(rd2)
					r1, j1, e1 := x2j.XmlReaderToJson(rd1, safe)
					_, r2, e2 := mxj.NewMapXmlReaderRaw(rd2)
					eq(fmt.Sprintf("x2j.XmlReaderToJson at the end of a stream that ends in %q", tail), fmt.Sprintf("%q|%q|%v", r1, j1, e1), fmt.Sprintf("%q|%q|%v", r2, "", e2))
					rd1, rd2 = hideByteReader{bytes.NewReader(st)}, hideByteReader{bytes.NewReader(st)}
					var wa, wb bytes.Buffer
					x2j.XmlReaderToJsonWriter(rd1, &wa, safe)
					mxj.NewMapXmlReaderRaw(rd2)
					r1, j1, e1 = x2j.XmlReaderToJsonWriter(rd1, &wb, safe)
					_, r2, e2 = mxj.NewMapXmlReaderRaw(rd2)
					eq(fmt.Sprintf("x2j.XmlReaderToJsonWriter at the end of a stream that ends in %q", tail), fmt.Sprintf("%q|%q|%q|%v", r1, j1, wb.String(), e1), fmt.Sprintf("%q|%q|%q|%v", r2, "", "", e2))
				}
			}
			called("XmlReaderToJsonWriter")
			w.Reset()
			xr, gj, e = x2j.XmlReaderToJsonWriter(bytes.NewReader(xdoc), &w, safe)
			eq(fmt.Sprintf("x2j.XmlReaderToJsonWriter(safe=%v)", safe), string(xr)+"|"+string(gj)+"|"+w.String()+cls(e), string(xdoc)+"|"+string(cj)+"|"+string(cj)+"ok")
			hl.add(fmt.Sprintf("x2j.XmlReaderToJsonWriter(safe=%v) json", safe), gj)
			hl.add(fmt.Sprintf("x2j.XmlReaderToJsonWriter(safe=%v) raw xml", safe), xr)
		}
		called("XmlUpdateValsForPath")
		{
			c, _ := mxj.NewMapXml(xdoc)
			_, ce := c.UpdateValuesForPath("a:N", firstPath)
			cx, cxe := c.Xml()
			got, e := x2j.XmlUpdateValsForPath(xdoc, "a:N", firstPath)
			if ce == nil {
				eq("x2j.XmlUpdateValsForPath", string(got)+cls(e), string(cx)+cls(cxe))
			}
		}
		// the wrappers are functions of their arguments: an update call that really changes values, followed directly
		// by read wrappers on the byte-identical document, which must still see the ORIGINAL values
		for _, k := range l.Ks {
			cps := xm.PathsForKey(k.Key)
			if len(cps) == 0 {
				continue
			}
			sort.Strings(cps)
			up := cps[len(cps)-1]
			c, _ := mxj.NewMapXml(xdoc)
			cn, ce := c.UpdateValuesForPath(k.Key+":N", up)
			cx, cxe := c.Xml()
			got, e := x2j.XmlUpdateValsForPath(xdoc, k.Key+":N", up)
			if ce != nil || cn == 0 {
				continue
			}
			if !eq("x2j.XmlUpdateValsForPath("+k.Key+":N, "+up+")", string(got)+cls(e), string(cx)+cls(cxe)) {
				break
			}
			xv, e := x2j.XmlValuesForTag(xdoc, k.Key)
			cv, cve := xm.ValuesForKey(k.Key)
			lv, _ := x2j.XmlLeafValues(xdoc)
			pv, _ := x2j.XmlValuesForPath(xdoc, up)
			cpv, _ := xm.ValuesForPath(up)
			g, _ := x2j.XmlToMap(xdoc)
			nj, _ := x2j.XmlNewJson(xdoc, up+":p")
			cnm, _ := xm.NewMap(up + ":p")
			cnj, _ := cnm.Json()
			if !eq("x2j read wrappers after x2j.XmlUpdateValsForPath("+k.Key+":N, "+up+") on the same document",
				bag(xv)+fmt.Sprint(e)+"|"+bag(lv)+"|"+bag(pv)+"|"+tagged.CanonGo(g)+"|"+string(nj),
				bag(cv)+fmt.Sprint(cve)+"|"+bag(xm.LeafValues())+"|"+bag(cpv)+"|"+tagged.CanonGo(xm)+"|"+string(cnj)) {
				break
			}
		}
		// sub-key arguments are the core's: read under the CURRENT field separator, which the wrappers must not second-guess
		for _, sep := range []string{"|", "::"} {
			mxj.SetFieldSeparator(sep)
			for _, k := range l.Ks {
				sk := "b" + sep + "x"
				cv, ce := xm.ValuesForKey(k.Key, sk)
				xv, e := x2j.XmlValuesForTag(xdoc, k.Key, sk)
				eq("x2j.XmlValuesForTag("+k.Key+", "+sk+") under separator "+sep, bag(xv)+cls(e), bag(cv)+cls(ce))
			}
			if len(l.Ps) > 0 {
				pth := l.Ps[len(l.Ps)/2].P
				sk := "a" + sep + "x"
				cv, ce := xm.ValuesForPath(pth, sk)
				xv, e := x2j.XmlValuesForPath(xdoc, pth, sk)
				eq("x2j.XmlValuesForPath("+pth+", "+sk+") under separator "+sep, bag(xv)+cls(e), bag(cv)+cls(ce))
				c, _ := mxj.NewMapXml(xdoc)
				_, ce2 := c.UpdateValuesForPath("a"+sep+"N", pth, sk)
				cx, _ := c.Xml()
				got, e2 := x2j.XmlUpdateValsForPath(xdoc, "a"+sep+"N", pth, sk)
				if ce2 == nil {
					eq("x2j.XmlUpdateValsForPath under separator "+sep, string(got)+cls(e2), string(cx)+"ok")
				}
			}
		}
		mxj.SetFieldSeparator()
		called("XmlNewXml")
		called("XmlNewJson")
		{
			nm, ce := xm.NewMap("a:p", "b:q.r")
			cx, cxe := nm.Xml()
			cj, _ := nm.Json()
			gx, e := x2j.XmlNewXml(xdoc, "a:p", "b:q.r")
			if ce == nil {
				eq("x2j.XmlNewXml", string(gx)+cls(e), string(cx)+cls(cxe))
				gj, e := x2j.XmlNewJson(xdoc, "a:p", "b:q.r")
				eq("x2j.XmlNewJson", string(gj)+cls(e), string(cj)+"ok")
			}
		}
		called("XmlLeafNodes")
		called("XmlLeafValues")
		called("XmlLeafPath")
		{
			ln, _ := x2j.XmlLeafNodes(xdoc)
			eq("x2j.XmlLeafNodes", fmt.Sprint(leafStr(ln)), fmt.Sprint(leafStr(xm.LeafNodes())))
			lv, _ := x2j.XmlLeafValues(xdoc)
			eq("x2j.XmlLeafValues", bag(lv), bag(xm.LeafValues()))
			lp, _ := x2j.XmlLeafPath(xdoc)
			cp := xm.LeafPaths()
			sort.Strings(lp)
			sort.Strings(cp)
			eq("x2j.XmlLeafPath", fmt.Sprint(lp), fmt.Sprint(cp))
		}
		// x2j-wrapper decode forms with and without the cast flag
		for _, r := range []bool{false, true} {
			cm, _ := mxj.NewMapXml(xdoc, r)
			cj, _ := cm.Json()
			cji, _ := cm.JsonIndent("", "  ")
			called("DocToMap")
			g1, _ := wrap.DocToMap(string(xdoc), r)
			called("ByteDocToMap")
			g2, _ := wrap.ByteDocToMap(xdoc, r)
			called("ToMap")
			g3, _ := wrap.ToMap(bytes.NewReader(xdoc), r)
			called("XmlBufferToMap")
			g4, _ := wrap.XmlBufferToMap(bytes.NewBuffer(append([]byte{}, xdoc...)), r)
			eq(fmt.Sprintf("x2j-wrapper.DocToMap/ByteDocToMap/ToMap/XmlBufferToMap(cast=%v)", r),
				tagged.CanonGo(g1)+tagged.CanonGo(g2)+tagged.CanonGo(g3)+tagged.CanonGo(g4), strings.Repeat(tagged.CanonGo(cm), 4))
			called("DocToJson")
			s1, _ := wrap.DocToJson(string(xdoc), r)
			called("ByteDocToJson")
			s2, _ := wrap.ByteDocToJson(xdoc, r)
			eq(fmt.Sprintf("x2j-wrapper.DocToJson/ByteDocToJson(cast=%v)", r), s1+s2, string(cj)+string(cj))
			called("DocToJsonIndent")
			s3, _ := wrap.DocToJsonIndent(string(xdoc), r)
			eq(fmt.Sprintf("x2j-wrapper.DocToJsonIndent(cast=%v)", r), s3, string(cji))
			called("ToJson")
			called("ToJsonIndent")
			called("XmlBufferToJson")
			s4, _ := wrap.ToJson(bytes.NewReader(xdoc), r)
			s5, _ := wrap.ToJsonIndent(bytes.NewReader(xdoc), r)
			s6, _ := wrap.XmlBufferToJson(bytes.NewBuffer(append([]byte{}, xdoc...)), r)
			n++
			if !sameJSON([]byte(s4), cj) || !sameJSON([]byte(s5), cj) || !sameJSON([]byte(s6), cj) {
				one("legacy:x2j-wrapper.ToJson", fmt.Sprintf("ToJson/ToJsonIndent/XmlBufferToJson(cast=%v) = %q / %q / %q, core gives %q", r, s4, s5, s6, cj))
			}
		}
		// message handlers: one call per document, in order, stop on false
		called("XmlMsgsFromReader")
		called("XmlMsgsFromReaderAsJson")
		called("XmlMsgsFromFile")
		called("XmlMsgsFromFileAsJson")
		stream := append(append(append([]byte{}, xdoc...), '\n'), xdoc...)
		var seen []string
		wrap.XmlMsgsFromReader(bytes.NewReader(stream), func(mm map[string]interface{}) bool { seen = append(seen, tagged.CanonGo(mm)); return true }, func(error) bool { return false })
		eq("x2j-wrapper.XmlMsgsFromReader", strings.Join(seen, "|"), tagged.CanonGo(xm)+"|"+tagged.CanonGo(xm))
		seen = nil
		wrap.XmlMsgsFromReader(bytes.NewReader(stream), func(mm map[string]interface{}) bool { seen = append(seen, "m"); return false }, func(error) bool { return false })
		eq("x2j-wrapper.XmlMsgsFromReader(stop)", strings.Join(seen, "|"), "m")
		var js []string
		cj, _ := xm.Json()
		wrap.XmlMsgsFromReaderAsJson(bytes.NewReader(stream), func(s string) bool { js = append(js, s); return true }, func(error) bool { return false })
		n++
		if len(js) != 2 || !sameJSON([]byte(js[0]), cj) || !sameJSON([]byte(js[1]), cj) {
			one("legacy:x2j-wrapper.XmlMsgsFromReaderAsJson", fmt.Sprintf("handler saw %q, core JSON %q twice", js, cj))
		}
		dir, _ := os.MkdirTemp("", "mxjleg")
		fn := filepath.Join(dir, "f.xml")
		os.WriteFile(fn, stream, 0o644)
		seen = nil
		wrap.XmlMsgsFromFile(fn, func(mm map[string]interface{}) bool { seen = append(seen, tagged.CanonGo(mm)); return true }, func(error) bool { return false })
		eq("x2j-wrapper.XmlMsgsFromFile", strings.Join(seen, "|"), tagged.CanonGo(xm)+"|"+tagged.CanonGo(xm))
		js = nil
		wrap.XmlMsgsFromFileAsJson(fn, func(s string) bool { js = append(js, s); return true }, func(error) bool { return false })
		n++
		if len(js) != 2 || !sameJSON([]byte(js[0]), cj) {
			one("legacy:x2j-wrapper.XmlMsgsFromFileAsJson", fmt.Sprintf("handler saw %q", js))
		}
		os.RemoveAll(dir)
	}
	if tagged.CanonGo(m) != before {
		one("legacy:receiver-modified", "a wrapper modified the Map it was given")
	}
	// every bound function must have been called by this file
	if len(l.Bound) > 0 && xerr == nil {
		for _, b := range l.Bound {
			if !legCalled[b] {
				a.mu.Lock()
				a.Fatal = "legacy: function " + b + " is bound in the specification but never called by the harness"
				a.mu.Unlock()
			}
		}
	}
	a.Count(n, n)
	if len(l.Ps) > 10 && len(l.M.KV) > 1 {
		a.Sample(map[string]interface{}{"map": before, "path": l.Ps[3].P, "core": tagged.NormList(l.Ps[3].Core), "ValuesFromKeyPath_noattrs": tagged.NormList(l.Ps[3].From0), "ValuesAtKeyPath": tagged.NormList(l.Ps[3].At1)})
	}
}

func init() {
	register("legacy", &family{replay: replayLegacy, serial: true,
		rule: "one case = one wrapper call (every exported function of j2x, x2j, x2j-wrapper bound in MxjLegacy!Bindings) compared with the specification's prediction (paths, values, the wrapper's own walkers) or with the documented composition executed on the real core; all cases non-trivial"})
}
