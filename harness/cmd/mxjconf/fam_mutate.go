package main

import (
	"encoding/json"
	"fmt"
	"reflect"
	"strings"
	"sync"

	mxj "github.com/clbanning/mxj/v2"
	"verif/harness/tagged"
)

// ---------------------------------------------------------------------------
// family "upd" (C10): every TLC transition (pre, key, val, path, conds) -> (post, count)
// ---------------------------------------------------------------------------
type updCase struct {
	Key   string     `json:"key"`
	Val   *tagged.TV `json:"val"`
	P     string     `json:"p"`
	Conds []cond     `json:"conds"`
	Post  *tagged.TV `json:"post"`
	C     int        `json:"c"`
}
type updLine struct {
	F  string     `json:"f"`
	M  *tagged.TV `json:"m"`
	Ts []updCase  `json:"ts"`
}

func updShape(p, key string) string {
	segs := strings.Split(p, ".")
	for i, s := range segs {
		if s == "*" {
			continue
		}
		if s == key {
			segs[i] = "K"
		} else {
			segs[i] = "k"
		}
	}
	return strings.Join(segs, ".")
}

func replayUpd(line []byte, a *Acc) {
	var l updLine
	if err := json.Unmarshal(line, &l); err != nil {
		panic(err)
	}
	pre := l.M.Norm()
	nontriv := 0
	ncases := 0
	for _, c := range l.Ts {
		expPost := c.Post.Norm()
		if c.C > 0 {
			nontriv++
		}
		sk := condStrs(c.Conds, ":")
		val := c.Val.ToGo()
		forms := []string{"map", "Map"}
		if s, ok := val.(string); ok && !strings.Contains(s, ":") {
			forms = append(forms, "string")
		}
		for _, form := range forms {
			ncases++
			mv := l.M.ToMap()
			var nv interface{}
			switch form {
			case "map":
				nv = map[string]interface{}{c.Key: tagged.DeepCopyGo(val)}
			case "Map":
				nv = mxj.Map{c.Key: tagged.DeepCopyGo(val)}
			case "string":
				nv = c.Key + ":" + val.(string)
			}
			one := func(sig, detail string) { a.Mis(sig, detail, updLine{F: "upd", M: l.M, Ts: []updCase{c}}) }
			var n int
			var err error
			if p := guard(func() { n, err = mv.UpdateValuesForPath(nv, c.P, sk...) }); p != "" {
				one("upd:panic", fmt.Sprintf("UpdateValuesForPath(%v,%q,%v) on %s: %s", nv, c.P, sk, short(pre), p))
				break
			}
			if err != nil {
				one("upd:error", fmt.Sprintf("UpdateValuesForPath(%v,%q,%v): unexpected error %v", nv, c.P, sk, err))
				break
			}
			got := tagged.CanonGo(mv)
			if got != expPost || n != c.C {
				what := "post"
				if got == expPost {
					what = "count"
				}
				one(fmt.Sprintf("upd:%s-differs:path=%s:conds=%s", what, updShape(c.P, c.Key), condShape(c.Conds)),
					fmt.Sprintf("UpdateValuesForPath(%v,%q,%v) on %s: got count %d post %s; spec count %d post %s", nv, c.P, sk, short(pre), n, short(got), c.C, short(expPost)))
				break
			}
			// the post-state is a value (a tree): no container object sits at two nodes
			if sh := tagged.SharedContainer(mv); sh != "" {
				one("upd:shared-container", fmt.Sprintf("UpdateValuesForPath(%v,%q,%v) on %s: after the call one container object is reachable at %s", nv, c.P, sk, short(pre), sh))
				break
			}
			// read-back clause on the real code
			// (not for a path whose last segment is the EMPTY key: ValuesForPath documents that it drops one trailing empty segment,
			//  so "a." read back is the path "a" -- the two functions address different nodes with that string)
			if c.C > 0 && len(c.Conds) == 0 && strings.HasSuffix("."+c.P, "."+c.Key) && c.Val.T != "l" && c.Key != "" {
				vals, _ := mv.ValuesForPath(c.P)
				ok := len(vals) == c.C
				for _, v := range vals {
					if tagged.CanonGo(v) != c.Val.Norm() {
						ok = false
					}
				}
				if !ok {
					one("upd:readback", fmt.Sprintf("after update ValuesForPath(%q) = %v, expected %d copies of %s", c.P, tagged.CanonList(vals), c.C, c.Val.Norm()))
					break
				}
			}
		}
	}
	a.Count(ncases, nontriv)
	if nontriv > 10 {
		for _, c := range l.Ts {
			if c.C > 1 {
				a.Sample(map[string]interface{}{"pre": pre, "newVal": map[string]string{c.Key: c.Val.Norm()}, "path": c.P, "subkeys": condStrs(c.Conds, ":"), "post": c.Post.Norm(), "count": c.C})
				break
			}
		}
	}
}

// ---------------------------------------------------------------------------
// family "mut" (C11): SetValueForPath / Remove / RenameKey
// ---------------------------------------------------------------------------
type mutOp struct {
	Op   string     `json:"op"`
	P    string     `json:"p"`
	New  string     `json:"new"`
	Val  *tagged.TV `json:"val"`
	Out  string     `json:"out"`
	Post *tagged.TV `json:"post"`
}
type mutLine struct {
	F   string     `json:"f"`
	M   *tagged.TV `json:"m"`
	Ops []mutOp    `json:"ops"`
}

var mutBytesOnce sync.Once

// keys are byte strings: a key that is not valid UTF-8 (an untranscoded Latin-1 name in a hand-built Map), a multi-byte key and an
// ASCII key behave alike -- the instance of RemoveOp / RenameOp / SetOp on {"menu": {K: "x", "ok": "y"}} for each such K
func mutByteKeys(a *Acc) {
	c := mutLine{F: "mut"}
	for _, k := range []string{"caf\xe9", "caf\u00e9", "\xff", "cafe"} {
		mk := func() mxj.Map { return mxj.Map{"menu": map[string]interface{}{k: "x", "ok": "y"}} }
		inner := func(m mxj.Map) map[string]interface{} { return m["menu"].(map[string]interface{}) }
		m := mk()
		err := m.Remove("menu." + k)
		if _, still := inner(m)[k]; err != nil || still || len(inner(m)) != 1 || inner(m)["ok"] != "y" {
			a.Mis("mut:byte-keys:remove", fmt.Sprintf("Remove(%q) on {\"menu\":{%q:\"x\",\"ok\":\"y\"}}: err %v, afterwards menu = %q", "menu."+k, k, err, fmt.Sprint(inner(m))), c)
		}
		m = mk()
		err = m.RenameKey("menu."+k, "coffee")
		if _, still := inner(m)[k]; err != nil || still || len(inner(m)) != 2 || inner(m)["coffee"] != "x" || inner(m)["ok"] != "y" {
			a.Mis("mut:byte-keys:rename", fmt.Sprintf("RenameKey(%q, \"coffee\") on {\"menu\":{%q:\"x\",\"ok\":\"y\"}}: err %v, afterwards menu = %q", "menu."+k, k, err, fmt.Sprint(inner(m))), c)
		}
		m = mk()
		err = m.RenameKey("menu.ok", k+"2")
		if err != nil || len(inner(m)) != 2 || inner(m)[k+"2"] != "y" || inner(m)[k] != "x" {
			a.Mis("mut:byte-keys:rename", fmt.Sprintf("RenameKey(\"menu.ok\", %q) on {\"menu\":{%q:\"x\",\"ok\":\"y\"}}: err %v, afterwards menu = %q", k+"2", k, err, fmt.Sprint(inner(m))), c)
		}
		m = mk()
		err = m.SetValueForPath("N", "menu."+k)
		if err != nil || len(inner(m)) != 2 || inner(m)[k] != "N" || inner(m)["ok"] != "y" {
			a.Mis("mut:byte-keys:set", fmt.Sprintf("SetValueForPath(\"N\", %q) on {\"menu\":{%q:\"x\",\"ok\":\"y\"}}: err %v, afterwards menu = %q", "menu."+k, k, err, fmt.Sprint(inner(m))), c)
		}
		m = mk()
		n, err := m.UpdateValuesForPath(map[string]interface{}{k: "N"}, "menu")
		if err != nil || n != 1 || inner(m)[k] != "N" || inner(m)["ok"] != "y" {
			a.Mis("mut:byte-keys:update", fmt.Sprintf("UpdateValuesForPath({%q:\"N\"}, \"menu\") on {\"menu\":{%q:\"x\",\"ok\":\"y\"}}: %d, err %v, afterwards menu = %q", k, k, n, err, fmt.Sprint(inner(m))), c)
		}
		vs, err := mk().ValuesForPath("menu." + k)
		if err != nil || len(vs) != 1 || vs[0] != "x" {
			a.Mis("mut:byte-keys:query", fmt.Sprintf("ValuesForPath(%q) on {\"menu\":{%q:\"x\",\"ok\":\"y\"}} = %v, err %v", "menu."+k, k, vs, err), c)
		}
	}
}

func replayMut(line []byte, a *Acc) {
	var l mutLine
	if err := json.Unmarshal(line, &l); err != nil {
		panic(err)
	}
	mutBytesOnce.Do(func() { mutByteKeys(a) })
	if l.M == nil {
		return // (the replay case of a byte-key finding: the check has just run again)
	}
	pre := l.M.Norm()
	nontriv := 0
	for _, c := range l.Ops {
		if c.Out == "ok" {
			nontriv++
		}
		mv := l.M.ToMap()
		var err error
		one := func(sig, detail string) { a.Mis(sig, detail, mutLine{F: "mut", M: l.M, Ops: []mutOp{c}}) }
		depth := strings.Count(c.P, ".") + 1
		desc := ""
		pan := guard(func() {
			switch c.Op {
			case "set":
				desc = fmt.Sprintf("SetValueForPath(%s,%q)", c.Val.Norm(), c.P)
				err = mv.SetValueForPath(c.Val.ToGo(), c.P)
			case "remove":
				desc = fmt.Sprintf("Remove(%q)", c.P)
				err = mv.Remove(c.P)
			case "rename":
				desc = fmt.Sprintf("RenameKey(%q,%q)", c.P, c.New)
				err = mv.RenameKey(c.P, c.New)
			}
		})
		if pan != "" {
			one(fmt.Sprintf("mut:%s:panic:depth=%d", c.Op, depth), fmt.Sprintf("%s on %s: %s", desc, short(pre), pan))
			continue
		}
		if c.Out == "skip" {
			continue
		}
		got := "ok"
		if err != nil {
			got = "err"
		}
		post := tagged.CanonGo(mv)
		if got != c.Out || post != c.Post.Norm() {
			top := "nested"
			if depth == 1 {
				top = "top"
			}
			one(fmt.Sprintf("mut:%s:%s:spec=%s:got=%s:post-equal=%v", c.Op, top, c.Out, got, post == c.Post.Norm()),
				fmt.Sprintf("%s on %s: got %s (err=%v) post %s; spec %s post %s", desc, short(pre), got, err, short(post), c.Out, short(c.Post.Norm())))
			continue
		}
		// (a path with an empty segment is read differently by the query side -- a trailing empty segment is dropped there --
		// so the read-back oracles below are for paths of non-empty keys; the comparison with the specification above is for all)
		emptySeg := c.P == "" || strings.HasPrefix(c.P, ".") || strings.HasSuffix(c.P, ".") || strings.Contains(c.P, "..")
		if c.Out == "ok" && post != pre && !emptySeg {
			switch c.Op {
			case "set":
				v, e := mv.ValueForPath(c.P)
				if e != nil || tagged.CanonGo(v) != c.Val.Norm() {
					one("mut:set:readback", fmt.Sprintf("%s: ValueForPath afterwards = %s, %v", desc, tagged.CanonGo(v), e))
				}
				// the value that was set is the value that is there: a container with members of Go types JSON does not keep
				// (int, int64, int32, a nested mxj.Map) reads back deeply equal, types included
				typed := func() interface{} {
					return map[string]interface{}{"i": 7, "i64": int64(8), "m": mxj.Map{"k": "v"}, "l": []interface{}{int32(1), "s"}}
				}
				if e2 := mv.SetValueForPath(typed(), c.P); e2 == nil {
					v2, _ := mv.ValueForPath(c.P)
					if !reflect.DeepEqual(v2, typed()) {
						one("mut:set:readback-typed", fmt.Sprintf("SetValueForPath(<map with int / int64 / mxj.Map / int32 members>, %q): ValueForPath afterwards = %#v", c.P, v2))
					}
				} else {
					one("mut:set:readback-typed", fmt.Sprintf("SetValueForPath(<map with Go-typed members>, %q) failed (%v) where setting %s succeeded", c.P, e2, c.Val.Norm()))
				}
				// read, modify, set back at its own path (a map written over a map -- the very same object): it is there afterwards;
				// and a value that was replaced is left alone (the caller may still hold it)
				if cur, _ := mv.ValueForPath(c.P); cur != nil {
					if cm, isMap := cur.(map[string]interface{}); isMap {
						cm["zz"] = "n"
						want := tagged.CanonGo(cm)
						e3 := mv.SetValueForPath(cm, c.P)
						got, _ := mv.ValueForPath(c.P)
						if e3 != nil || tagged.CanonGo(got) != want {
							one("mut:set:self-assignment", fmt.Sprintf("ValueForPath(%q), one entry added, SetValueForPath of the same map at the same path: afterwards the path holds %s (err %v), the map set was %s", c.P, tagged.CanonGo(got), e3, want))
						}
						held := tagged.CanonGo(cm)
						mv.SetValueForPath(map[string]interface{}{"other": "o"}, c.P)
						if tagged.CanonGo(cm) != held {
							one("mut:set:replaced-value-modified", fmt.Sprintf("SetValueForPath(%q): the map that was replaced reads %s afterwards, it was %s", c.P, tagged.CanonGo(cm), held))
						}
					}
				}
			case "remove":
				if ex, _ := mv.Exists(c.P); ex {
					one("mut:remove:still-exists", desc+": path still exists")
				}
			}
		}
	}
	a.Count(len(l.Ops), nontriv)
	if nontriv > 5 {
		for _, c := range l.Ops {
			if c.Out == "ok" && c.Op == "rename" && strings.Contains(c.P, ".") {
				a.Sample(map[string]interface{}{"pre": pre, "op": c.Op, "path": c.P, "new": c.New, "outcome": c.Out, "post": c.Post.Norm()})
				break
			}
		}
	}
}

// ---------------------------------------------------------------------------
// family "newmap" (C12)
// ---------------------------------------------------------------------------
type nmCase struct {
	Pairs []string   `json:"pairs"`
	Ov    string     `json:"ov"`
	R     *tagged.TV `json:"r"`
}
type nmLine struct {
	F  string     `json:"f"`
	M  *tagged.TV `json:"m"`
	Cs []nmCase   `json:"cs"`
}

func replayNewMap(line []byte, a *Acc) {
	var l nmLine
	if err := json.Unmarshal(line, &l); err != nil {
		panic(err)
	}
	pre := l.M.Norm()
	nontriv := 0
	for ci, c := range l.Cs {
		mv := l.M.ToMap()
		pairs := make([]string, len(c.Pairs))
		copy(pairs, c.Pairs)
		// shorthand "old" for "old:old" on every second case
		if ci%2 == 1 {
			for i, p := range pairs {
				kv := strings.Split(p, ":")
				if len(kv) == 2 && kv[0] == kv[1] {
					pairs[i] = kv[0]
				}
			}
		}
		one := func(sig, detail string) { a.Mis(sig, detail, nmLine{F: "newmap", M: l.M, Cs: []nmCase{c}}) }
		var r mxj.Map
		var err error
		if p := guard(func() { r, err = mv.NewMap(pairs...) }); p != "" {
			one("newmap:panic", fmt.Sprintf("NewMap(%v) on %s: %s", pairs, short(pre), p))
			continue
		}
		var after string
		if p := guard(func() { after = tagged.CanonGo(mv) }); p != "" {
			one("newmap:receiver-cyclic:ov="+c.Ov, fmt.Sprintf("NewMap(%v) on %s: receiver cannot be walked afterwards", pairs, short(pre)))
			continue
		}
		if after != pre {
			one("newmap:receiver-modified:ov="+c.Ov, fmt.Sprintf("NewMap(%v) modified its receiver: %s -> %s", pairs, short(pre), short(after)))
			continue
		}
		if err != nil {
			one("newmap:error", fmt.Sprintf("NewMap(%v): unexpected error %v", pairs, err))
			continue
		}
		if c.Ov == "0" {
			exp := c.R.Norm()
			if len(c.R.KV) > 0 {
				nontriv++
			}
			got := tagged.CanonGo(r)
			if strings.Contains(strings.Join(c.Pairs, " "), "*") {
				// values collected through a wildcard arrive in map-iteration order
				got = tagged.FromGo(r).CanonUnordered()
				exp = tagged.FromGo(c.R.ToGo()).CanonUnordered()
			}
			if got != exp {
				one("newmap:content", fmt.Sprintf("NewMap(%v) on %s = %s, spec %s", pairs, short(pre), short(got), short(exp)))
			}
		}
	}
	a.Count(len(l.Cs), nontriv)
	if nontriv > 10 {
		for _, c := range l.Cs {
			if c.Ov == "0" && len(c.Pairs) == 2 && len(c.R.KV) == 2 {
				a.Sample(map[string]interface{}{"receiver": pre, "pairs": c.Pairs, "result": c.R.Norm()})
				break
			}
		}
	}
	// malformed pairs must be rejected with an error and leave the receiver alone
	mv := l.M.ToMap()
	for _, bad := range []string{"a:b:c", ":new", "old:", "a:b*", "a:b[0]", "a[x]:p", "a[:p",
		// the shorthand "old" stands for "old:old": a wildcard or an index makes the NEW key malformed
		"a.*", "*", "a[0]", "a.b[1]", "*.a", "a[0].b"} {
		var err error
		if p := guard(func() { _, err = mv.NewMap(bad) }); p != "" {
			a.Mis("newmap:malformed-panic", fmt.Sprintf("NewMap(%q): %s", bad, p), nmLine{F: "newmap", M: l.M})
		} else if err == nil {
			a.Mis("newmap:malformed-accepted", fmt.Sprintf("NewMap(%q) returned no error", bad), nmLine{F: "newmap", M: l.M})
		}
		// ... wherever it stands: after pairs that were accepted, after a pair that selected nothing, after an empty argument
		for _, first := range [][]string{{"a:r"}, {"zz:r"}, {"a:r", "", "b:s.t"}} {
			args := append(append([]string{}, first...), bad)
			var e2 error
			if p := guard(func() { _, e2 = mv.NewMap(args...) }); p != "" {
				a.Mis("newmap:malformed-panic", fmt.Sprintf("NewMap(%q): %s", args, p), nmLine{F: "newmap", M: l.M})
			} else if e2 == nil {
				a.Mis("newmap:malformed-accepted-later", fmt.Sprintf("NewMap(%q) returned no error; alone the last pair is refused", args), nmLine{F: "newmap", M: l.M})
			}
		}
	}
	if tagged.CanonGo(mv) != pre {
		a.Mis("newmap:receiver-modified:malformed", "malformed pair modified the receiver", nmLine{F: "newmap", M: l.M})
	}
}

func init() {
	register("upd", &family{replay: replayUpd,
		rule: "one case = (Map, new key, new value, path, sub-key conditions, newVal form map|Map|string); all TLC transitions of UpdateOp; non-trivial = the specification's count is > 0"})
	register("mut", &family{replay: replayMut,
		rule: "one case = (Map, operation set|remove|rename, path, new name/value); non-trivial = the specification's outcome is success"})
	register("newmap", &family{replay: replayNewMap,
		rule: "one case = (Map, list of old:new pairs); receiver compared before/after for every case, content compared when no new path equals or extends another; non-trivial = non-overlapping with non-empty result"})
}
