// Package tagged is the wire form of Go values shared by the TLA+ specification
// and the Go harness:
//
//	{"t":"m","kv":{...}}  map[string]interface{}
//	{"t":"l","it":[...]}  []interface{}
//	{"t":"s","v":"text"}  string
//	{"t":"f"|"b"|"n"|"i"|"i64"|"u64","v":token}  float64, bool, nil, int, int64, uint64
//
// Scalar payloads are always string tokens (TLC cannot hold two value types under
// one record field, and its Json module cannot represent null or non-integers).
package tagged

import (
	"bytes"
	"encoding/json"
	"fmt"
	"math"
	"reflect"
	"sort"
	"strconv"
	"strings"

	mxj "github.com/clbanning/mxj/v2"
)

type TV struct {
	T  string
	V  string
	KV map[string]*TV
	It []*TV
}

type rawTV struct {
	T  string          `json:"t"`
	V  *string         `json:"v"`
	KV json.RawMessage `json:"kv"`
	It json.RawMessage `json:"it"`
}

func (t *TV) UnmarshalJSON(b []byte) error {
	var r rawTV
	if err := json.Unmarshal(b, &r); err != nil {
		return err
	}
	t.T = r.T
	if r.V != nil {
		t.V = *r.V
	}
	switch r.T {
	case "m", "mm":
		t.KV = map[string]*TV{}
		kv := bytes.TrimSpace(r.KV)
		if len(kv) > 0 && kv[0] == '{' {
			if err := json.Unmarshal(kv, &t.KV); err != nil {
				return err
			}
		} else if len(kv) > 0 && string(kv) != "[]" {
			return fmt.Errorf("tagged: bad kv %s", kv)
		}
	case "l", "ls", "lm":
		t.It = []*TV{}
		it := bytes.TrimSpace(r.It)
		if len(it) > 0 && it[0] == '[' {
			if err := json.Unmarshal(it, &t.It); err != nil {
				return err
			}
		} else if len(it) > 0 && string(it) != "{}" {
			return fmt.Errorf("tagged: bad it %s", it)
		}
	}
	return nil
}

func (t *TV) MarshalJSON() ([]byte, error) {
	switch t.T {
	case "m", "mm":
		kv := t.KV
		if kv == nil {
			kv = map[string]*TV{}
		}
		return json.Marshal(struct {
			T  string         `json:"t"`
			KV map[string]*TV `json:"kv"`
		}{t.T, kv})
	case "l", "ls", "lm":
		it := t.It
		if it == nil {
			it = []*TV{}
		}
		return json.Marshal(struct {
			T  string `json:"t"`
			It []*TV  `json:"it"`
		}{t.T, it})
	}
	return json.Marshal(struct {
		T string `json:"t"`
		V string `json:"v"`
	}{t.T, t.V})
}

// Placeholder substitution: the TLA+ side only sees ASCII; a few ASCII tokens stand
// for characters its Json module or TLC strings cannot carry.
var Placeholders = map[string]string{}

func subst(s string) string {
	if len(Placeholders) == 0 {
		return s
	}
	for k, v := range Placeholders {
		s = strings.ReplaceAll(s, k, v)
	}
	return s
}

// ToGo builds the concrete Go value.
func (t *TV) ToGo() interface{} {
	switch t.T {
	case "m":
		m := make(map[string]interface{}, len(t.KV))
		for k, v := range t.KV {
			m[subst(k)] = v.ToGo()
		}
		return m
	case "l":
		l := make([]interface{}, len(t.It))
		for i, v := range t.It {
			l[i] = v.ToGo()
		}
		return l
	case "s":
		return subst(t.V)
	case "f":
		f, err := strconv.ParseFloat(t.V, 64)
		if err != nil {
			panic("tagged: bad float token " + t.V)
		}
		return f
	case "b":
		return t.V == "true"
	case "n":
		return nil
	case "i":
		i, err := strconv.Atoi(t.V)
		if err != nil {
			panic("tagged: bad int token " + t.V)
		}
		return i
	case "i64":
		i, err := strconv.ParseInt(t.V, 10, 64)
		if err != nil {
			panic("tagged: bad int64 token " + t.V)
		}
		return i
	case "u64":
		i, err := strconv.ParseUint(t.V, 10, 64)
		if err != nil {
			panic("tagged: bad uint64 token " + t.V)
		}
		return i
	case "jn":
		return json.Number(t.V)
	// Go-typed values a caller may put into a Map (the decoders never produce them)
	case "i32":
		i, err := strconv.ParseInt(t.V, 10, 32)
		if err != nil {
			panic("tagged: bad int32 token " + t.V)
		}
		return int32(i)
	case "f32":
		f, err := strconv.ParseFloat(t.V, 32)
		if err != nil {
			panic("tagged: bad float32 token " + t.V)
		}
		return float32(f)
	case "by":
		return []byte(subst(t.V))
	case "ls":
		l := make([]string, len(t.It))
		for i, v := range t.It {
			l[i] = subst(v.V)
		}
		return l
	case "mm":
		m := make(mxj.Map, len(t.KV))
		for k, v := range t.KV {
			m[subst(k)] = v.ToGo()
		}
		return m
	case "lm":
		l := make([]map[string]interface{}, len(t.It))
		for i, v := range t.It {
			l[i] = v.ToGo().(map[string]interface{})
		}
		return l
	}
	panic("tagged: unknown tag " + t.T)
}

func (t *TV) ToMap() mxj.Map {
	return mxj.Map(t.ToGo().(map[string]interface{}))
}

func FloatToken(f float64) string {
	if math.IsNaN(f) {
		return "NaN"
	}
	if math.IsInf(f, 1) {
		return "+Inf"
	}
	if math.IsInf(f, -1) {
		return "-Inf"
	}
	return strconv.FormatFloat(f, 'g', -1, 64)
}

// FromGo converts a concrete value to tagged form (placeholders are NOT re-substituted;
// comparison is done on the Go side after ToGo, or on canonical strings of FromGo(ToGo(x))).
func FromGo(v interface{}) *TV { return fromGo(v, 0) }

// MaxDepth bounds the walk so that a cyclic value (a defect some operations can create)
// raises a recoverable panic instead of overflowing the stack.
const MaxDepth = 500

func fromGo(v interface{}, d int) *TV {
	if d > MaxDepth {
		panic("tagged: value deeper than MaxDepth (cyclic?)")
	}
	switch x := v.(type) {
	case nil:
		return &TV{T: "n", V: "nil"}
	case mxj.Map:
		return fromGo(map[string]interface{}(x), d)
	case map[string]interface{}:
		t := &TV{T: "m", KV: make(map[string]*TV, len(x))}
		for k, e := range x {
			t.KV[k] = fromGo(e, d+1)
		}
		return t
	case []interface{}:
		t := &TV{T: "l", It: make([]*TV, len(x))}
		for i, e := range x {
			t.It[i] = fromGo(e, d+1)
		}
		return t
	case string:
		return &TV{T: "s", V: x}
	case float64:
		return &TV{T: "f", V: FloatToken(x)}
	case bool:
		if x {
			return &TV{T: "b", V: "true"}
		}
		return &TV{T: "b", V: "false"}
	case int:
		return &TV{T: "i", V: strconv.Itoa(x)}
	case int64:
		return &TV{T: "i64", V: strconv.FormatInt(x, 10)}
	case uint64:
		return &TV{T: "u64", V: strconv.FormatUint(x, 10)}
	case json.Number:
		return &TV{T: "jn", V: string(x)}
	case int32:
		return &TV{T: "i32", V: strconv.FormatInt(int64(x), 10)}
	case float32:
		return &TV{T: "f32", V: strconv.FormatFloat(float64(x), 'g', -1, 32)}
	case []byte:
		return &TV{T: "by", V: string(x)}
	case []map[string]interface{}:
		t := &TV{T: "l", It: make([]*TV, len(x))}
		for i, e := range x {
			t.It[i] = fromGo(e, d+1)
		}
		return t
	case []string:
		t := &TV{T: "l", It: make([]*TV, len(x))}
		for i, e := range x {
			t.It[i] = fromGo(e, d+1)
		}
		return t
	}
	return &TV{T: "?", V: fmt.Sprintf("%T:%v", v, v)}
}

// SharedContainer reports a map or non-empty list that is reachable by two different paths of v (a Map is a value, a
// TREE: a mutator that stores one container object at several nodes makes later updates through one path change the others).
func SharedContainer(v interface{}) string {
	seen := map[uintptr]string{}
	var walk func(x interface{}, path string) string
	walk = func(x interface{}, path string) string {
		switch c := x.(type) {
		case mxj.Map:
			return walk(map[string]interface{}(c), path)
		case map[string]interface{}:
			p := reflect.ValueOf(c).Pointer()
			if prev, ok := seen[p]; ok {
				return prev + " and " + path
			}
			seen[p] = path
			for k, e := range c {
				if r := walk(e, path+"."+k); r != "" {
					return r
				}
			}
		case []interface{}:
			if len(c) > 0 {
				p := reflect.ValueOf(c).Pointer()
				if prev, ok := seen[p]; ok {
					return prev + " and " + path
				}
				seen[p] = path
			}
			for i, e := range c {
				if r := walk(e, fmt.Sprintf("%s[%d]", path, i)); r != "" {
					return r
				}
			}
		}
		return ""
	}
	return walk(v, "")
}

// InternGo returns a value equal to v in which equal maps and equal non-empty lists are ONE object (the same document, held
// as a graph instead of a tree: what a caller gets who puts one sub-document into a Map at several places).
func InternGo(v interface{}) interface{} {
	pool := map[string]interface{}{}
	var walk func(x interface{}) interface{}
	walk = func(x interface{}) interface{} {
		switch c := x.(type) {
		case mxj.Map:
			return walk(map[string]interface{}(c))
		case map[string]interface{}:
			key := "m" + CanonGo(c)
			if o, ok := pool[key]; ok {
				return o
			}
			n := make(map[string]interface{}, len(c))
			for k, e := range c {
				n[k] = walk(e)
			}
			pool[key] = n
			return n
		case []interface{}:
			if len(c) == 0 {
				return c
			}
			key := "l" + CanonGo(c)
			if o, ok := pool[key]; ok {
				return o
			}
			n := make([]interface{}, len(c))
			for i, e := range c {
				n[i] = walk(e)
			}
			pool[key] = n
			return n
		}
		return x
	}
	return walk(v)
}

// Canon is a deterministic rendering used for equality and as bag key.
func (t *TV) Canon() string {
	var b strings.Builder
	t.canon(&b)
	return b.String()
}

func (t *TV) canon(b *strings.Builder) {
	switch t.T {
	case "m":
		keys := make([]string, 0, len(t.KV))
		for k := range t.KV {
			keys = append(keys, k)
		}
		sort.Strings(keys)
		b.WriteByte('{')
		for i, k := range keys {
			if i > 0 {
				b.WriteByte(',')
			}
			b.WriteString(strconv.Quote(k))
			b.WriteByte(':')
			t.KV[k].canon(b)
		}
		b.WriteByte('}')
	case "l":
		b.WriteByte('[')
		for i, e := range t.It {
			if i > 0 {
				b.WriteByte(',')
			}
			e.canon(b)
		}
		b.WriteByte(']')
	default:
		b.WriteString(t.T)
		b.WriteByte(':')
		b.WriteString(strconv.Quote(t.V))
	}
}

// CanonGo renders a concrete Go value canonically.
func CanonGo(v interface{}) string { return FromGo(v).Canon() }

// Norm maps a spec-side TV through the placeholder substitution to its canonical string.
func (t *TV) Norm() string { return CanonGo(t.ToGo()) }

// SameSeq: element-wise equality of canonical strings.
func SameSeq(a, b []string) bool {
	if len(a) != len(b) {
		return false
	}
	for i := range a {
		if a[i] != b[i] {
			return false
		}
	}
	return true
}

// SameBag: multiset equality of canonical strings.
func SameBag(a, b []string) bool {
	if len(a) != len(b) {
		return false
	}
	m := make(map[string]int, len(a))
	for _, x := range a {
		m[x]++
	}
	for _, x := range b {
		m[x]--
		if m[x] < 0 {
			return false
		}
	}
	return true
}

func CanonList(vs []interface{}) []string {
	r := make([]string, len(vs))
	for i, v := range vs {
		r[i] = CanonGo(v)
	}
	return r
}

func NormList(ts []*TV) []string {
	r := make([]string, len(ts))
	for i, t := range ts {
		r[i] = t.Norm()
	}
	return r
}

// DeepCopyGo copies maps and slices (scalars are immutable).
func DeepCopyGo(v interface{}) interface{} {
	switch x := v.(type) {
	case mxj.Map:
		return mxj.Map(DeepCopyGo(map[string]interface{}(x)).(map[string]interface{}))
	case map[string]interface{}:
		m := make(map[string]interface{}, len(x))
		for k, e := range x {
			m[k] = DeepCopyGo(e)
		}
		return m
	case []interface{}:
		l := make([]interface{}, len(x))
		for i, e := range x {
			l[i] = DeepCopyGo(e)
		}
		return l
	}
	return v
}

// CanonUnordered renders a value with every list sorted (for results whose list order
// depends on Go's map iteration order, e.g. values collected through a wildcard).
func (t *TV) CanonUnordered() string {
	switch t.T {
	case "m":
		keys := make([]string, 0, len(t.KV))
		for k := range t.KV {
			keys = append(keys, k)
		}
		sort.Strings(keys)
		parts := make([]string, len(keys))
		for i, k := range keys {
			parts[i] = strconv.Quote(k) + ":" + t.KV[k].CanonUnordered()
		}
		return "{" + strings.Join(parts, ",") + "}"
	case "l":
		parts := make([]string, len(t.It))
		for i, e := range t.It {
			parts[i] = e.CanonUnordered()
		}
		sort.Strings(parts)
		return "[" + strings.Join(parts, ",") + "]"
	}
	return t.T + ":" + strconv.Quote(t.V)
}
