module verif/harness

go 1.15

require github.com/clbanning/mxj/v2 v2.0.0

replace github.com/clbanning/mxj/v2 => /repo
