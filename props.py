"""Per-property pipelines: which specification/config is model-checked, which behaviours are
replayed on the real code, which recorded traces are validated.  See DESIGN.md section 4."""


def c07(ctx, res):
    cfg = "MC_C07_quick.cfg" if ctx.quick else "MC_C07_thorough.cfg"
    ctx.gen_replay(res, "vfp", "MC_C07.tla", cfg)
    res.assumptions += ["results of wildcard paths are compared as bags (Go map iteration order)",
                        "tagged value codec and token dictionary of the harness"]


PROPS = {
    "C07": c07,
}
