"""Per-property pipelines: which specification/config is model-checked, which behaviours are
replayed on the real code, which recorded traces are validated.  See DESIGN.md section 4."""

# placeholder characters of the "_long" alphabets: "~" is a 36-byte key / name that begins with a two-byte character, "^" a 4.2 KiB
# value -- strings the TLA+ side cannot carry (non-ASCII) or that would be unwieldy there; the harness replaces them in the whole
# line (inputs and expected results alike) when a stage passes subst=SUBST
SUBST = "~=\u00e9" + "k" * 34 + ";;^=" + "v" * 4200


def c07(ctx, res):
    path_trace(ctx, res)
    # the repository's own tests, observed: every such call they make (wrapped methods in a scratch copy) against the specification
    ctx.repo_tests_path_trace(res, ["vfp"])
    cfg = "MC_C07_quick.cfg" if ctx.quick else "MC_C07_thorough.cfg"
    ctx.gen_replay(res, "vfp", "MC_C07.tla", cfg)
    # placeholder alphabets: a 36-byte key that begins with a two-byte character, a 4.2 KiB value (check.SUBST)
    ctx.gen_replay(res, "vfp", "MC_C07.tla", "MC_C07_long.cfg", subst=SUBST)
    if not ctx.quick:
        ctx.gen_replay(res, "vfp", "MC_C07.tla", "MC_C07_thorough2.cfg")
    # every pair of small Maps as sibling list members (state carried between siblings)
    ctx.gen_replay(res, "vfp", "MC_C07.tla", "MC_C07_pairs.cfg" if ctx.quick else "MC_C07_pairs_thorough.cfg")
    ctx.gen_replay(res, "vfpw", "MC_Wide.tla", "MC_Wide_vfp.cfg")
    # four levels deep: every path over the key chain with plain / indexed / wildcard steps (several look-ahead groups)
    ctx.gen_replay(res, "vfpw", "MC_Deep.tla", "MC_Deep.cfg")
    # sessions: SetArraySize histories interleaved with queries on a list wider than the initial capacity
    ctx.gen_replay(res, "mxj", "Mxj.tla", "Mxj_vfp.cfg", procs=4)
    # the query functions depend on no register but the field separator (the key-folding registers are the decoder's): every history
    # of two setter calls, queries on a Map whose keys hold upper-case letters, hyphens and a multi-byte character
    ctx.gen_replay(res, "opts", "MC_C18.tla", "MC_C18_hist2.cfg", workers=8)
    res.assumptions += ["results of wildcard paths are compared as bags (Go map iteration order)",
                        "tagged value codec and token dictionary of the harness"]


def c08(ctx, res):
    path_trace(ctx, res)
    # the repository's own tests, observed: every such call they make (wrapped methods in a scratch copy) against the specification
    ctx.repo_tests_path_trace(res, ["vfk", "ksearch"])
    cfg = "MC_C08_quick.cfg" if ctx.quick else "MC_C08_thorough.cfg"
    ctx.gen_replay(res, "vfk", "MC_C08.tla", cfg)
    ctx.gen_replay(res, "vfk", "MC_C08.tla", "MC_C08_deep.cfg")   # deeper Maps (7 nodes), no conditions
    ctx.gen_replay(res, "vfk", "MC_C08.tla", "MC_C08_nil.cfg")    # members present with a null value, values that differ in case only
    ctx.gen_replay(res, "vfk", "MC_C08.tla", "MC_C08_empty.cfg")  # the empty key as a key (top level too) and as a path segment
    ctx.gen_replay(res, "vfk", "MC_C08.tla", "MC_C08_tiny.cfg")   # numbers of very small magnitude in members and in numeric sub-keys (compared exactly)
    ctx.gen_replay(res, "vfk", "MC_C08.tla", "MC_C08_long.cfg", subst=SUBST)   # a 36-byte key that begins with a two-byte character, a 4.2 KiB value (also as a sub-key value)
    ctx.gen_replay(res, "vfkw", "MC_Wide.tla", "MC_Wide_vfk.cfg")
    # sessions: sub-key STRINGS that are legal under both field separators, every history of SetFieldSeparator calls
    # interleaved with key searches (the condition a string denotes is a function of the separator at the time of the call)
    ctx.gen_replay(res, "mxj", "Mxj.tla", "Mxj_query.cfg" if ctx.quick else "Mxj_query_thorough.cfg", procs=8)
    res.assumptions += ["results of key searches are compared as bags (Go map iteration order)",
                        "sub-key strings are rendered from abstract conditions by the harness, under both field separators"]


def c09(ctx, res):
    path_trace(ctx, res)
    # the repository's own tests, observed: every such call they make (wrapped methods in a scratch copy) against the specification
    ctx.repo_tests_path_trace(res, ["leaf"])
    cfg = "MC_C09_quick.cfg" if ctx.quick else "MC_C09_thorough.cfg"
    ctx.gen_replay(res, "leaf", "MC_C09.tla", cfg)
    ctx.gen_replay(res, "leaf", "MC_C09.tla", "MC_C09_nil.cfg")        # null members as terminal values
    ctx.gen_replay(res, "leaf", "MC_C09.tla", "MC_C09_bracket.cfg")    # a key that holds a closing bracket (only ".", "[" and "*" are excluded from keys)
    ctx.gen_replay(res, "leaf", "MC_C09.tla", "MC_C09_long.cfg", subst=SUBST)   # 36-byte keys that begin with a two-byte character (attribute key too), 4.2 KiB values
    ctx.gen_replay(res, "leaf", "MC_Wide.tla", "MC_Wide_leaf.cfg")     # lists of 33 / 257 / 300 members: subscripts beyond one byte, every path resolved again
    # sessions: every history of LeafUseDotNotation (set / clear / toggle) and SetAttrPrefix calls interleaved with LeafNodes
    ctx.gen_replay(res, "mxj", "Mxj.tla", "Mxj_leaf.cfg" if ctx.quick else "Mxj_leaf_thorough.cfg", procs=8)
    res.assumptions += ["leaf collections are compared as bags", "resolution clause applied to Maps without empty keys and without directly nested lists, [N] notation"]


def c10(ctx, res):
    path_trace(ctx, res)
    # the repository's own tests, observed: every such call they make (wrapped methods in a scratch copy) against the specification
    ctx.repo_tests_path_trace(res, ["upd"])
    cfg = "MC_C10_quick.cfg" if ctx.quick else "MC_C10_thorough.cfg"
    ctx.gen_replay(res, "upd", "MC_C10.tla", cfg)
    ctx.gen_replay(res, "upd", "MC_C10.tla", "MC_C10_empty.cfg")      # the empty key as a key and as a path segment (a..k, .a, a.)
    ctx.gen_replay(res, "upd", "MC_C10.tla", "MC_C10_f32.cfg")       # numeric sub-keys against numbers that differ in double precision only (2^24, 2^24 + 1)
    ctx.gen_replay(res, "upd", "MC_C10.tla", "MC_C10_long.cfg", subst=SUBST)    # 36-byte key that begins with a two-byte character, 4.2 KiB values old and new
    # sessions: new-value STRINGS ("k<sep>v") under every history of SetFieldSeparator calls, separators of one and two characters
    ctx.gen_replay(res, "mxj", "Mxj.tla", "Mxj_upd.cfg", procs=4)
    ctx.gen_replay(res, "mxj", "Mxj.tla", "Mxj_updk.cfg", procs=4)     # ... and sub-key strings of UpdateValuesForPath
    res.assumptions += ["the frame theorem is stated for a fresh new value (occurs nowhere in the Map), so that every replacement is visible to it; the replay also uses a new value equal to values already present (count and post-state from the operational UpdateOp)"]


def c11(ctx, res):
    path_trace(ctx, res)
    # the repository's own tests, observed: every such call they make (wrapped methods in a scratch copy) against the specification
    ctx.repo_tests_path_trace(res, ["set", "remove", "rename"])
    cfg = "MC_C11_quick.cfg" if ctx.quick else "MC_C11_thorough.cfg"
    ctx.gen_replay(res, "mut", "MC_C11.tla", cfg)
    ctx.gen_replay(res, "mut", "MC_C11.tla", "MC_C11_empty.cfg")    # the empty key as a key and as a path segment (leading, inner, trailing), the empty new name
    ctx.gen_replay(res, "mut", "MC_C11.tla", "MC_C11_long.cfg", subst=SUBST)  # 36-byte key / new name that begins with a two-byte character, 4.2 KiB values
    # sessions: the key-folding registers are the decoders'; RenameKey takes the new name literally
    ctx.gen_replay(res, "mxj", "Mxj.tla", "Mxj_rename.cfg", procs=4)
    res.assumptions += ["SetValueForPath whose parent is reached through a list is outside the property's domain: only checked for panics"]


def c12(ctx, res):
    ctx.gen_replay(res, "newmap", "MC_Wide.tla", "MC_Wide_newmap.cfg")        # projections that carry 32 / 33 / 40 / 100 values
    # three key pairs in every order over nested new paths that share a parent
    ctx.gen_replay(res, "newmap", "MC_C12.tla", "MC_C12_three.cfg")
    path_trace(ctx, res)
    # the repository's own tests, observed: every such call they make (wrapped methods in a scratch copy) against the specification
    ctx.repo_tests_path_trace(res, ["newmap"])
    cfg = "MC_C12_quick.cfg" if ctx.quick else "MC_C12_thorough.cfg"
    ctx.gen_replay(res, "newmap", "MC_C12.tla", cfg)
    ctx.gen_replay(res, "newmap", "MC_C12.tla", "MC_C12_nil.cfg")    # null members and null list elements among the values an old path yields
    ctx.gen_replay(res, "newmap", "MC_C12.tla", "MC_C12_long.cfg", subst=SUBST)   # 36-byte names that begin with a two-byte character in old and new paths, 4.2 KiB values
    # sessions: key pairs are split at ':' whatever the field-separator register holds
    ctx.gen_replay(res, "mxj", "Mxj.tla", "Mxj_newmap.cfg", procs=4)
    res.assumptions += ["content compared up to list order when an old path has a wildcard (map iteration order)",
                        "sharing of *values* between result and receiver is inherent to Go maps and not claimed absent; only modification by the NewMap call itself is checked"]


def path_trace(ctx, res):
    """code -> spec for the query/mutation family: random deep and wide Maps, chained sessions"""
    ctx.trace(res, "path", "Trace_Path.tla", "Trace_Path.cfg", n=4000 if ctx.quick else 60000, timeout_s=300 if ctx.quick else 1800)


def xml_trace(ctx, res, ops):
    """code -> spec for the XML codecs: sessions of setter calls and codec calls on random documents (up to ~40 elements),
    recorded from the real package and validated against the integrated specification (Trace_Xml.tla)"""
    ctx.trace(res, "xml", "Trace_Xml.tla", "Trace_Xml.cfg", n=3000 if ctx.quick else 24000, timeout_s=600, extra_args=["-ops", ops], chunk=4000)


def c13(ctx, res):
    t = "quick" if ctx.quick else "thorough"
    for name in ("xml", "json", "xmlh", "jsonh"):
        ctx.gen_replay(res, "stream", "MC_Stream.tla", "MC_Stream_%s_%s.cfg" % (name, t), workers=8)
    # streams cut inside a document (error paths of the same machine)
    ctx.gen_replay(res, "stream", "MC_Stream.tla", "MC_Stream_cut_%s.cfg" % t, workers=8)
    ctx.gen_replay(res, "stream", "MC_Stream.tla", "MC_Stream_jsoncut_quick.cfg", workers=8)
    ctx.gen_replay(res, "file", "MC_Stream.tla", "MC_Stream_files.cfg", workers=4)
    # ... and the file WRITERS ("the file readers/writers inherit this"): what the four writers put into a file -- also over an
    # existing longer file -- is read back as exactly the written documents
    ctx.gen_replay(res, "filert", "MC_C19.tla", "MC_C19_quick.cfg", procs=16)
    # sessions: JsonUseNumber histories; the reader form decodes like NewMapJson
    ctx.gen_replay(res, "mxj", "Mxj.tla", "Mxj_json.cfg", procs=4)
    # the adaptor's no-loss / no-duplication invariant for a stream of ARBITRARY length (Apalache, inductive)
    ctx.apalache_inductive(res, "AdaptorInd.tla")
    res.assumptions += ["AdaptorInd.tla restates the adaptor actions of MxjStream over integers (delivered = count of deliveries) so that Apalache can discharge the invariant for unbounded stream length; it is not bound to the code separately",
                        "encoding/xml finds the end of the root element (document boundaries of XML streams are given by construction)",
                        "Reads are of one byte (the adaptors and getJson always pass a 1-byte buffer), so a schedule is a sequence of per-byte outcomes D/DE/Z/E",
                        "liveness (every call returns) is checked by TLC under weak fairness with the zero-read budget in the state"]


def c18(ctx, res):
    t = "quick" if ctx.quick else "thorough"
    # complete reachable register space: idempotence, toggle meaning, frame, mutual exclusion, restorability
    ctx.check(res, "MC_C18.tla", "MC_C18_full_%s.cfg" % t)
    # every history of two calls, replayed through the public setters
    ctx.gen_replay(res, "opts", "MC_C18.tla", "MC_C18_hist2.cfg", workers=8)
    # seeded random walks of 30 calls
    n = 12 if ctx.quick else 200
    ctx.gen_replay(res, "opts", "MC_C18.tla", "MC_C18_walk.cfg", workers=8,
                   extra=["-simulate", "num=%d" % n, "-depth", "31", "-seed", str(ctx.seed)])
    # integrated specification: random sessions of 24 steps over ALL setters and operations (decode, cast decode, sequence decode, encode, leaf nodes, key search)
    ctx.gen_replay(res, "mxj", "Mxj.tla", "Mxj_walk.cfg", workers=8, procs=8,
                   extra=["-simulate", "num=%d" % (6 if ctx.quick else 150), "-depth", "25", "-seed", str(ctx.seed)])
    # XMPP streams: every history of HandleXMPPStreamTag (set / clear / toggle), key folding, white-space and attribute-prefix setters with the four
    # decoder entry points on a <stream:stream> document in between (the element is returned at its start tag only while the register is on)
    ctx.gen_replay(res, "mxj", "Mxj.tla", "Mxj_xmpp_quick.cfg" if ctx.quick else "Mxj_xmpp.cfg", procs=8)
    ctx.gen_replay(res, "mxj", "Mxj.tla", "Mxj_pfx.cfg", procs=8)      # attribute prefixes of one and two characters: decode, encode, leaf nodes, Elements / Attributes
    # the escaping switch and the validity check are two options: with the check on, a key that is no XML name is refused by all four
    # encoders whatever the escaping switch says (escaping family, check mode)
    ctx.gen_replay(res, "esc", "MC_C05.tla", "MC_C05_quick.cfg", procs=8)
    # tag sequence numbers and simple-values-as-map: documents with a complex root and with a root that holds nothing but text
    ctx.gen_replay(res, "mxj", "Mxj.tla", "Mxj_tagseq.cfg", procs=8)
    # the sequence codec knows no attribute prefix and no case folding: prefixes that a tag may begin with ("_")
    ctx.gen_replay(res, "mxj", "Mxj.tla", "Mxj_seqpfx.cfg", procs=4)
    ctx.gen_replay(res, "mxj", "Mxj.tla", "Mxj_vfp.cfg", procs=4)     # SetArraySize histories: results of queries are the caller's, whatever the size
    # calls of the legacy wrappers in between: they neither depend on more than the core does nor change a register
    ctx.gen_replay(res, "mxj", "Mxj.tla", "Mxj_legacy.cfg", procs=8)
    res.exhaustive = False
    res.assumptions += ["key prefixes are single punctuation characters, attribute prefixes contain no upper-case letters (property's quantifier)",
                        "behavioural probes: one fixed input set per operation class; the probe of a class is checked to be influenced by every register the specification lists for it"]


def c01(ctx, res):
    t = "quick" if ctx.quick else "thorough"
    fams = ["names", "attrs", "attrs2", "texts", "sibs"] + ([] if ctx.quick else ["texts2"])
    for fam in fams:
        ctx.gen_replay(res, "dec", "MC_C01.tla", "MC_C01_%s_%s.cfg" % (fam, t), procs=16)
    # sessions of the integrated specification: every history of key-folding / prefix setters interleaved with decodes
    # (the decoder is a function of the registers at the time of the call: nothing is carried from one decode to the next)
    ctx.gen_replay(res, "mxj", "Mxj.tla", "Mxj_dec.cfg" if ctx.quick else "Mxj_dec_thorough.cfg", procs=8)
    # the white-space switch (its argument-less form DISABLES trimming, it does not toggle) and simple-values-as-map, with both decoders
    ctx.gen_replay(res, "mxj", "Mxj.tla", "Mxj_trim.cfg", procs=8)
    # structure under the cast flag with the integer register on/off (the cast chain itself is C14): repeated simple siblings
    ctx.gen_replay(res, "mxj", "Mxj.tla", "Mxj_castint.cfg", procs=4)
    xml_trace(ctx, res, "dec")
    # the repository's own test suite, observed: every NewMapXml call it makes (hook VerifOnDecode) against the decode specification
    ctx.repo_tests_trace(res)
    res.assumptions += ["encoding/xml as tokenizer (namespace prefixes, entity and CDATA decoding)",
                        "domain notes of DESIGN C01: attribute names distinct after key folding, attribute prefix distinct from the key prefix, under keep-spaces white space BETWEEN an element's other content contains no blanks (a run of blanks that is an element's only character data is in the domain: it is the value), at most one non-blank text run per element",
                        "cast uses the default flags over the texts {7, 1, true}; the full cast chain is C14"]


def c02(ctx, res):
    t = "quick" if ctx.quick else "thorough"
    for fam in ("names", "attrs", "vals", "vals1"):  # (+ vals2 below)
        ctx.gen_replay(res, "enc", "MC_C02.tla", "MC_C02_%s_%s.cfg" % (fam, t), procs=16)
    ctx.gen_replay(res, "enc", "MC_C02.tla", "MC_C02_vals2.cfg", procs=16)      # numerals beyond int64, -Infinity, tab / newline in attribute values
    # sessions: attribute prefixes of one and two characters (attribute names that begin with a character of the prefix), decode and encode
    ctx.gen_replay(res, "mxj", "Mxj.tla", "Mxj_pfx.cfg", procs=8)
    # sessions: the two escaping switches (set / clear / toggle) with decode, encode, sequence round trip and BeautifyXml in between
    ctx.gen_replay(res, "mxj", "Mxj.tla", "Mxj_esc.cfg", procs=8)
    xml_trace(ctx, res, "rt")
    res.assumptions += ["encoding/xml as the definition of well-formedness and as tokenizer of the indented output",
                        "indented output compared with the compact one up to white space that the decoder trims (under keep-spaces: tabs/newlines only; indent string is a tab)",
                        "the non-ASCII placeholder ~ of the specification's alphabet is substituted by a two-byte rune on the Go side"]


def c03(ctx, res):
    ctx.gen_replay(res, "encv", "MC_C03.tla", "MC_C03_quick.cfg" if ctx.quick else "MC_C03_thorough.cfg", procs=8)
    # the same value space under the other attribute / reserved-key prefixes ("@", "_")
    ctx.gen_replay(res, "encv", "MC_C03.tla", "MC_C03_pfx_quick.cfg" if ctx.quick else "MC_C03_pfx_thorough.cfg", procs=8)
    # ... and with NO attribute prefix (SetAttrPrefix("") / PrependAttrWithHyphen(false)): no key is an attribute
    ctx.gen_replay(res, "encv", "MC_C03.tla", "MC_C03_nopfx_quick.cfg" if ctx.quick else "MC_C03_nopfx_thorough.cfg", procs=8)
    ctx.gen_replay(res, "encv", "MC_C03.tla", "MC_C03_attr2.cfg", procs=8)    # up to three attribute entries on one element, empty and non-empty values
    ctx.gen_replay(res, "encv", "MC_C03.tla", "MC_C03_nest.cfg", procs=8)     # lists inside lists, up to three members, seven nodes
    # sessions: attribute prefixes of one and two characters set, replaced and reset through PrependAttrWithHyphen between encodings (and decodes,
    # leaf nodes, Elements / Attributes) of a Map that holds keys for both, a number among them
    ctx.gen_replay(res, "mxj", "Mxj.tla", "Mxj_pfx.cfg", procs=8)
    # Go-typed values a caller may put into a Map (int, int32, int64, float32, json.Number, []byte, []string, []map[string]interface{}):
    # the bytes are those of the untyped value (MC_C03t!TypeUp)
    ctx.gen_replay(res, "encv", "MC_C03t.tla", "MC_C03t_quick.cfg" if ctx.quick else "MC_C03t_thorough.cfg", procs=8)
    # code -> spec: recorded sessions, Map.Xml() of random JSON-shaped values (depth <= 4) under the session's prefixes / escaping / empty-element syntax
    # values under encoder-side escaping: every string over the special-character chunks (a markup-heavy value with ]]> among them),
    # in element, attribute, mixed and list position: exact bytes, well formed, decodes back
    ctx.gen_replay(res, "esc", "MC_C05.tla", "MC_C05_quick.cfg", procs=8)
    xml_trace(ctx, res, "encv")
    # the repository's own tests, observed: every Map.Xml call they make (wrapped method in a scratch copy) against the encoder specification
    ctx.repo_tests_enc_trace(res)
    res.assumptions += ["scalars are rendered by Go's %v; number formatting is trusted (tokens are canonical: 1.5, true)",
                        "domain: the text key and attribute keys hold non-nil scalars; a single top-level key is a valid element name"]


def c04(ctx, res):
    t = "quick" if ctx.quick else "thorough"
    for fam in ("order", "attrs", "extras"):
        ctx.gen_replay(res, "seq", "MC_C04.tla", "MC_C04_%s_%s.cfg" % (fam, t), procs=8)
    if not ctx.quick:
        ctx.gen_replay(res, "seq", "MC_C04.tla", "MC_C04_attrs_quick.cfg", procs=8)     # one element, up to three attributes
    ctx.gen_replay(res, "seq", "MC_C04.tla", "MC_C04_wide.cfg", procs=8)      # lists of four and five like-named siblings, contiguous or interleaved
    ctx.gen_replay(res, "seq", "MC_C04.tla", "MC_C04_longnames.cfg", procs=8)  # names of 33+ characters that agree in their first 32 (prefixed and not)
    ctx.gen_replay(res, "seq", "MC_C04w.tla", "MC_C04w.cfg", procs=4)         # one element with up to 25 attributes and 25 children (two-digit sequence numbers)
    xml_trace(ctx, res, "seq")
    res.assumptions += ["documents start with the root element (a leading declaration or comment is the documented NoRoot result, covered by C15)",
                        "domain: text first in its element, at most one comment / directive / processing instruction per element",
                        "encoding/xml RawToken as tokenizer of the indented outputs"]


def c05(ctx, res):
    ctx.gen_replay(res, "esc", "MC_C05.tla", "MC_C05_quick.cfg" if ctx.quick else "MC_C05_thorough.cfg", procs=8)
    # sessions: every history of the two escaping switches (set / clear / toggle) interleaved with decode, encode and the sequence round trip
    ctx.gen_replay(res, "mxj", "Mxj.tla", "Mxj_esc.cfg", procs=8)
    res.assumptions += ["encoding/xml as the definition of well-formed XML (oracle of the escaping-off / validity-check-on clause)",
                        "decoder-side clause read semantically: numeric references such as &#x41; come back as the character they denote"]


def c06(ctx, res):
    ctx.gen_replay(res, "json", "MC_C06.tla", "MC_C06_quick.cfg" if ctx.quick else "MC_C06_thorough.cfg")
    ctx.gen_replay(res, "jsonin", "MC_C06.tla", "MC_C06_accept.cfg", workers=4)
    # sessions: JsonUseNumber histories with NewMapJson / NewMapJsonReader and Copy in between (no call changes the register)
    ctx.gen_replay(res, "mxj", "Mxj.tla", "Mxj_json.cfg", procs=4)
    res.assumptions += ["encoding/json is the oracle for validity and for the value of the first JSON value of an input",
                        "placeholders ^ (U+0001) and $ (newline) of the specification's alphabet are substituted on the Go side",
                        "JsonUseNumber: a fixed catalogue of numerals compared textually"]


def c14(ctx, res):
    # the catalogue of leaf texts and what each denotes is regenerated from strconv on every run
    ctx.harness_cmd(["castcat", "CastCatalogue.tla"])
    ctx.gen_replay(res, "cast", "MC_C14.tla", "MC_C14.cfg", workers=4)
    # sessions: every history of four cast-register setter calls (set / clear / toggle) and cast decodes of eight leaf texts:
    # the cast of a text is a function of the registers at the time of the decode
    ctx.gen_replay(res, "mxj", "Mxj.tla", "Mxj_cast.cfg", procs=8)
    res.assumptions += ["strconv (ParseInt/ParseUint/ParseFloat/ParseBool) is the ground truth for what a text denotes; the catalogue module is generated from it",
                        "documents in the C01 domain carry the catalogue text in element, attribute and text-key position; structure preservation under the cast flag is part of C01's replay (cast on/off)"]


def c16(ctx, res):
    ctx.gen_replay(res, "det", "MC_C16.tla", "MC_C16_quick.cfg" if ctx.quick else "MC_C16_thorough.cfg", procs=16)
    ctx.gen_replay(res, "det", "MC_C16.tla", "MC_C16_deep.cfg", procs=4)      # content ten levels deep
    ctx.gen_replay(res, "det", "MC_C16.tla", "MC_C16_num.cfg", procs=8)       # numbers and booleans as element content and as text beside attributes
    ctx.gen_replay(res, "seq", "MC_C04w.tla", "MC_C04w.cfg", procs=4)         # MapSeq in SEQUENCE order when there are more than ten entries (exact bytes of the sequence codec)
    # sessions: the DECODER's key-folding / structure registers set, cleared and toggled between encodings of a Map whose keys differ in case only
    # (encoding is a function of the Map and of the encoder registers; ascending BYTE order of keys)
    ctx.gen_replay(res, "mxj", "Mxj.tla", "Mxj_enc.cfg", procs=8)
    res.assumptions += ["hash iteration orders are varied through insertion order and map capacity (0, 1, 16, 200) and three repetitions; Go randomises map iteration per range statement anyway",
                        "indented XML compared with the compact form up to inter-element white space; indented JSON through json.Compact"]


def c17(ctx, res):
    # purity: every read-only method on every Map of the builder's space; Copy aliasing
    ctx.gen_replay(res, "pure", "MC_C17m.tla", "MC_C17m_quick.cfg" if ctx.quick else "MC_C17m_thorough.cfg")
    ctx.gen_replay(res, "pure", "MC_C17m.tla", "MC_C17m_rich.cfg")     # fixed richer Maps: indexed paths into lists of records, sub-keys from the content
    # concurrency: all interleavings of the gate segments (TLC: shared never written, results sequential, termination),
    # enforced on real goroutines by the gate scheduler, under a -race build; plus free-running stress
    for cfg in ("MC_C17_p2.cfg", "MC_C17_p2b.cfg", "MC_C17_p2c.cfg", "MC_C17_p3.cfg"):
        ctx.gen_replay(res, "conc", "MC_C17.tla", cfg, workers=4, race=True)
    res.assumptions += ["data-race freedom is decided by the Go race detector on the replayed schedules and on free-running stress runs, not by TLC; TLC decides the design (no shared variable is written) and enumerates the interleavings",
                        "interleavings are at the granularity of the gate hook points (heads of the recursive walkers and codec loops); finer interleavings are covered by the race detector's happens-before analysis of the free runs",
                        "gob: the harness registers map[string]interface{} and []interface{} (the caller's documented duty)"]


def c15(ctx, res):
    t = "quick" if ctx.quick else "thorough"
    ctx.gen_replay(res, "args", "MC_C15a.tla", "MC_C15a_path_%s.cfg" % t, procs=8)
    ctx.gen_replay(res, "args", "MC_C15a.tla", "MC_C15a_sub_%s.cfg" % t, procs=8)
    ctx.gen_replay(res, "tok", "MC_C15b.tla", "MC_C15b_%s.cfg" % t, procs=16)
    res.assumptions += ["byte-level corruptions are classified by an independent encoding/xml Token() loop (JSON: encoding/json); a disagreement between that oracle and the specification's class of a token-level corruption is a machinery error (exit 2), not an alarm",
                        "the sequence decoder's io.EOF on a document cut inside an element counts as failure",
                        "indexed wildcard steps (*[i]) are order dependent: only checked for no panic and error class"]


def c19(ctx, res):
    t = "quick" if ctx.quick else "thorough"
    # writer half: lists of Maps -> file writers -> matching readers; gob; Copy
    ctx.gen_replay(res, "filert", "MC_C19.tla", "MC_C19_%s.cfg" % t, procs=16)
    # reader half: a file is a stream; whole and cut at every byte offset (profiles of MxjStream)
    ctx.gen_replay(res, "file", "MC_Stream.tla", "MC_Stream_files.cfg", workers=4)
    ctx.gen_replay(res, "stream", "MC_Stream.tla", "MC_Stream_cut_%s.cfg" % t, workers=8)
    ctx.gen_replay(res, "stream", "MC_Stream.tla", "MC_Stream_jsoncut_quick.cfg", workers=8)
    res.assumptions += ["temporary files are created with the os package (on tmpfs when /dev/shm is available) and removed immediately",
                        "Maps are non-empty (the readers skip empty Maps by design); gob values are non-null scalars; the harness registers the container types with encoding/gob"]


def c20(ctx, res):
    ctx.gen_replay(res, "legacy", "MC_C20.tla", "MC_C20_quick.cfg" if ctx.quick else "MC_C20_thorough.cfg", procs=16)
    ctx.gen_replay(res, "legacy", "MC_C20.tla", "MC_C20_deep.cfg", procs=4)     # chains 3 to 10 levels deep with siblings after every hit
    ctx.gen_replay(res, "legacy", "MC_C20.tla", "MC_C20_nest.cfg", procs=16)    # one key, six nodes: lists inside lists with maps inside
    # sessions: the wrappers are the core under the registers in force and leave the registers alone (x2j-wrapper DocToMap with its own
    # CastNanInf flag on; the four j2x JSON -> XML entry points on a non-canonical numeral under JsonUseNumber histories)
    ctx.gen_replay(res, "mxj", "Mxj.tla", "Mxj_legacy.cfg", procs=8)
    res.assumptions += ["j2x/x2j wrappers add no state: the specification lists each with its documented composition (MxjLegacy!Bindings); the harness checks the list against the exported identifiers parsed from the packages' sources and calls every bound function",
                        "the XML side is exercised with the Map's own XML encoding when it is a single readable document; JSON side: string scalars (identity round trip)",
                        "ToJson / ToJsonIndent / XmlBufferToJson use json.Marshal (HTML-safe escapes): compared as JSON values"]


PROPS = {
    "C20": c20,
    "C19": c19,
    "C15": c15,
    "C17": c17,
    "C16": c16,
    "C14": c14,
    "C06": c06,
    "C05": c05,
    "C04": c04,
    "C02": c02,
    "C03": c03,
    "C01": c01,
    "C18": c18,
    "C13": c13,
    "C10": c10,
    "C11": c11,
    "C12": c12,
    "C08": c08,
    "C09": c09,
    "C07": c07,
}
