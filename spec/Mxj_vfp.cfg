SPECIFICATION Spec
CONSTANTS
  AttrPrefixes = {"-"}
  KeyPrefixes = {"#"}
  FieldSeps = {":"}
  ArraySizes = {0, 16, 33, 64}
  ActiveFns = {"SetArraySize"}
  ActiveOps = {"vfp"}
  MaxHist = 4
INVARIANTS Functional OnlyRelevant Emit
CHECK_DEADLOCK FALSE
