SPECIFICATION Spec
CONSTANTS
  Keys = {"a", ""}
  Scalars <- cScalars
  Conts <- cConts
  MaxList = 2
  MaxNodes = 4
  PairNodes = 0
  UpdKeys = {"a", ""}
  PathNames = {"a", "", "*"}
  MaxPath = 3
  NewVals <- cNewVals
  DoEmit = TRUE
INVARIANTS ThmFrame Emit
CHECK_DEADLOCK FALSE
