------------------------------- MODULE MC_C16 -------------------------------
(***************************************************************************)
(* C16: encoders are deterministic and all their variants agree.           *)
(* Encoding is an operator of Map CONTENT (EncodeRoot / JsonOf): here the  *)
(* state is the content together with a construction history (insert,      *)
(* overwrite, delete); every maximal history is printed with the bytes its *)
(* final content must encode to, and replayed into real Go maps of varying *)
(* capacity (hence varying hash iteration orders) through every encoder    *)
(* entry point, repeatedly.                                                *)
(***************************************************************************)
EXTENDS MxjJson, Json
CONSTANTS CKeys, CVals, MaxHist, DoEmit
VARIABLES content, hist
Init == content = EmptyFn /\ hist = <<>>
Put(k, v) == /\ content' = [x \in (DOMAIN content) \cup {k} |-> IF x = k THEN v ELSE content[x]]
             /\ hist' = Append(hist, [op |-> "put", k |-> Join(k), v |-> Jsonable(v)])
Del(k) == /\ k \in DOMAIN content
          /\ content' = [x \in (DOMAIN content) \ {k} |-> content[x]]
          /\ hist' = Append(hist, [op |-> "del", k |-> Join(k), v |-> Jsonable(VS(<<>>))])
TKey == <<"#", "t", "e", "x", "t">>
\* (domain of the encoders: the text key holds a non-empty scalar)
Next == Len(hist) < MaxHist /\ ((\E k \in CKeys, v \in CVals : (k = TKey => IsScalar(v) /\ v # VS(<<>>)) /\ Put(k, v)) \/ (\E k \in CKeys : Del(k)))
Spec == Init /\ [][Next]_<<content, hist>>
EO == [apfx |-> "-", kpfx |-> "#", esc |-> TRUE, goempty |-> FALSE]
RootKey == <<"r">>
Doc == VM(RootKey :> VM(content))
\* equal content => equal encoding: holds because the encoders are operators of content only;
\* stated on the reachable states: the encoding does not depend on the history
ThmFunctionOfContent == RenderCompact(EncodeRoot(Doc, <<>>, EO), EO) = RenderCompact(EncodeRoot(VM(RootKey :> VM([k \in DOMAIN content |-> content[k]])), <<>>, EO), EO)
\* attributes and child elements appear in ascending key order
RECURSIVE Ascending(_)
Ascending(ns) == \A i \in 1..Len(ns) :
   /\ \A j \in 1..(Len(ns[i].at) - 1) : LexLess(ns[i].at[j].nm.l, ns[i].at[j+1].nm.l)
   /\ LET es == SelectSeq(ns[i].ch, IsElem) IN
      /\ \A j \in 1..(Len(es) - 1) : es[j].nm.l = es[j+1].nm.l \/ LexLess(es[j].nm.l, es[j+1].nm.l)
      /\ Ascending(es)
ThmAscending == Ascending(EncodeRoot(Doc, <<>>, EO))
Emit == (DoEmit /\ Len(hist) = MaxHist) =>
   PrintT(ToJson([f |-> "det", hist |-> hist, x |-> Join(RenderCompact(EncodeRoot(Doc, <<>>, EO), EO)),
                  j |-> Join(JsonOf(Doc, FALSE)), js |-> Join(JsonOf(Doc, TRUE))]))
\* ten nested levels, three sub-elements at each (the encoder keeps per-level work areas)
RECURSIVE DeepVal(_)
DeepVal(n) == IF n = 0 THEN VS(<<"x">>) ELSE VM((<<"a">> :> DeepVal(n - 1)) @@ (<<"b">> :> VS(<<"B">>)) @@ (<<"c">> :> VM((<<"p">> :> VS(<<"1">>)) @@ (<<"q">> :> VS(<<"2">>)) @@ (<<"r">> :> VS(<<"3">>)))))
\* numbers and booleans as element content and as text beside attributes (what a cast decode or a JSON decode leaves in a Map)
cKeysNum == {<<"-", "a">>, <<"b">>, TKey}
cValsNum == {VF(<<"1", "2", ".", "5">>), VB(<<"t", "r", "u", "e">>), VS(<<"x">>), VF(<<"-", "0">>), VL(<<>>)}      \* (... and an empty list: an empty element in every variant)
cKeysDeep == {<<"b">>, <<"d">>}
cValsDeep == {DeepVal(10), DeepVal(9), VS(<<"x">>)}
cKeys == {<<"-", "a">>, <<"-", "a", "-", "b">>, <<"-", "d">>, <<"b">>, <<"c">>, <<"b", "b">>, TKey}     \* (with the text key: mixed content; -a is a proper prefix of -a-b and '-' sorts before '=')
cVals == {VS(<<>>), VS(<<"x", "%", "d">>), VS(<<"<", "&", "%", "s">>), VS(<<"\\", "u", "0", "0", "3", "c">>), VM((<<"-", "z">> :> VS(<<"1">>)) @@ (<<"y">> :> VL(<<VS(<<"2">>), VS(<<>>)>>)))}
cValsQ == {VS(<<>>), VS(<<"<", "&", "%", "s">>), VS(<<"\\", "u", "0", "0", "3", "c">>), VM((<<"-", "z">> :> VS(<<"1">>)) @@ (<<"y">> :> VL(<<VS(<<"2">>), VS(<<>>)>>)))}
=============================================================================
