SPECIFICATION Spec
CONSTANTS
  Alpha <- cTextsMore
  MaxElems = 2
  MaxTextKids = 2
  MaxComments = 0
  APfx = {"-", "@", ""}
  KPfx = {"#", "_"}
  Casts = {FALSE, TRUE}
  DoEmit = TRUE
INVARIANTS Check
CHECK_DEADLOCK FALSE
