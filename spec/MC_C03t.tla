------------------------------- MODULE MC_C03t -------------------------------
(***************************************************************************)
(* C03 for Go-typed values: what a caller may put into a Map by hand (the  *)
(* decoders never produce these).  The encoder's rules for them:           *)
(*   int, int32, int64, float32, json.Number  rendered with %v = the token *)
(*   []byte                                   treated as the string        *)
(*   []string                                 treated exactly as the       *)
(*                                            []interface{} of the strings *)
(*   []map[string]interface{}                 ... of the maps              *)
(*   mxj.Map held as a value                  treated as the plain map     *)
(* so the bytes are those of the untyped value (MxjXmlEncode is generic in *)
(* the scalar tag: ScalarText is the token).  TypeUp turns every list of   *)
(* strings / of maps of a generated Map into the typed slice; the expected *)
(* bytes are computed from the untyped Map.  At the top of AnyXml a typed  *)
(* slice is not met by the list rule (<rt><element>..</element></rt>) but  *)
(* by the repeated-element rule.  Roots: C03's domain (multi-key map, or   *)
(* single key whose value is not a list).                                  *)
(***************************************************************************)
EXTENDS MC_C03
TI(tag, cs) == [t |-> tag, v |-> cs]
RECURSIVE TypeUp(_)
TypeUp(v) ==
  IF IsMap(v) THEN VM([k \in DOMAIN v.kv |-> IF IsMap(v.kv[k]) THEN [t |-> "mm", kv |-> TypeUp(v.kv[k]).kv] ELSE TypeUp(v.kv[k])])      \* a map held by a map: as mxj.Map
  ELSE IF IsList(v) THEN
     (IF \A i \in 1..Len(v.it) : v.it[i].t = "s" THEN [t |-> "ls", it |-> v.it]
      ELSE IF v.it # <<>> /\ \A i \in 1..Len(v.it) : IsMap(v.it[i]) THEN [t |-> "lm", it |-> [i \in 1..Len(v.it) |-> TypeUp(v.it[i])]]
      ELSE VL([i \in 1..Len(v.it) |-> TypeUp(v.it[i])]))
  ELSE v
RECURSIVE JsonableT(_)
JsonableT(v) ==
  IF v.t \in {"m", "mm"} THEN [t |-> v.t, kv |-> [s \in {Join(c) : c \in DOMAIN v.kv} |-> JsonableT(v.kv[CHOOSE c \in DOMAIN v.kv : Join(c) = s])]]
  ELSE IF v.t \in {"l", "ls", "lm"} THEN [t |-> v.t, it |-> [i \in 1..Len(v.it) |-> JsonableT(v.it[i])]]
  ELSE [t |-> v.t, v |-> Join(v.v)]
AnyXmlT(tv, v, go) == IF tv.t \in {"ls", "lm"} THEN EncodeVal(RT, v, EO(go)) ELSE AnyXml(v, RT, ElementTag, EO(go))
EmitT == (DoEmit /\ TextOK(m) /\ RootKeyOK /\ RootInDomain /\ m # EmptyMap) =>
   LET tm == TypeUp(m) IN
   PrintT(ToJson([f |-> "encv", ap |-> AP, kp |-> KP, typed |-> TRUE, m |-> JsonableT(tm),
      cs |-> SetToSeq(UNION {{Case("xml", go, EncodeRoot(m, <<>>, EO(go))), Case("xmlroot", go, EncodeRoot(m, RT, EO(go))),
                               Case("indentroot", go, EncodeRootIndent(m, <<>>, EO(go))), Case("any", go, AnyXml(m, RT, ElementTag, EO(go)))} : go \in BOOLEAN}),
      vs |-> SetToSeq({[key |-> Join(k), go |-> go, x |-> Join(RenderCompact(AnyXmlT(tm.kv[k], m.kv[k], go), EO(go)))] : k \in DOMAIN m.kv, go \in BOOLEAN})]))
cScalarsT == {VS(<<"y">>), VS(<<"<", "z">>), VNilC, VF(<<"0">>), VB(<<"f", "a", "l", "s", "e">>), TI("i", <<"0">>), TI("i32", <<"-", "3">>), TI("i64", <<"9", "0", "0", "7", "1", "9", "9", "2", "5", "4", "7", "4", "0", "9", "9", "3">>),
              TI("f32", <<"0", ".", "5">>), TI("jn", <<"1", ".", "5", "0">>), TI("by", <<"<", "b">>), TI("by", <<>>)}
=============================================================================
