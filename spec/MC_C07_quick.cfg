SPECIFICATION Spec
CONSTANTS
  Keys = {"a", "b"}
  Scalars <- cScalars
  Conts <- cConts
  MaxList = 2
  MaxNodes = 5
  PairNodes = 0
  PathNames = {"a", "b", "*", "z"}
  IdxNames = {"a", "b"}
  MaxIdx = 1
  MaxPath = 3
  DoEmit = TRUE
INVARIANTS ThmDenotes ThmIndexed Emit
CHECK_DEADLOCK FALSE
