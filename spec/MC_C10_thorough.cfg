SPECIFICATION Spec
CONSTANTS
  Keys = {"a", "b"}
  Scalars <- cScalars
  Conts <- cConts
  MaxList = 2
  MaxNodes = 6
  PairNodes = 0
  UpdKeys = {"a", "b"}
  PathNames = {"a", "b", "*"}
  MaxPath = 3
  NewVals <- cNewVals2
  DoEmit = TRUE
INVARIANTS ThmFrame Emit
CHECK_DEADLOCK FALSE
