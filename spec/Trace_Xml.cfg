SPECIFICATION TraceSpec
CONSTANTS
  AttrPrefixes = {"-", "@", ""}
  KeyPrefixes = {"#", "_"}
  FieldSeps = {":", "|"}
  ArraySizes = {0, 64}
  ActiveFns = {}
  ActiveOps = {}
  MaxHist = 0
POSTCONDITION TraceAccepted
CHECK_DEADLOCK FALSE
