SPECIFICATION Spec
CONSTANTS
  Keys = {"a"}
  Scalars <- cScalars1
  Conts <- cConts
  MaxList = 2
  MaxNodes = 0
  PairNodes = 5
  PathNames = {"a", "*"}
  IdxNames = {"a"}
  MaxIdx = 1
  MaxPath = 3
  DoEmit = TRUE
INVARIANTS Emit
CHECK_DEADLOCK FALSE
