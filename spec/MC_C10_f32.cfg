SPECIFICATION Spec
CONSTANTS
  Keys = {"a", "b"}
  Scalars <- cScalarsF32
  Conts <- cConts
  MaxList = 2
  MaxNodes = 4
  PairNodes = 0
  UpdKeys = {"a", "b"}
  PathNames = {"a", "*"}
  MaxPath = 2
  NewVals <- cNewVals
  DoEmit = TRUE
INVARIANTS ThmFrame Emit
CHECK_DEADLOCK FALSE
