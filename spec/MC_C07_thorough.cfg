SPECIFICATION Spec
CONSTANTS
  Keys = {"a", "b"}
  Scalars <- cScalars
  Conts <- cConts
  MaxList = 3
  MaxNodes = 6
  PairNodes = 0
  PathNames = {"a", "b", "*", "z"}
  IdxNames = {"a", "b"}
  MaxIdx = 2
  MaxPath = 3
  DoEmit = TRUE
INVARIANTS ThmDenotes ThmIndexed Emit
CHECK_DEADLOCK FALSE
