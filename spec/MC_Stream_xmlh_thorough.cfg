SPECIFICATION Spec
CONSTANTS
  Profiles <- cXmlQuick
  MaxZero = 2
  Design = "ok"
  Caller = "handler"
  DoEmit = TRUE
INVARIANTS Safety Emit
PROPERTIES Terminates
