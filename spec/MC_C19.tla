------------------------------- MODULE MC_C19 -------------------------------
(***************************************************************************)
(* C19: Maps written to files, gob or Copy are read back equal.            *)
(* A file is a stream (MxjStream: framing, truncation -- family "file");   *)
(* here the WRITER side: every list of one or two Maps of the builder's    *)
(* space (pair mode) with the exact file content the writers must produce  *)
(* (concatenation of the per-Map encodings) and the Maps the matching      *)
(* readers must return (XML: what each Map's own encoding decodes to;      *)
(* JSON, gob, Copy: the Map itself).                                       *)
(***************************************************************************)
EXTENDS MxjMapGen, MxjJson, Json
RK == <<"r">>
M1 == VM(RK :> b1)
M2 == VM(RK :> b2)
EO == [apfx |-> "-", kpfx |-> "#", esc |-> TRUE, goempty |-> FALSE]
DefDec == [lower |-> FALSE, snake |-> FALSE, asmap |-> FALSE, keep |-> FALSE, escdec |-> FALSE, tagseq |-> FALSE, apfx |-> "-", kpfx |-> "#", cast |-> FALSE]
XmlOf(mm) == RenderCompact(EncodeRoot(mm, <<>>, EO), EO)
XmlErr(mm) == HasErr(EncodeRoot(mm, <<>>, EO))
Back(mm) == LET ns == EncodeRoot(mm, <<>>, EO) IN Decode(ns[1], DefDec)
\* a Map whose single key holds a LIST with a non-map member: its encoding is wrapped in the default root
ML == VM(RK :> VL(<<VS(<<"x">>), b1>>))
\* the list <<M1, M2>> (and, when b2 is still empty, the one-Map lists <<M1>>, <<ML>> and <<ML, M1>>)
\* (and lists in which an EMPTY Map is not the last member: JSON "{}", XML <doc/>)
\* a Map whose only key is "object" holding a list: what NewMapJson returns for a bare JSON list -- written as the object it is
MO == VM(<<"o", "b", "j", "e", "c", "t">> :> VL(<<VS(<<"x">>), b1>>))
Lists == IF b2 = EmptyMap THEN {<<M1>>, <<M1, M2>>, <<ML>>, <<ML, M1>>, <<EmptyMap, M1>>, <<MO, M1>>} ELSE {<<M1, M2>>}
\* theorem: reading back the written XML file gives one Map per written Map, in order, each the fixed point of its own round trip
ThmXmlBack == \A ms \in Lists : \A i \in 1..Len(ms) : ~XmlErr(ms[i]) =>
                 LET bk == Back(ms[i]) IN Decode(EncodeRoot(bk, <<>>, EO)[1], DefDec) = bk
LCase(ms) == LET anyErr == \E i \in 1..Len(ms) : XmlErr(ms[i]) IN
   [ms |-> [i \in 1..Len(ms) |-> Jsonable(ms[i])],
    xmlerr |-> anyErr,
    xml |-> IF anyErr THEN "" ELSE Join(FlatC([i \in 1..Len(ms) |-> XmlOf(ms[i])])),
    xback |-> IF anyErr THEN <<>> ELSE [i \in 1..Len(ms) |-> Jsonable(Back(ms[i]))],
    json |-> Join(FlatC([i \in 1..Len(ms) |-> JsonOf(ms[i], FALSE)]))]
Emit == PrintT(ToJson([f |-> "filert", cs |-> SetToSeq({LCase(ms) : ms \in Lists})]))
Spec == GenSpec
cKeys == {<<"a">>, <<"b", "r">>, <<"-", "x">>}       \* (br: a name an HTML-minded reader would close on sight; here it is an element like any other)
cScalars == {VS(<<"{", "}">>), VS(<<"\"", "\\">>), VS(<<" ", "y", "%", "s">>), VF(<<"1", ".", "5">>), VB(<<"t", "r", "u", "e">>)}
cScalarsQ == {VS(<<"{", "\"", "\\", "}", "~", "\\", "u", "0", "0", "3", "c", "%", "d">>), VF(<<"1", ".", "5">>)}      \* (~ stands for a two-byte character; then the six characters \u003c, not "<"; %d, %s: data is never a format)
cConts == {EmptyMap, EmptyList}
=============================================================================
