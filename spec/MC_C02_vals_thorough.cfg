SPECIFICATION Spec
CONSTANTS
  Alpha <- cVals
  MaxElems = 2
  MaxTextKids = 2
  MaxComments = 0
  APfx = {"-", "@"}
  KPfx = {"#", "_"}
  Casts = {FALSE, TRUE}
  DoEmit = TRUE
INVARIANTS Check2
CHECK_DEADLOCK FALSE
