------------------------------ MODULE MxjChars ------------------------------
(***************************************************************************)
(* Character level strings: a string is a sequence of one-character TLC    *)
(* strings, so that trimming, case folding, snake-casing and escaping can  *)
(* be specified; Join turns it back into a TLC string (exact bytes).       *)
(***************************************************************************)
EXTENDS Integers, Sequences, FiniteSets, TLC

\* the characters of a TLC string (TLC implements Len and SubSeq on strings)
CharsOf(str) == [i \in 1..Len(str) |-> SubSeq(str, i, i)]
RECURSIVE Join(_)
Join(cs) == IF cs = <<>> THEN "" ELSE Head(cs) \o Join(Tail(cs))
RECURSIVE FlatC(_)
FlatC(ss) == IF ss = <<>> THEN <<>> ELSE Head(ss) \o FlatC(Tail(ss))

LowerOf(c) == CASE c = "A" -> "a" [] c = "B" -> "b" [] c = "C" -> "c" [] c = "D" -> "d" [] c = "E" -> "e" [] c = "F" -> "f" [] c = "G" -> "g" [] c = "H" -> "h" [] c = "I" -> "i" [] c = "J" -> "j" [] c = "K" -> "k" [] c = "L" -> "l" [] c = "M" -> "m" [] c = "N" -> "n" [] c = "O" -> "o" [] c = "P" -> "p" [] c = "Q" -> "q" [] c = "R" -> "r" [] c = "S" -> "s" [] c = "T" -> "t" [] c = "U" -> "u" [] c = "V" -> "v" [] c = "W" -> "w" [] c = "X" -> "x" [] c = "Y" -> "y" [] c = "Z" -> "z" [] OTHER -> c
ToLower(cs) == [i \in 1..Len(cs) |-> LowerOf(cs[i])]
Snake(cs)   == [i \in 1..Len(cs) |-> IF cs[i] = "-" THEN "_" ELSE cs[i]]

RECURSIVE TrimL(_, _)
TrimL(cs, cut) == IF cs # <<>> /\ Head(cs) \in cut THEN TrimL(Tail(cs), cut) ELSE cs
RECURSIVE TrimR(_, _)
TrimR(cs, cut) == IF cs # <<>> /\ cs[Len(cs)] \in cut THEN TrimR(SubSeq(cs, 1, Len(cs) - 1), cut) ELSE cs
Trim(cs, cut) == TrimR(TrimL(cs, cut), cut)

\* the five XML entities; '&' is replaced first, so nothing is escaped twice
XmlEsc1(c) == CASE c = "&" -> <<"&", "a", "m", "p", ";">>
                [] c = "<" -> <<"&", "l", "t", ";">>
                [] c = ">" -> <<"&", "g", "t", ";">>
                [] c = "\"" -> <<"&", "q", "u", "o", "t", ";">>
                [] c = "'" -> <<"&", "a", "p", "o", "s", ";">>
                [] OTHER -> <<c>>
XmlEscape(cs) == FlatC([i \in 1..Len(cs) |-> XmlEsc1(cs[i])])

\* inverse for the named entities and the numeric references &#x41; / &#65; (-> "A")
StartsWith(cs, p) == Len(cs) >= Len(p) /\ SubSeq(cs, 1, Len(p)) = p
Entities == << <<<<"&", "a", "m", "p", ";">>, "&">>, <<<<"&", "l", "t", ";">>, "<">>, <<<<"&", "g", "t", ";">>, ">">>,
               <<<<"&", "q", "u", "o", "t", ";">>, "\"">>, <<<<"&", "a", "p", "o", "s", ";">>, "'">>,
               <<<<"&", "#", "x", "4", "1", ";">>, "A">>, <<<<"&", "#", "6", "5", ";">>, "A">> >>
RECURSIVE XmlUnescape(_)
XmlUnescape(cs) ==
  IF cs = <<>> THEN <<>>
  ELSE IF \E i \in 1..Len(Entities) : StartsWith(cs, Entities[i][1])
       THEN LET i == CHOOSE i \in 1..Len(Entities) : StartsWith(cs, Entities[i][1]) IN
            <<Entities[i][2]>> \o XmlUnescape(SubSeq(cs, Len(Entities[i][1]) + 1, Len(cs)))
       ELSE <<Head(cs)>> \o XmlUnescape(Tail(cs))
=============================================================================
