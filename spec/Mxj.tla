--------------------------------- MODULE Mxj ---------------------------------
(***************************************************************************)
(* Integrated specification: the option register machine (MxjOptions)      *)
(* composed with the codec and query specifications (MxjXml, MxjXmlEncode, *)
(* MxjSeq, MxjPath, MxjArgs).  A behaviour is a SESSION: a history of      *)
(* option-setter calls interleaved with operation calls on fixed probe     *)
(* inputs.  Setters change the registers; operations change nothing and    *)
(* are FUNCTIONS OF THE CURRENT REGISTERS (and of their input): the decode *)
(* of a document is MxjXml!Decode under the options read off `opt`, the    *)
(* encoding of a Map is MxjXmlEncode!RenderCompact under them, the leaf    *)
(* paths are MxjPath!LeafSeq under the dot/prefix registers, a key search  *)
(* with a sub-key STRING is MxjPath!VFK on the condition the string        *)
(* denotes under the current field separator (MxjArgs!ParseSubKey).        *)
(* No operation depends on an earlier call other than through `opt` --     *)
(* the history variable records, for each operation step, the result the   *)
(* specification gives at that point, and the real package is stepped      *)
(* through the same session and compared after every call.                 *)
(*   - exhaustive sessions over a few setters and one operation class      *)
(*     (C01 decode, C08 query, C09 leaf): every history up to MaxHist;     *)
(*   - random walks over all setters and operations (C18).                 *)
(***************************************************************************)
EXTENDS MxjOptions, MxjSeq, MxjArgs, MxjMutate, MxjCast, Json
CONSTANTS ActiveFns, ActiveOps, MaxHist
VARIABLES opt, hist
vars == <<opt, hist>>
ActiveCalls == {c \in Calls : c.fn \in ActiveFns}
Init == opt = InitOpt /\ hist = <<>>

\* the codec option records read off the registers
DecOpts(o, cast) == [lower |-> o.lower, snake |-> o.snake, asmap |-> o.simpleAsMap, keep |-> o.keepSpaces, escdec |-> o.escDec,
                     tagseq |-> o.tagSeq, apfx |-> o.attrPrefix, kpfx |-> o.keyPrefix, cast |-> cast]
EncOpts(o) == [apfx |-> o.attrPrefix, kpfx |-> o.keyPrefix, esc |-> o.escEnc, goempty |-> o.goEmpty]
SeqOpts(o) == [snake |-> o.snake, keep |-> o.keepSpaces, escdec |-> o.escDec, cast |-> FALSE, kpfx |-> o.keyPrefix]

\* fixed probe inputs (abstract): a document exercising every decoder register, a Map exercising every encoder register
N(l) == NM("", l)
ProbeDoc == XE(N(<<"D", "-", "a">>), <<[nm |-> N(<<"x", "-", "Y">>), v |-> <<"1">>], [nm |-> N(<<"B">>), v |-> <<" ", "&">>]>>,
               <<XT(<<"\n">>), XE(N(<<"e", "-", "f">>), <<>>, <<XT(<<" ", "7", " ">>)>>), XE(N(<<"e", "-", "f">>), <<>>, <<XT(<<"<", "v">>)>>), XE(N(<<"g">>), <<>>, <<>>), XE(N(<<"s">>), <<>>, <<XT(<<" ", " ">>)>>),      \* (s: a run of blanks, a value under keep-spaces)
                 XE(N(<<"n">>), <<>>, <<XT(<<"`", "v", "`">>)>>),     \* (` stands for a no-break space: white space for Unicode, DATA for XML -- never trimmed)
                 XE(N(<<"h">>), <<[nm |-> N(<<"k">>), v |-> <<"q">>]>>, <<XT(<<"t", "r", "u", "e">>)>>), XT(<<"\n">>)>>)
ProbeSimpleDoc == XE(N(<<"T", "-", "i">>), <<>>, <<XT(<<" ", "h", "i", " ">>)>>)
ProbeSeqDoc == XE(NM("p", <<"A">>), <<[nm |-> N(<<"z", "-", "z">>), v |-> <<"1", "&">>]>>,
                  <<XC(<<"c">>), XE(N(<<"B", "-", "c">>), <<>>, <<XT(<<" ", "v", " ">>)>>), XE(N(<<"d">>), <<>>, <<XT(<<"<", "7">>)>>),
                    XE(N(<<"_", "e">>), <<>>, <<XT(<<"1">>)>>), XE(N(<<"s">>), <<>>, <<XT(<<" ", " ">>)>>)>>)      \* (a tag that begins with a character some attribute prefixes consist of: the sequence codec knows no attribute prefix)
ProbeMap == VM(<<"d", "o", "c">> :> VM((<<"-", "x">> :> VS(<<"1">>)) @@ (<<"@", "y">> :> VS(<<"2">>)) @@ (<<"#", "t", "e", "x", "t">> :> VS(<<"t", "<">>))
                  @@ (<<"_", "t", "e", "x", "t">> :> VS(<<"u">>)) @@ (<<"e">> :> VL(<<VS(<<"a">>), VS(<<>>), VM(<<"-", "k">> :> VS(<<"v">>))>>)) @@ (<<"g">> :> EmptyMap)
                  @@ (<<"E">> :> VS(<<"w">>)) @@ (<<"-", "X">> :> VS(<<"3">>)) @@ (<<"_", "_", "n">> :> VF(<<"7">>)) @@ (<<"_", "_", "_", "u">> :> VS(<<"4">>))))     \* (a NUMBER under a key that is an attribute under the prefix "__")      \* (keys that differ in case only: byte order whatever the key-folding registers hold)
\* (attribute prefixes of any length; key prefixes are one character, the property's quantifier)
CodecDomain(o) == o.attrPrefix # o.keyPrefix
DefaultCastRegs(o) == ~o.castInt /\ o.castFloat /\ o.castBool /\ ~o.skipTag

\* probe inputs of the query side (plain-string values of MxjPath)
ProbeLeafMap == VM("doc" :> VM(("-x" :> VS("1")) @@ ("@y" :> VS("2")) @@ ("#text" :> VS("t")) @@ ("_text" :> VS("u")) @@ ("___u" :> VS("4"))      \* (___u: under the prefix "__" the attribute "_u" -- a name that begins with a character of the prefix)
                   @@ ("e" :> VL(<<VS("a"), VM(("-k" :> VS("v")) @@ ("#text" :> VS("w"))), VS("b"), VM("f" :> VL(<<VS("c"), VS("d")>>))>>))))
LeafKeys == {"-x", "@y", "#text", "_text", "-k", "e", "f", "doc", "___u"}
AttrKeysOf(o) == {k \in LeafKeys : o.attrPrefix # "" /\ Len(k) >= Len(o.attrPrefix) /\ SubSeq(k, 1, Len(o.attrPrefix)) = o.attrPrefix}
\* list members told apart by "id"; keys and values that contain the OTHER separator
ProbeQMap == VM("a" :> VL(<<VM(("id" :> VS("1")) @@ ("c" :> VS("x"))),
                            VM(("id" :> VS("2")) @@ ("c" :> VS("x:x"))),
                            VM(("id" :> VS("3")) @@ ("c" :> VS("x|x"))),
                            VM(("id" :> VS("4")) @@ ("c|x" :> VS("x"))),
                            VM(("id" :> VS("5")) @@ ("c:x" :> VS("x"))),
                            VM(("id" :> VS("6")) @@ ("x" :> VS("c")))>>))
\* sub-key strings (character sequences): each is legal under BOTH separators and denotes different conditions
SubKeyStrs == {<<"c", ":", "x">>, <<"c", "|", "x">>, <<"c", "|", "x", ":", "x">>, <<"c", ":", "x", "|", "x">>,
               <<"!", "c", ":", "x", "|", "x">>, <<"c", ":", "*">>, <<"c", "|", "*">>, <<"!", "c", "|", "x", ":", "*">>,
               <<"c", ":", ":", "x">>, <<"c", ":", ":", "x", ":", "x">>}

\* leaf texts whose cast depends on the cast registers (what each denotes: CastCatalogue)
CastTexts == {"Infinity", "+Inf", "NaN", "1", "1.5", "true", "9223372036854775807", "v", "007", "0x1F"}
CastOptsOf(o) == [cast |-> TRUE, toInt |-> o.castInt, toFloat |-> o.castFloat, toBool |-> o.castBool, nanInf |-> o.castNanInf, skipTag |-> "0"]

\* new-value strings "k<sep>v" of UpdateValuesForPath: split by the SAME field-separator register as sub-keys
NewValStrs == {<<"c", ":", "N">>, <<"c", "|", "N">>, <<"c", "|", "x", ":", "N">>, <<"c", ":", "x", "|", "N">>,
               <<"c", ":", ":", "N">>, <<"c", ":", ":", "x", ":", "N">>,       \* (a separator of two characters)
               <<"c", ":", "0", "1", "0", ":", "n", "u", "m">>, <<"c", ":", "t", ":", "b", "o", "o", "l">>}     \* typed forms: the float64 ten (decimal), the bool true
UpdResult(o, s) == LET ps == SplitOn(s, o.fieldSep) IN
                   IF NewValClass(s, o.fieldSep) = "err" THEN [ok |-> FALSE, c |-> 0, post |-> ProbeQMap]
                   ELSE LET nv == IF Len(ps) = 2 THEN VS(Join(ps[2])) ELSE IF TypeName(ps[3]) = "bool" THEN VB("true") ELSE VF(NumCanon(ps[2]))
                            r == UpdateOp(ProbeQMap, Join(ps[1]), nv, <<"a">>, {}) IN [ok |-> TRUE, c |-> r.c, post |-> r.n]
\* Elements / Attributes of the node "doc" of the leaf probe: keys in byte order, split by the attribute prefix
StructKeys == <<"#text", "-x", "@y", "___u", "_text", "e">>
IsAttrK(o, k) == o.attrPrefix # "" /\ Len(k) >= Len(o.attrPrefix) /\ SubSeq(k, 1, Len(o.attrPrefix)) = o.attrPrefix
StripPfx(o, k) == SubSeq(k, Len(o.attrPrefix) + 1, Len(k))
\* NewMapJson of {"n":1.50,"s":"x"}: the number as float64, or its text under JsonUseNumber
JsonProbeResult(o) == VM(("n" :> IF o.jsonUseNumber THEN [t |-> "num", v |-> "1.50"] ELSE VF("1.5")) @@ ("s" :> VS("x")))

\* NewMap key pairs "old:new" are split at ':' whatever the field separator register holds
NewMapPairs == {"a:p", "a|p", "a:p+a.id:q"}       \* (the last: TWO pairs in one call, each yielding a list of six values)
NewMapResult(pr) == IF pr = "a:p" THEN NewMapOp(ProbeQMap, <<[old |-> <<PK("a", -1)>>, new |-> <<"p">>]>>)
                    ELSE IF pr = "a:p+a.id:q" THEN NewMapOp(ProbeQMap, <<[old |-> <<PK("a", -1)>>, new |-> <<"p">>], [old |-> <<PK("a", -1), PK("id", -1)>>, new |-> <<"q">>]>>)
                    ELSE EmptyMap                                   \* "a|p" is the shorthand for a key that does not exist: skipped

\* a list wider than the initial result capacity (32): ValuesForPath must not depend on the SetArraySize register
ProbeWide == VM("a" :> VL([i \in 1..40 |-> VS("v" \o ToString(i))]))
WidePaths == {<<PK("a", -1)>>, <<PK("a", 33)>>, <<PK("*", -1)>>}

\* RenameKey("a.b", new) on {a:{b:1, c:2, ab-c:3}}: the new name is taken literally whatever the key-folding registers hold;
\* an existing sibling name is refused
RenameProbe == VM("a" :> VM(("b" :> VS("1")) @@ ("c" :> VS("2")) @@ ("ab-c" :> VS("3"))))
RenameNames == {"Ab-c", "c", "AB-C", "x.c"}      \* ("x.c": a new NAME is one key, separator or not; its tail "c" is an existing sibling)
RenameResult(nn) == IF nn \in DOMAIN RenameProbe.kv["a"].kv THEN VS("refused")
                    ELSE VM("a" :> VM([k \in ((DOMAIN RenameProbe.kv["a"].kv) \ {"b"}) \cup {nn} |->
                                           IF k = nn THEN RenameProbe.kv["a"].kv["b"] ELSE RenameProbe.kv["a"].kv[k]]))
\* UpdateValuesForPath({id: Z}, "a", subkey): the sub-key string is read under the current separator
UpdKResult(o, s) == LET pc == ParseSubKey(s, o.fieldSep) IN
                    IF ~pc.ok THEN [ok |-> FALSE, c |-> 0, post |-> ProbeQMap]
                    ELSE LET r == UpdateOp(ProbeQMap, "id", VS("Z"), <<"a">>, {pc.c}) IN [ok |-> TRUE, c |-> r.c, post |-> r.n]
\* Copy is a JSON round trip: with JsonUseNumber the numbers of the copy are json.Number values
NumTok(o, t) == IF o.jsonUseNumber THEN [t |-> "jn", v |-> t] ELSE VF(t)
CopyResult(o) == VM(("n" :> (IF o.jsonUseNumber THEN [t |-> "jn", v |-> "1.50"] ELSE VF("1.5"))) @@ ("s" :> VS("x")) @@ ("l" :> VL(<<NumTok(o, "2"), VS("y")>>)))

\* XMPP streams: with HandleXMPPStreamTag the element named "stream" is returned AT ITS START TAG (its attributes only); what
\* follows in the reader are documents of their own and the final </stream:stream> is an unexpected end tag.  Without the
\* register the stream is one ordinary document.  (The Map decoder compares the local name, the sequence decoder "stream:stream".)
XmppAttrs == <<[nm |-> N(<<"t", "o">>), v |-> <<"x">>], [nm |-> N(<<"A", "-", "b">>), v |-> <<"&">>]>>
XmppKids == <<XE(N(<<"a">>), <<>>, <<XT(<<"1">>)>>), XE(N(<<"B", "-", "c">>), <<[nm |-> N(<<"k">>), v |-> <<"q">>]>>, <<XT(<<" ", "2", " ">>)>>)>>
XmppName == NM("stream", <<"s", "t", "r", "e", "a", "m">>)
XmppFull == XE(XmppName, XmppAttrs, XmppKids)
XmppHead == XE(XmppName, XmppAttrs, <<>>)
XmppResult(o, arg) ==
  LET D(d) == IF arg \in {"seq", "seqreader"} THEN Jsonable(DecodeSeq(d, SeqOpts(o))) ELSE Jsonable(Decode(d, DecOpts(o, FALSE)))
      rdr == arg \in {"reader", "seqreader"}
  IN IF ~o.xmpp THEN [ms |-> <<D(XmppFull)>>, end |-> IF rdr THEN "EOF" ELSE "none"]
     ELSE IF ~rdr THEN [ms |-> <<D(XmppHead)>>, end |-> "none"]
     ELSE [ms |-> <<D(XmppHead)>> \o [i \in 1..Len(XmppKids) |-> D(XmppKids[i])], end |-> "err"]

\* j2x on a document with a non-canonical numeral: the XML of the Map NewMapJson gives under the JsonUseNumber register
J2xNumResult(o) == LET mm == VM((<<"n">> :> (IF o.jsonUseNumber THEN [t |-> "jn", v |-> <<"1", ".", "5", "0">>] ELSE VF(<<"1", ".", "5">>))) @@ (<<"s">> :> VS(<<"x">>)))
                   IN Join(RenderCompact(EncodeRoot(mm, <<>>, EncOpts(o)), EncOpts(o)))
\* the operations: [op |-> class, arg |-> which]
AllOps == {[op |-> "dec", arg |-> a] : a \in {"plain", "cast", "simple"}} \cup {[op |-> "seq", arg |-> "plain"], [op |-> "enc", arg |-> "plain"]}
          \cup {[op |-> "leaf", arg |-> a] : a \in {"T", "F"}}
          \cup {[op |-> "query", arg |-> Join(s)] : s \in SubKeyStrs}
          \cup {[op |-> "upd", arg |-> Join(s)] : s \in NewValStrs}        \* UpdateValuesForPath(s, "a") on a copy of the query probe
          \cup {[op |-> "beautify", arg |-> "plain"], [op |-> "copy", arg |-> "plain"]}   \* calls of other areas: no effect on the registers
          \cup {[op |-> "rename", arg |-> nn] : nn \in RenameNames}
          \cup {[op |-> "updk", arg |-> Join(s)] : s \in SubKeyStrs}
          \cup {[op |-> "vfp", arg |-> PathStr(p)] : p \in WidePaths}    \* ValuesForPath on the wide probe
          \cup {[op |-> "newmap", arg |-> pr] : pr \in NewMapPairs}       \* NewMap(pair) on the query probe
          \cup {[op |-> "struct", arg |-> a] : a \in {"elems", "attrs"}}   \* Elements("doc") / Attributes("doc") of the leaf probe
          \cup {[op |-> "seqrt", arg |-> "plain"]}                         \* MapSeq.Xml() of NewMapXmlSeq(probe)
          \cup {[op |-> "json", arg |-> a] : a \in {"plain", "reader"}}                          \* NewMapJson of a document with a non-canonical numeral
          \cup {[op |-> "xmpp", arg |-> a] : a \in {"map", "seq", "reader", "seqreader"}}        \* NewMapXml / NewMapXmlSeq / successive ...Reader calls on an XMPP stream
          \cup {[op |-> "legacy", arg |-> a] : a \in {"x2j", "x2jcast", "j2x", "j2xnum"}}       \* the wrappers: x2j-wrapper DocToMap(probe[, true]) (with ITS OWN CastNanInf flag on), j2x.JsonToXml(probe Map as JSON)
          \cup {[op |-> "cast", arg |-> t] : t \in CastTexts}          \* NewMapXml(<r><c>t</c><c>t</c></r>, true): kind and token of both members of r.c
Enabled(o, op) == CASE op.op \in {"seq", "enc", "cast", "seqrt", "beautify", "xmpp"} -> CodecDomain(o)
                    [] op.op = "legacy" -> CodecDomain(o) /\ (op.arg = "x2jcast" => DefaultCastRegs(o))
                    [] op.op = "dec" -> CodecDomain(o) /\ (op.arg = "cast" => DefaultCastRegs(o))   \* (the decode specification models the default cast registers; the full chain is MxjCast)
                    [] OTHER -> TRUE
\* the result the specification gives for an operation under registers o
QueryResult(o, s) == LET pc == ParseSubKey(s, o.fieldSep) IN
                     IF pc.ok THEN [ok |-> TRUE, vals |-> VFK(ProbeQMap, "a", {pc.c})] ELSE [ok |-> FALSE, vals |-> <<>>]
OpResult(o, op) ==
  CASE op.op = "dec" -> IF op.arg = "simple" THEN Jsonable(Decode(ProbeSimpleDoc, DecOpts(o, FALSE)))      \* (a root that holds nothing but text: no register gives it a wrapper)
                        ELSE Jsonable(Decode(ProbeDoc, DecOpts(o, op.arg = "cast")))
    [] op.op = "seq" -> Jsonable(DecodeSeq(ProbeSeqDoc, SeqOpts(o)))
    [] op.op = "enc" -> Join(RenderCompact(EncodeRoot(ProbeMap, <<>>, EncOpts(o)), EncOpts(o)))
    [] op.op = "leaf" -> LeafSeq(ProbeLeafMap, op.arg = "T", o.dot, AttrKeysOf(o), o.keyPrefix \o "text")
    [] op.op = "query" -> QueryResult(o, CHOOSE s \in SubKeyStrs : Join(s) = op.arg)
    [] op.op = "upd" -> UpdResult(o, CHOOSE s \in NewValStrs : Join(s) = op.arg)
    [] op.op = "beautify" -> "ok"
    [] op.op = "copy" -> CopyResult(o)
    [] op.op = "rename" -> RenameResult(op.arg)
    [] op.op = "updk" -> UpdKResult(o, CHOOSE s \in SubKeyStrs : Join(s) = op.arg)
    [] op.op = "vfp" -> VFA(ProbeWide, CHOOSE p \in WidePaths : PathStr(p) = op.arg)
    [] op.op = "newmap" -> NewMapResult(op.arg)
    [] op.op = "struct" -> IF op.arg = "elems" THEN SelectSeq(StructKeys, LAMBDA k : ~IsAttrK(o, k))
                           ELSE LET ks == SelectSeq(StructKeys, LAMBDA k : IsAttrK(o, k)) IN [i \in 1..Len(ks) |-> StripPfx(o, ks[i])]
    [] op.op = "seqrt" -> LET so == SeqOpts(o) IN
                          Join(RenderSeq(EncodeSeqRoot(DecodeSeq(ProbeSeqDoc, so), so), [apfx |-> "-", kpfx |-> o.keyPrefix, esc |-> o.escEnc, goempty |-> o.goEmpty]))
    [] op.op = "json" -> JsonProbeResult(o)
    [] op.op = "xmpp" -> XmppResult(o, op.arg)
    [] op.op = "legacy" -> IF op.arg = "j2xnum" THEN [x |-> J2xNumResult(o), m |-> EmptyMap]        \* all four j2x JSON -> XML entry points on {"n":1.50,"s":"x"}
                           ELSE IF op.arg = "j2x" THEN [x |-> Join(RenderCompact(EncodeRoot(ProbeMap, <<>>, EncOpts(o)), EncOpts(o))), m |-> EmptyMap]
                           ELSE [x |-> "", m |-> Jsonable(Decode(ProbeDoc, DecOpts(o, op.arg = "x2jcast")))]      \* the wrappers are the core under the registers in force
    [] op.op = "cast" -> CastOf(CHOOSE c \in Catalogue : c.s = op.arg, CastOptsOf(o), FALSE)     \* (the harness' skip function never names the key "c")

ActiveOpSet == {op \in AllOps : op.op \in ActiveOps}
SetterStep == Len(hist) < MaxHist /\ \E c \in ActiveCalls : opt' = Eff(opt, c) /\ hist' = Append(hist, [fn |-> c.fn, arg |-> c.arg])
OpStep == Len(hist) < MaxHist /\
          \E op \in ActiveOpSet : /\ Enabled(opt, op)
                                   /\ UNCHANGED opt                                   \* operations do not touch the registers
                                   /\ hist' = Append(hist, [op |-> op.op, arg |-> op.arg, r |-> OpResult(opt, op)])
Next == SetterStep \/ OpStep
Spec == Init /\ [][Next]_vars

\* operations are functions of the registers: two operation steps of a behaviour with the same registers and
\* the same operation recorded the same result (stated on the history; TLC checks it in every state)
IsOp(h) == "op" \in DOMAIN h
RECURSIVE OptAt(_, _)
OptAt(h, i) == IF i = 0 THEN InitOpt ELSE IF IsOp(h[i]) THEN OptAt(h, i - 1) ELSE Eff(OptAt(h, i - 1), [fn |-> h[i].fn, arg |-> h[i].arg])
Functional == \A i, j \in 1..Len(hist) :
                 (IsOp(hist[i]) /\ IsOp(hist[j]) /\ hist[i].op = hist[j].op /\ hist[i].arg = hist[j].arg /\ OptAt(hist, i) = OptAt(hist, j))
                    => hist[i].r = hist[j].r
\* an operation only depends on the registers its class lists (MxjOptions!Relevant)
OpClass(op) == CASE op = "dec" -> "decodeCast" [] op = "seq" -> "decodeSeq" [] op = "enc" -> "encode" [] op = "leaf" -> "leaf" [] op = "query" -> "query"
                 [] op = "upd" -> "query" [] op = "updk" -> "query" [] op = "struct" -> "struct" [] op = "json" -> "jsonDecode"
RelOf(op) == IF op = "cast" THEN CastRegs \ {"skipTag"}
             ELSE IF op = "copy" THEN {"jsonUseNumber"}
             ELSE IF op \in {"newmap", "vfp", "beautify", "rename"} THEN {}
             ELSE IF op = "legacy" THEN Relevant["decodeCast"] \cup Relevant["encode"] \cup Relevant["jsonDecode"]
             ELSE IF op = "xmpp" THEN Relevant["decode"] \cup Relevant["decodeSeq"]
             ELSE IF op = "seqrt" THEN Relevant["decodeSeq"] \cup Relevant["encodeSeq"]
             ELSE Relevant[OpClass(op)]
OnlyRelevant == Len(hist) = MaxHist => \A op \in ActiveOpSet :      \* (evaluated where a session ends: it is a function of opt alone)
                   LET po == Project(opt, RelOf(op.op)) IN
                   (Enabled(opt, op) /\ Enabled(po, op)) => OpResult(opt, op) = OpResult(po, op)

Emit == Len(hist) = MaxHist =>
   PrintT(ToJson([f |-> "mxj", hist |-> hist, restore |-> RestoreCalls(TRUE)]))
AllFns == ToggleNames \cup {"DisableTrimWhiteSpace", "PrependAttrWithHyphen", "SetAttrPrefix", "XMLEscapeChars", "XMLEscapeCharsDecoder",
           "XmlGoEmptyElemSyntax", "XmlDefaultEmptyElemSyntax", "SetFieldSeparator", "SetArraySize", "SetGlobalKeyMapPrefix", "JsonUseNumber"}
AllOpNames == {"dec", "seq", "enc", "leaf", "query", "cast", "upd", "struct", "seqrt", "json", "newmap", "vfp", "beautify", "copy", "rename", "updk", "xmpp", "legacy"}
=============================================================================
