--------------------------------- MODULE Mxj ---------------------------------
(***************************************************************************)
(* Integrated specification: the option register machine (MxjOptions)      *)
(* composed with the codec specifications (MxjXml, MxjXmlEncode, MxjSeq).  *)
(* A behaviour is a history of option-setter calls; in every state the     *)
(* decoders and encoders are FUNCTIONS OF THE CURRENT REGISTERS: the       *)
(* decode of a document is MxjXml!Decode under the options read off `opt`, *)
(* the encoding of a Map is MxjXmlEncode!RenderCompact under them, the     *)
(* sequence codec depends on its own few registers only.  Used for C18's   *)
(* second half ("interleaved with decode/encode/query calls"): random      *)
(* walks through the setters, after which the real decoders and encoders   *)
(* must produce what the codec specifications predict for the registers    *)
(* the walk ended in.                                                      *)
(***************************************************************************)
EXTENDS MxjOptions, MxjSeq, Json
CONSTANTS ActiveFns, MaxHist
VARIABLES opt, hist
vars == <<opt, hist>>
ActiveCalls == {c \in Calls : c.fn \in ActiveFns}
Init == opt = InitOpt /\ hist = <<>>
Next == /\ Len(hist) < MaxHist
        /\ \E c \in ActiveCalls : opt' = Eff(opt, c) /\ hist' = Append(hist, c)
Spec == Init /\ [][Next]_vars

\* the codec option records read off the registers
DecOpts(o, cast) == [lower |-> o.lower, snake |-> o.snake, asmap |-> o.simpleAsMap, keep |-> o.keepSpaces, escdec |-> o.escDec,
                     tagseq |-> o.tagSeq, apfx |-> o.attrPrefix, kpfx |-> o.keyPrefix, cast |-> cast]
EncOpts(o) == [apfx |-> o.attrPrefix, kpfx |-> o.keyPrefix, esc |-> o.escEnc, goempty |-> o.goEmpty]
SeqOpts(o) == [snake |-> o.snake, keep |-> o.keepSpaces, escdec |-> o.escDec, cast |-> FALSE, kpfx |-> o.keyPrefix]

\* fixed probe inputs (abstract): a document exercising every decoder register, a Map exercising every encoder register
N(l) == NM("", l)
ProbeDoc == XE(N(<<"D", "-", "a">>), <<[nm |-> N(<<"x", "-", "Y">>), v |-> <<"1">>], [nm |-> N(<<"B">>), v |-> <<" ", "&">>]>>,
               <<XT(<<"\n">>), XE(N(<<"e", "-", "f">>), <<>>, <<XT(<<" ", "7", " ">>)>>), XE(N(<<"e", "-", "f">>), <<>>, <<XT(<<"<", "v">>)>>), XE(N(<<"g">>), <<>>, <<>>),
                 XE(N(<<"h">>), <<[nm |-> N(<<"k">>), v |-> <<"q">>]>>, <<XT(<<"t", "r", "u", "e">>)>>), XT(<<"\n">>)>>)
ProbeSeqDoc == XE(NM("p", <<"A">>), <<[nm |-> N(<<"z", "-", "z">>), v |-> <<"1">>]>>,
                  <<XC(<<"c">>), XE(N(<<"B", "-", "c">>), <<>>, <<XT(<<" ", "v", " ">>)>>), XE(N(<<"d">>), <<>>, <<XT(<<"<", "7">>)>>)>>)
ProbeMap == VM(<<"d", "o", "c">> :> VM((<<"-", "x">> :> VS(<<"1">>)) @@ (<<"@", "y">> :> VS(<<"2">>)) @@ (<<"#", "t", "e", "x", "t">> :> VS(<<"t", "<">>))
                  @@ (<<"_", "t", "e", "x", "t">> :> VS(<<"u">>)) @@ (<<"e">> :> VL(<<VS(<<"a">>), VS(<<>>), VM(<<"-", "k">> :> VS(<<"v">>))>>)) @@ (<<"g">> :> EmptyMap)))
\* single-character prefixes only (the codec specifications model prefixes as one character or empty)
CodecDomain(o) == Len(o.attrPrefix) <= 1 /\ o.attrPrefix # o.keyPrefix
Emit == (Len(hist) = MaxHist /\ CodecDomain(opt)) =>
   PrintT(ToJson([f |-> "mxj", hist |-> hist,
      dec |-> Jsonable(Decode(ProbeDoc, DecOpts(opt, FALSE))),
      \* (the decode specification models the cast with the default cast registers; the full chain is MxjCast)
      castdefault |-> (~opt.castInt /\ opt.castFloat /\ opt.castBool /\ ~opt.skipTag),
      deccast |-> Jsonable(Decode(ProbeDoc, DecOpts(opt, TRUE))),
      seq |-> Jsonable(DecodeSeq(ProbeSeqDoc, SeqOpts(opt))),
      enc |-> Join(RenderCompact(EncodeRoot(ProbeMap, <<>>, EncOpts(opt)), EncOpts(opt))),
      restore |-> RestoreCalls(TRUE)]))
AllFns == ToggleNames \cup {"DisableTrimWhiteSpace", "PrependAttrWithHyphen", "SetAttrPrefix", "XMLEscapeChars", "XMLEscapeCharsDecoder",
           "XmlGoEmptyElemSyntax", "XmlDefaultEmptyElemSyntax", "SetFieldSeparator", "SetArraySize", "SetGlobalKeyMapPrefix", "JsonUseNumber"}
=============================================================================
