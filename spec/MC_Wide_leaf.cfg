SPECIFICATION Spec
CONSTANTS
  Widths = {33, 257, 300}
  DoEmit = TRUE
INVARIANTS EmitLeaf
CHECK_DEADLOCK FALSE
