SPECIFICATION Spec
CONSTANTS
  AttrPrefixes = {"-"}
  KeyPrefixes = {"#"}
  FieldSeps = {":", "|"}
  ArraySizes = {0}
  ActiveFns = {"JsonUseNumber"}
  ActiveOps = {"json", "copy"}
  MaxHist = 4
INVARIANTS Functional OnlyRelevant Emit
CHECK_DEADLOCK FALSE
