SPECIFICATION Spec
CONSTANTS
  AttrPrefixes = {"-", "@"}
  KeyPrefixes = {"#"}
  FieldSeps = {":"}
  ArraySizes = {0}
  ActiveFns = {"CastNanInf", "JsonUseNumber", "SetAttrPrefix", "XMLEscapeChars"}
  ActiveOps = {"legacy", "cast"}
  MaxHist = 3
INVARIANTS Functional OnlyRelevant Emit
CHECK_DEADLOCK FALSE
