SPECIFICATION Spec
CONSTANTS
  Keys = {"a"}
  Scalars <- cScalars
  Conts <- cConts
  MaxList = 2
  MaxNodes = 0
  PairNodes = 5
  PathNames = {"a", "*"}
  IdxNames = {"a"}
  MaxIdx = 1
  MaxPath = 4
  DoEmit = TRUE
INVARIANTS ThmDenotes Emit
CHECK_DEADLOCK FALSE
