SPECIFICATION SpecFull
CONSTANTS
  AttrPrefixes = {"-", "@", "", "at_"}
  KeyPrefixes = {"#", "_", "$"}
  FieldSeps = {":", "|"}
  ArraySizes = {0, 33, 64}
  ActiveFns <- QuickFns
  MaxHist = 0
  DoEmit = FALSE
INVARIANTS InvIdem InvToggle InvFrame InvEsc InvRestore
CHECK_DEADLOCK FALSE
