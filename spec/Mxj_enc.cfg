SPECIFICATION Spec
CONSTANTS
  AttrPrefixes = {"-", "@"}
  KeyPrefixes = {"#"}
  FieldSeps = {":"}
  ArraySizes = {0}
  ActiveFns = {"CoerceKeysToLower", "CoerceKeysToSnakeCase", "IncludeTagSeqNum", "DecodeSimpleValuesAsMap", "SetAttrPrefix"}
  ActiveOps = {"enc", "seqrt"}
  MaxHist = 3
INVARIANTS Functional OnlyRelevant Emit
CHECK_DEADLOCK FALSE
