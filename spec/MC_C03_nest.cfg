SPECIFICATION Spec
CONSTANTS
  Keys <- cKeysN
  Scalars <- cScalarsN
  Conts <- cContsN
  MaxList = 3
  MaxNodes = 7
  PairNodes = 0
  DoEmit = TRUE
  AP = "-"
  KP = "#"
INVARIANTS Thm Emit
CHECK_DEADLOCK FALSE
