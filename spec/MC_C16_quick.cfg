SPECIFICATION Spec
CONSTANTS
  CKeys <- cKeys
  CVals <- cValsQ
  MaxHist = 3
  DoEmit = TRUE
INVARIANTS ThmFunctionOfContent ThmAscending Emit
CHECK_DEADLOCK FALSE
