SPECIFICATION Spec
CONSTANTS
  Keys = {"a", "b"}
  Scalars <- cScalarsTiny
  Conts <- cConts
  MaxList = 2
  MaxNodes = 3
  PairNodes = 0
  SearchKeys = {"a", "*"}
  CondKeys = {"a", "b"}
  MaxConds = 1
  PathNames = {"a", "*"}
  MaxPath = 2
  DoEmit = TRUE
INVARIANTS ThmKeySearch ThmFilter ThmShortest Emit
CHECK_DEADLOCK FALSE
