SPECIFICATION Spec
CONSTANTS
  Chunks <- cPathChunks
  MaxChunks = 5
  Kind = "path"
INVARIANTS Total EmitPath
CHECK_DEADLOCK FALSE
