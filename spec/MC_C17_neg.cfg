SPECIFICATION Spec
CONSTANTS
  NProcs = 2
  Progs <- cProgs2b
  Segs <- cSegs
  Design = "scratch"
  DoEmit = FALSE
INVARIANTS SharedUnchanged SequentialResults Emit
PROPERTIES Terminates
