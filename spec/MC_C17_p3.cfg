SPECIFICATION Spec
CONSTANTS
  NProcs = 3
  Progs <- cProgs3
  Segs <- cSegs2
  Design = "ok"
  DoEmit = TRUE
INVARIANTS SharedUnchanged SequentialResults Emit
PROPERTIES Terminates
