SPECIFICATION Spec
CONSTANTS
  AttrPrefixes = {"-", "@", ""}
  KeyPrefixes = {"#", "_"}
  FieldSeps = {":", "|"}
  ArraySizes = {0}
  ActiveFns = {"LeafUseDotNotation", "SetAttrPrefix", "SetGlobalKeyMapPrefix"}
  ActiveOps = {"leaf", "struct"}
  MaxHist = 4
INVARIANTS Functional OnlyRelevant Emit
CHECK_DEADLOCK FALSE
