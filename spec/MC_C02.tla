------------------------------- MODULE MC_C02 -------------------------------
(***************************************************************************)
(* C02: XML -> Map -> XML -> Map is a fixed point; re-encoded XML is well  *)
(* formed.  Over the C01 document space and every symmetric option         *)
(* combination: the theorem FixedPoint on the specification, and for the   *)
(* harness the decoded Map together with the EXACT bytes Map.Xml() must    *)
(* produce for it.                                                         *)
(***************************************************************************)
EXTENDS MC_C01, MxjXmlEncode
SymOpts == {o \in DomOpts : ~o.tagseq /\ o.apfx # ""}
Check2 ==
  LET P == {[o |-> o, m |-> Decode(d, o)] : o \in SymOpts}
      Q == {[o |-> p.o, m |-> p.m, x |-> RenderCompact(EncodeRoot(p.m, <<>>, EncOptsFor(p.o, FALSE)), EncOptsFor(p.o, FALSE))] : p \in P}
      R == {<<q.m, q.x>> : q \in Q}
  IN /\ \A o \in SymOpts : FixedPoint(d, o)
     /\ (DoEmit => PrintT(ToJson([f |-> "enc", d |-> d,
            g |-> SetToSeq({[r |-> Jsonable(r[1]), x |-> Join(r[2]), os |-> SetToSeq({OptCode(q.o) : q \in {z \in Q : z.m = r[1] /\ z.x = r[2]}})] : r \in R})])))
\* values: all five special characters, leading/trailing blanks, tab, newline, a non-ASCII placeholder, look-alikes
cVals == [names |-> {N(<<"a">>), N(<<"B">>)}, anames |-> {N(<<"x">>), N(<<"k", "-", "x">>)},
          avals |-> {<<"<", "&", ">">>, <<"\"", "'">>, <<" ", "7", " ">>, <<"~", "'">>, BigNum},
          texts |-> {<<"<", "&", ">">>, <<"\"", "'">>, <<" ", "v", "\t">>, <<"7">>, <<"~", "&", "\n", "~">>, <<"\n">>}, maxattrs |-> 1, comments |-> FALSE]
\* numerals beyond int64, the long spelling of negative infinity, a numeral whose float64 prints longer than it reads (all under the cast flag),
\* TEXT that spells an entity reference (T&amp;T as character data: written &amp;amp; in a document), tab and newline inside an attribute value
cVals2 == [names |-> {N(<<"a">>)}, anames |-> {N(<<"x">>)}, avals |-> {<<"a", "\t", "\n", "b">>, <<"7">>},
           texts |-> {Big19, <<"-", "I", "n", "f", "i", "n", "i", "t", "y">>, <<"7">>, <<"a", "]", "]", ">", "1">>, <<" ", " ">>, Neg17, <<"T", "&", "a", "m", "p", ";", "T">>}, maxattrs |-> 1, comments |-> FALSE]     \* (a run of blanks: a value under keep-spaces; ]]> may not stand in character data unescaped)
\* values with exactly ONE kind of special character each (an escaping routine that looks for "any special" first)
cVals1 == [names |-> {N(<<"a">>)}, anames |-> {N(<<"x">>), N(<<"y">>)},
           avals |-> {<<"\"">>, <<"'">>, <<"<">>, <<">">>, <<"&">>, <<"v">>},
           texts |-> {<<"\"">>, <<"'">>, <<"<">>, <<">">>, <<"&">>}, maxattrs |-> 2, comments |-> FALSE]
=============================================================================
