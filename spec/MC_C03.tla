------------------------------- MODULE MC_C03 -------------------------------
(***************************************************************************)
(* C03: encoding any JSON-shaped Map or value as XML preserves its data.   *)
(* Values are enumerated by the Map builder (keys incl. an attribute key   *)
(* and the text key, empty containers, nil, nested and mixed lists,        *)
(* strings with special characters, number / boolean tokens).              *)
(*  theorem : per key path, the sequence of leaf texts of the value equals *)
(*            that of Decode(Encode(value)) (lists transparent, order      *)
(*            kept; nil, "", [] and {} each one empty leaf); one root;     *)
(*            an error exactly when an attribute entry is not a scalar.    *)
(*  output  : the EXACT bytes of Map.Xml(), Map.Xml(root), AnyXml for the  *)
(*            default and the Go empty-element syntax, and the Map the     *)
(*            decoder must return for them.                                *)
(***************************************************************************)
EXTENDS MxjMapGen, MxjXmlEncode, Json
CONSTANTS DoEmit,
          AP, KP        \* attribute prefix and reserved-key prefix (one character each) the encoder runs under
VNilC == [t |-> "n", v |-> <<"n", "i", "l">>]
DefDec == [lower |-> FALSE, snake |-> FALSE, asmap |-> FALSE, keep |-> FALSE, escdec |-> FALSE, tagseq |-> FALSE, apfx |-> AP, kpfx |-> KP, cast |-> FALSE]
EO(go) == [apfx |-> AP, kpfx |-> KP, esc |-> TRUE, goempty |-> go]
TK == <<KP, "t", "e", "x", "t">>
\* domain: the text key and attribute keys hold non-nil scalars where present
RECURSIVE TextOK(_)
TextOK(v) == IF IsMap(v) THEN /\ (TK \in DOMAIN v.kv => IsScalar(v.kv[TK]) /\ v.kv[TK].t # "n")
                              /\ \A k \in DOMAIN v.kv : TextOK(v.kv[k])
             ELSE IF IsList(v) THEN \A i \in 1..Len(v.it) : TextOK(v.it[i]) ELSE TRUE
RECURSIVE AttrBad(_)
AttrBad(v) == IF IsMap(v) THEN \/ \E k \in DOMAIN v.kv : IsAttrKey(EO(FALSE), k) /\ (~IsScalar(v.kv[k]) \/ v.kv[k].t = "n")
                               \/ \E k \in DOMAIN v.kv : AttrBad(v.kv[k])
              ELSE IF IsList(v) THEN \E i \in 1..Len(v.it) : AttrBad(v.it[i]) ELSE FALSE

\* leaves per key path (lists transparent); nil, "", [] and {} are one empty leaf each
RECURSIVE KPL(_, _)
KPL(v, path) ==
  IF IsMap(v) THEN \* an empty text entry is no content
                   LET dom == {k \in DOMAIN v.kv : ~(k = TK /\ IsScalar(v.kv[k]) /\ ScalarText(v.kv[k]) = <<>>)} IN
                   (IF dom = {} THEN <<<<path, <<>>>>>>
                    ELSE LET ks == SortedKeys(dom) IN FlatSeq([i \in 1..Len(ks) |-> KPL(v.kv[ks[i]], IF ks[i] = TK THEN path ELSE Append(path, ks[i]))]))   \* the text key is the element's own content
  ELSE IF IsList(v) THEN (IF v.it = <<>> THEN <<<<path, <<>>>>>> ELSE FlatSeq([i \in 1..Len(v.it) |-> KPL(v.it[i], path)]))
  ELSE <<<<path, ScalarText(v)>>>>
PathSeq(ls, p) == SelectSeq(ls, LAMBDA x : x[1] = p)
SameLeaves(a, b) == LET la == KPL(a, <<>>) lb == KPL(b, <<>>) IN
                    Len(la) = Len(lb) /\ \A i \in 1..Len(la) : PathSeq(la, la[i][1]) = PathSeq(lb, la[i][1])

\* root in C03's domain: multi-key map, or single key whose value is not a list
RootInDomain == Cardinality(DOMAIN m.kv) # 1 \/ ~IsList(m.kv[CHOOSE k \in DOMAIN m.kv : TRUE])
UsesDoc == Cardinality(DOMAIN m.kv) # 1
\* keys are valid XML names: a single top-level key is the root element's name, so it is not an attribute or text key
RootKeyOK == UsesDoc \/ LET k == CHOOSE k \in DOMAIN m.kv : TRUE IN ~IsAttrKey(EO(FALSE), k) /\ k # TK
Thm ==
  (TextOK(m) /\ RootKeyOK) =>
    LET ns == EncodeRoot(m, <<>>, EO(FALSE)) IN
    /\ (HasErr(ns) <=> AttrBad(m))                                   \* an error exactly for a non-scalar attribute entry
    /\ (RootInDomain /\ ~AttrBad(m)) =>
          /\ Len(ns) = 1                                             \* exactly one root
          /\ LET dec == Decode(ns[1], DefDec)
                 inner == IF UsesDoc THEN dec.kv[DocTag] ELSE dec IN
             IF m = EmptyMap THEN dec = VM(DocTag :> VS(<<>>))
             ELSE SameLeaves(inner, m)
\* what the decoder returns for the encoder's output (empty runs are not content)
DecOf(ns) == IF Len(ns) = 1 /\ ~HasErr(ns) THEN Jsonable(Decode(ns[1], DefDec)) ELSE VM(EmptyFn)
Case(kind, go, ns) == [kind |-> kind, go |-> go, x |-> Join(RenderCompact(ns, EO(go))), one |-> Len(ns) = 1 /\ ~HasErr(ns), dec |-> DecOf(ns)]
RT == <<"r">>
RT2 == <<"a">>      \* a root tag that is also a key of the alphabet (a single-key Map {a: ..} is still wrapped)
Emit == (DoEmit /\ TextOK(m) /\ RootKeyOK) =>
   PrintT(ToJson([f |-> "encv", ap |-> AP, kp |-> KP, m |-> Jsonable(m),
      cs |-> SetToSeq(UNION {{Case("xml", go, EncodeRoot(m, <<>>, EO(go))), Case("xmlroot", go, EncodeRoot(m, RT, EO(go))),
                               Case("indentroot", go, EncodeRootIndent(m, <<>>, EO(go))), Case("any", go, AnyXml(m, RT, ElementTag, EO(go))),
                               Case("xmlroota", go, EncodeRoot(m, RT2, EO(go))), Case("anya", go, AnyXml(m, RT2, ElementTag, EO(go)))} : go \in BOOLEAN}),
      \* AnyXml on each top-level value (lists, scalars, nil)
      vs |-> SetToSeq({[key |-> Join(k), go |-> go, x |-> Join(RenderCompact(AnyXml(m.kv[k], RT, ElementTag, EO(go)), EO(go)))] : k \in DOMAIN m.kv, go \in BOOLEAN})]))
Spec == GenSpec
cKeys == {<<"a">>, <<"b">>, Cs1(AP) \o <<"x">>, TK}      \* (with AP = "": no key is an attribute)
cScalars == {VS(<<>>), VS(<<"y">>), VS(<<"<", "&">>), VS(<<"]", "]", ">">>), VS(<<"&", "l", "t", ";">>), VF(<<"1", ".", "5">>), VB(<<"t", "r", "u", "e">>), VNilC}
cScalarsQ == {VS(<<>>), VS(<<"<", "&", "l", "t", ";">>), VS(<<"]", "]", ">">>), VF(<<"1", ".", "5">>), VNilC}
cConts == {EmptyMap, EmptyList}
\* lists inside lists (flattened in list order, whatever follows them): one key, two scalars, up to three members a list
cKeysN == {<<"a">>}
cScalarsN == {VS(<<"y">>), VF(<<"1", ".", "5">>), VF(<<"-", "0">>)}      \* (negative zero is written -0: the number as %v renders it)
cContsN == {EmptyList}
\* two attribute entries on one element, empty and non-empty values (whatever order the runtime visits them in)
cKeysA2 == {<<"a">>, Cs1(AP) \o <<"x">>, Cs1(AP) \o <<"y">>, Cs1(AP) \o <<"z">>}
cScalarsA2 == {VS(<<>>), VS(<<"v">>), VS(<<"w", "\\", "t", "%", "s">>)}      \* (a backslash in an attribute value is written as it is)
=============================================================================
