SPECIFICATION Spec
CONSTANTS
  Keys = {"~", "-~", "#text"}
  Scalars <- cScalarsLong
  Conts <- cConts
  MaxList = 2
  MaxNodes = 4
  PairNodes = 0
  DoEmit = TRUE
INVARIANTS ThmOnePerScalar ThmResolves ThmNoAttr Emit
CHECK_DEADLOCK FALSE
