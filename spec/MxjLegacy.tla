------------------------------ MODULE MxjLegacy ------------------------------
(***************************************************************************)
(* C20: the legacy packages j2x, x2j and x2j-wrapper.                      *)
(* j2x / x2j functions are compositions of core operations (decode, then   *)
(* the Map method, then encode); they add no state.  They are listed here  *)
(* by name with the composition they must equal -- the harness's binding   *)
(* table is checked against this list and against the exported identifiers *)
(* found in the packages' sources.                                         *)
(* x2j-wrapper has walkers of its own; they are specified declaratively in *)
(* terms of the core path semantics (MxjPath).                             *)
(***************************************************************************)
EXTENDS MxjPath

\* ---- x2j-wrapper walkers ----
\* attribute entries (keys starting with '-') are skipped at wildcard steps unless getAttrs
MapValsW(n, ga, AttrKeys) == LET ks == SetToSeq({k \in DOMAIN n.kv : ga \/ k \notin AttrKeys}) IN [i \in 1..Len(ks) |-> n.kv[ks[i]]]
StepStarW(n, ga, AK) ==
  IF IsMap(n) THEN MapValsW(n, ga, AK)
  ELSE IF IsList(n) THEN FlatSeq([i \in 1..Len(n.it) |-> LET e == n.it[i] IN IF IsMap(e) THEN MapValsW(e, ga, AK) ELSE <<e>>])
  ELSE <<>>
RECURSIVE OldW(_, _, _, _)
OldW(n, ks, ga, AK) == IF ks = <<>> THEN Final(n)
                       ELSE LET nx == IF Head(ks) = "*" THEN StepStarW(n, ga, AK) ELSE StepKey(n, Head(ks))
                            IN FlatSeq([i \in 1..Len(nx) |-> OldW(nx[i], Tail(ks), ga, AK)])
\* ValuesFromKeyPath(m, path, getAttrs)
WValuesFrom(m, ks, ga, AK) == OldW(m, ks, ga, AK)
\* ValuesAtKeyPath: the values of the path without its last key, provided one of them has the last key (or it is '*')
WValuesAt(m, ks, ga, AK) ==
  LET front == IF Len(ks) > 1 THEN OldW(m, SubSeq(ks, 1, Len(ks) - 1), ga, AK) ELSE <<m>>
      last == ks[Len(ks)] IN
  IF front = <<>> THEN <<>>
  ELSE IF last = "*" THEN front
  ELSE IF \E i \in 1..Len(front) : IsMap(front[i]) /\ last \in DOMAIN front[i].kv THEN front ELSE <<>>
\* agreement with the core: without attribute entries in the way the walkers ARE the core path semantics
WFromAgrees(m, ks, AK) == WValuesFrom(m, ks, TRUE, AK) = Old(m, ks)
WPathsForKey(m, key) == PFK(m, key, <<>>)            \* = Map.PathsForKey

\* ---- binding table: exported function |-> documented composition ----
Bindings == [
  JsonToMap |-> "NewMapJson", MapToJson |-> "Map.Json(safe)", JsonToXml |-> "Xml . NewMapJson", JsonToXmlWriter |-> "XmlWriter . NewMapJson",
  JsonReaderToXml |-> "<raw, Xml . NewMapJsonReaderRaw>", JsonReaderToXmlWriter |-> "XmlWriter . NewMapJsonReader",
  JsonPathsForKey |-> "PathsForKey . NewMapJson", JsonPathForKeyShortest |-> "PathForKeyShortest . NewMapJson",
  JsonValuesForKey |-> "ValuesForKey . NewMapJson", JsonValuesForKeyPath |-> "ValuesForPath . NewMapJson",
  JsonUpdateValsForPath |-> "Json . UpdateValuesForPath . NewMapJson", JsonNewJson |-> "Json . NewMap . NewMapJson", JsonNewXml |-> "Xml . NewMap . NewMapJson",
  JsonLeafNodes |-> "LeafNodes . NewMapJson", JsonLeafValues |-> "LeafValues . NewMapJson", JsonLeafPath |-> "LeafPaths . NewMapJson",
  XmlToMap |-> "NewMapXml", MapToXml |-> "Map.Xml", XmlToJson |-> "Json(safe) . NewMapXml", XmlToJsonWriter |-> "JsonWriterRaw(safe) . NewMapXml",
  XmlReaderToJson |-> "<raw, Json(safe) . NewMapXmlReaderRaw>", XmlReaderToJsonWriter |-> "<raw, JsonWriterRaw(safe) . NewMapXmlReaderRaw>",
  XmlPathsForTag |-> "PathsForKey . NewMapXml", XmlPathForTagShortest |-> "PathForKeyShortest . NewMapXml",
  XmlValuesForTag |-> "ValuesForKey . NewMapXml", XmlValuesForPath |-> "ValuesForPath . NewMapXml",
  XmlUpdateValsForPath |-> "Xml . UpdateValuesForPath . NewMapXml", XmlNewXml |-> "Xml . NewMap . NewMapXml", XmlNewJson |-> "Json . NewMap . NewMapXml",
  XmlLeafNodes |-> "LeafNodes . NewMapXml", XmlLeafValues |-> "LeafValues . NewMapXml", XmlLeafPath |-> "LeafPaths . NewMapXml",
  ToMap |-> "NewMapXmlReader(cast)", ToJson |-> "json . NewMapXmlReader(cast)", ToJsonIndent |-> "json-indent . NewMapXmlReader(cast)",
  DocToMap |-> "NewMapXml(cast)", DocToJson |-> "Json . NewMapXml(cast)", DocToJsonIndent |-> "JsonIndent . NewMapXml(cast)",
  ByteDocToMap |-> "NewMapXml(cast)", ByteDocToJson |-> "Json . NewMapXml(cast)",
  PathsForKey |-> "Map.PathsForKey", PathForKeyShortest |-> "Map.PathForKeyShortest", PathsForTag |-> "PathsForKey . NewMapXml", PathForTagShortest |-> "PathForKeyShortest . NewMapXml",
  BytePathsForTag |-> "PathsForKey . NewMapXml", BytePathForTagShortest |-> "PathForKeyShortest . NewMapXml",
  ValuesFromKeyPath |-> "WValuesFrom", ValuesFromTagPath |-> "WValuesFrom . NewMapXml", ReaderValuesFromTagPath |-> "WValuesFrom . NewMapXmlReader",
  ValuesAtKeyPath |-> "WValuesAt", ValuesAtTagPath |-> "WValuesAt . NewMapXml",
  XmlMsgsFromReader |-> "handler loop of MxjStream over NewMapXmlReader(cast)", XmlMsgsFromReaderAsJson |-> "handler loop, Json of each Map",
  XmlMsgsFromFile |-> "XmlMsgsFromReader on the file", XmlMsgsFromFileAsJson |-> "XmlMsgsFromReaderAsJson on the file",
  XmlBufferToMap |-> "NewMapXmlReader(cast) on the buffer", XmlBufferToJson |-> "json . NewMapXmlReader(cast) on the buffer"]
\* exported, but with semantics of their own (not wrappers of a core function): out of C20's scope
OutOfScope == {"WriteMap", "DocValue", "MapValue", "NewAttributeMap", "ValuesForTag", "ValuesForKey", "ReaderValuesForTag", "Unmarshal", "CastNanInf"}
=============================================================================
