------------------------------- MODULE MC_C04w -------------------------------
(***************************************************************************)
(* C04 beyond the builder's reach in WIDTH: one element with n attributes  *)
(* and n children (names a / b alternating, so that two lists interleave)  *)
(* for n up to 25 -- sequence numbers of two digits: the order is numeric. *)
(***************************************************************************)
EXTENDS MC_C04
AN(i) == N(<<"x">> \o Digits(i))
WAttrs(n) == [i \in 1..n |-> [nm |-> AN(n + 1 - i), v |-> Digits(i)]]            \* names descending: position order is not name order
WKids(n) == [i \in 1..n |-> XE(N(IF i % 2 = 0 THEN <<"a">> ELSE <<"b">>), <<>>, <<XT(<<"t">> \o Digits(i))>>)]
W(n) == XE(N(<<"r">>), WAttrs(n), WKids(n))
InitW == d \in {W(n) : n \in {3, 10, 11, 12, 25}}
SpecW == InitW /\ [][UNCHANGED d]_d
=============================================================================
