SPECIFICATION Spec
CONSTANTS
  Keys = {"a", "~"}
  Scalars <- cScalarsLong
  Conts <- cConts
  MaxList = 2
  MaxNodes = 4
  PairNodes = 0
  OldPaths <- cOldPathsLong
  NewPaths <- cNewPathsLong
  MaxPairs = 2
  DoEmit = TRUE
INVARIANTS ThmContent Emit
CHECK_DEADLOCK FALSE
