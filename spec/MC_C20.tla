------------------------------- MODULE MC_C20 -------------------------------
EXTENDS MxjMapGen, MxjLegacy, Json
CONSTANTS SearchKeys, PathNames, MaxPath
AK == {"-x"}
RECURSIVE NamePaths(_)
NamePaths(l) == IF l = 0 THEN {<<>>}
                ELSE LET P == NamePaths(l-1) IN P \cup {Append(p, s) : p \in {q \in P : Len(q) = l-1}, s \in PathNames}
Paths == NamePaths(MaxPath) \ {<<>>}
\* theorem: with attributes requested the wrapper's walker is the core path semantics
ThmAgrees == \A p \in Paths : WFromAgrees(m, p, AK)
ThmPaths == \A k \in SearchKeys : WPathsForKey(m, k) = PFK(m, k, <<>>)
PCase(key) == LET ps == PFK(m, key, <<>>) IN [key |-> key, paths |-> SetToSeq({DotJoin(p) : p \in ps}), sl |-> ShortestLen(ps), vals |-> VFK(m, key, {})]
WCase(p) == [p |-> DotJoin(p), w |-> IF HasStar(p) THEN "1" ELSE "0", core |-> Old(m, p),
             from0 |-> WValuesFrom(m, p, FALSE, AK), from1 |-> WValuesFrom(m, p, TRUE, AK),
             at0 |-> WValuesAt(m, p, FALSE, AK), at1 |-> WValuesAt(m, p, TRUE, AK)]
Emit == PrintT(ToJson([f |-> "legacy", m |-> m, ks |-> SetToSeq({PCase(k) : k \in SearchKeys}), ps |-> SetToSeq({WCase(p) : p \in Paths}),
                       bound |-> SetToSeq(DOMAIN Bindings), oos |-> SetToSeq(OutOfScope)]))
Spec == GenSpec
\* beyond the builder's reach in depth: chains of nested maps / repeated elements 4 to 10 levels deep, with a sibling
\* key walked after every hit (the wrappers keep their own trail of the path walked so far)
RECURSIVE DChain(_)
DChain(n) == IF n = 0 THEN VS("x") ELSE VM(("a" :> DChain(n - 1)) @@ ("b" :> VS("x")) @@ ("c" :> VS("<&")))
RECURSIVE EChain(_)
EChain(n) == IF n = 0 THEN VS("x") ELSE VM("a" :> VL(<<VM(("b" :> VS("x")) @@ ("a" :> EChain(n - 1))), VM("c" :> VS("x"))>>))
\* the same key at two depths, the DEEPER path being the textually shorter one (names of different widths)
WidthMaps == {VM(("publications" :> VM("c" :> VS("x"))) @@ ("a" :> VM("b" :> VM("z" :> VM("c" :> VS("x")))))),
              VM(("publications" :> VL(<<VM("c" :> VS("x")), VM("b" :> VS("x"))>>)) @@ ("a" :> VL(<<VM("b" :> VM("z" :> VL(<<VM("c" :> VS("x"))>>)))>>)))}
DeepFam == {DChain(n) : n \in {3, 4, 5, 6, 8, 10}} \cup {EChain(n) : n \in {2, 3, 4, 5}} \cup WidthMaps
SpecDeep == m \in DeepFam /\ b1 = EmptyMap /\ b2 = EmptyMap /\ [][UNCHANGED genvars]_genvars
cScalars == {VS("x"), VS("<&")}
cConts == {EmptyMap, EmptyList}
cScalars1 == {VS("x")}       \* (one key, one scalar, six nodes: lists inside lists with maps inside)
=============================================================================
