------------------------------- MODULE MC_C20 -------------------------------
EXTENDS MxjMapGen, MxjLegacy, Json
CONSTANTS SearchKeys, PathNames, MaxPath
AK == {"-x"}
RECURSIVE NamePaths(_)
NamePaths(l) == IF l = 0 THEN {<<>>}
                ELSE LET P == NamePaths(l-1) IN P \cup {Append(p, s) : p \in {q \in P : Len(q) = l-1}, s \in PathNames}
Paths == NamePaths(MaxPath) \ {<<>>}
\* theorem: with attributes requested the wrapper's walker is the core path semantics
ThmAgrees == \A p \in Paths : WFromAgrees(m, p, AK)
ThmPaths == \A k \in SearchKeys : WPathsForKey(m, k) = PFK(m, k, <<>>)
PCase(key) == LET ps == PFK(m, key, <<>>) IN [key |-> key, paths |-> SetToSeq({DotJoin(p) : p \in ps}), sl |-> ShortestLen(ps), vals |-> VFK(m, key, {})]
WCase(p) == [p |-> DotJoin(p), w |-> IF HasStar(p) THEN "1" ELSE "0", core |-> Old(m, p),
             from0 |-> WValuesFrom(m, p, FALSE, AK), from1 |-> WValuesFrom(m, p, TRUE, AK),
             at0 |-> WValuesAt(m, p, FALSE, AK), at1 |-> WValuesAt(m, p, TRUE, AK)]
Emit == PrintT(ToJson([f |-> "legacy", m |-> m, ks |-> SetToSeq({PCase(k) : k \in SearchKeys}), ps |-> SetToSeq({WCase(p) : p \in Paths}),
                       bound |-> SetToSeq(DOMAIN Bindings), oos |-> SetToSeq(OutOfScope)]))
Spec == GenSpec
cScalars == {VS("x"), VS("<&")}
cConts == {EmptyMap, EmptyList}
=============================================================================
