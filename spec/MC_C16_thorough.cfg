SPECIFICATION Spec
CONSTANTS
  CKeys <- cKeys
  CVals <- cVals
  MaxHist = 4
  DoEmit = TRUE
INVARIANTS ThmFunctionOfContent ThmAscending Emit
CHECK_DEADLOCK FALSE
