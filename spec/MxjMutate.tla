----------------------------- MODULE MxjMutate -----------------------------
(***************************************************************************)
(* The mutators of mxj over abstract values:                               *)
(*   UpdateOp   UpdateValuesForPath   (operational; one case per branch)   *)
(*   SetOp      SetValueForPath                                            *)
(*   RemoveOp   Remove                                                     *)
(*   RenameOp   RenameKey                                                  *)
(*   NewMapOp   NewMap                                                     *)
(* and, written separately and declaratively, the frame conditions the     *)
(* listed properties state (C10, C11, C12): which locations may differ     *)
(* between pre- and post-state.  TLC checks operational vs declarative on  *)
(* every Map of the bounded space; the harness replays every transition.   *)
(***************************************************************************)
EXTENDS MxjPath

IsPfx(a, b) == Len(a) <= Len(b) /\ SubSeq(b, 1, Len(a)) = a
R(n, c) == [n |-> n, c |-> c]
SumC(rs) == SumSeq([i \in 1..Len(rs) |-> rs[i].c])
ListR(rs) == R(VL([i \in 1..Len(rs) |-> rs[i].n]), SumC(rs))
PutKV(n, k, v) == VM(IF k \in DOMAIN n.kv THEN [n.kv EXCEPT ![k] = v] ELSE n.kv @@ (k :> v))

(************************** UpdateValuesForPath *****************************)
\* UpdEnd: the last path key k0 applied to node n  (updateValue)
RECURSIVE UpdEnd(_, _, _, _, _)
RECURSIVE UpdFoldKeys(_, _, _, _, _)
UpdFoldKeys(key, val, n, ks, conds) ==
  IF ks = <<>> THEN R(n, 0)
  ELSE LET r1 == UpdEnd(key, val, n, Head(ks), conds)
           r2 == UpdFoldKeys(key, val, r1.n, Tail(ks), conds)
       IN R(r2.n, r1.c + r2.c)

UpdEnd(key, val, n, k0, conds) ==
  IF IsMap(n) THEN
     IF k0 = "*" THEN UpdFoldKeys(key, val, n, KeySeq(n), conds)
     ELSE IF key = k0 THEN
        \* path ends in the key to set
        IF k0 \in DOMAIN n.kv /\ IsList(n.kv[k0]) /\ ~SubKeyPred(n, conds) THEN
           \* list value and the parent does not satisfy the conditions: replace matching members
           LET its == n.kv[k0].it
               rs == [i \in 1..Len(its) |-> IF SubKeyPred(its[i], conds) THEN R(val, 1) ELSE R(its[i], 0)]
           IN IF SumC(rs) > 0 THEN R(VM([n.kv EXCEPT ![k0] = ListR(rs).n]), SumC(rs)) ELSE R(n, 0)
        ELSE IF SubKeyPred(n, conds) THEN R(PutKV(n, k0, val), 1)     \* incl. UpsertAtPathEnd
        ELSE R(n, 0)
     ELSE IF k0 \notin DOMAIN n.kv THEN R(n, 0)
     ELSE LET e == n.kv[k0] IN
        IF IsMap(e) THEN
           IF SubKeyPred(e, conds) /\ key \in DOMAIN e.kv THEN R(VM([n.kv EXCEPT ![k0] = PutKV(e, key, val)]), 1) ELSE R(n, 0)
        ELSE IF IsList(e) THEN
           LET rs == [i \in 1..Len(e.it) |-> LET x == e.it[i] IN
                        IF IsMap(x) /\ key \in DOMAIN x.kv /\ SubKeyPred(x, conds) THEN R(PutKV(x, key, val), 1) ELSE R(x, 0)]
           IN R(VM([n.kv EXCEPT ![k0] = ListR(rs).n]), SumC(rs))
        ELSE R(n, 0)
  ELSE IF IsList(n) THEN
     \* the node before the last key is a list: its map members are the nodes
     LET rs == [i \in 1..Len(n.it) |-> LET x == n.it[i] IN
                  IF ~IsMap(x) THEN R(x, 0)
                  ELSE IF key = k0 \/ k0 = "*" THEN
                       (IF key \in DOMAIN x.kv /\ SubKeyPred(x, conds) THEN R(PutKV(x, key, val), 1) ELSE R(x, 0))
                  ELSE UpdEnd(key, val, x, k0, conds)]       \* intended: descend with the last key
     IN ListR(rs)
  ELSE R(n, 0)

\* UpdNav: navigation through the path up to the penultimate key (updateValuesForKeyPath)
RECURSIVE UpdNav(_, _, _, _, _)
RECURSIVE UpdFoldEntries(_, _, _, _, _, _)
UpdFoldEntries(key, val, n, ks, rest, conds) ==
  IF ks = <<>> THEN R(n, 0)
  ELSE LET k == Head(ks)
           r1 == UpdNav(key, val, n.kv[k], rest, conds)
           r2 == UpdFoldEntries(key, val, VM([n.kv EXCEPT ![k] = r1.n]), Tail(ks), rest, conds)
       IN R(r2.n, r1.c + r2.c)
UpdNav(key, val, n, keys, conds) ==
  IF Len(keys) = 1 THEN UpdEnd(key, val, n, keys[1], conds)
  ELSE LET k == Head(keys) rest == Tail(keys) IN
    IF k = "*" THEN
       IF IsMap(n) THEN UpdFoldEntries(key, val, n, KeySeq(n), rest, conds)
       ELSE IF IsList(n) THEN
            ListR([i \in 1..Len(n.it) |-> LET x == n.it[i] IN
                         IF IsMap(x) THEN UpdFoldEntries(key, val, x, KeySeq(x), rest, conds)
                         ELSE UpdNav(key, val, x, rest, conds)])
       ELSE R(n, 0)
    ELSE
       IF IsMap(n) THEN (IF k \in DOMAIN n.kv THEN UpdFoldEntries(key, val, n, <<k>>, rest, conds) ELSE R(n, 0))
       ELSE IF IsList(n) THEN
            ListR([i \in 1..Len(n.it) |-> LET x == n.it[i] IN
                         IF IsMap(x) /\ k \in DOMAIN x.kv THEN UpdFoldEntries(key, val, x, <<k>>, rest, conds) ELSE R(x, 0)])
       ELSE R(n, 0)
UpdateOp(m, key, val, path, conds) == UpdNav(key, val, m, path, conds)

(******************** declarative frame condition (C10) *********************)
\* locations at which two values differ (top-most)
RECURSIVE Diff(_, _, _)
Diff(a, b, loc) ==
  IF a = b THEN {}
  ELSE IF IsMap(a) /\ IsMap(b) THEN
       UNION {Diff(a.kv[k], b.kv[k], Append(loc, [k |-> k, i |-> 0])) : k \in (DOMAIN a.kv) \cap (DOMAIN b.kv)}
       \cup {Append(loc, [k |-> k, i |-> 0]) : k \in ((DOMAIN a.kv) \ (DOMAIN b.kv)) \cup ((DOMAIN b.kv) \ (DOMAIN a.kv))}
  ELSE IF IsList(a) /\ IsList(b) /\ Len(a.it) = Len(b.it) THEN
       UNION {Diff(a.it[i], b.it[i], Append(loc, [k |-> "", i |-> i])) : i \in 1..Len(a.it)}
  ELSE {loc}

\* the same, not descending below a location where the new state holds the (fresh) new value v: a container
\* replaced by a container is ONE replacement
RECURSIVE DiffV(_, _, _, _)
DiffV(a, b, loc, v) ==
  IF a = b THEN {}
  ELSE IF b = v THEN {loc}
  ELSE IF IsMap(a) /\ IsMap(b) THEN
       UNION {DiffV(a.kv[k], b.kv[k], Append(loc, [k |-> k, i |-> 0]), v) : k \in (DOMAIN a.kv) \cap (DOMAIN b.kv)}
       \cup {Append(loc, [k |-> k, i |-> 0]) : k \in ((DOMAIN a.kv) \ (DOMAIN b.kv)) \cup ((DOMAIN b.kv) \ (DOMAIN a.kv))}
  ELSE IF IsList(a) /\ IsList(b) /\ Len(a.it) = Len(b.it) THEN
       UNION {DiffV(a.it[i], b.it[i], Append(loc, [k |-> "", i |-> i]), v) : i \in 1..Len(a.it)}
  ELSE {loc}

LastStep(loc) == loc[Len(loc)]
\* the (key-)location of the k entry that holds the changed value: either loc itself
\* (ends in key k) or its parent (loc is a member of the list stored under k)
EntryLoc(loc) == IF LastStep(loc).i = 0 THEN loc ELSE Front(loc)
\* val is assumed fresh (occurs nowhere in pre), so every replacement is visible in Diff
UpdateFrame(pre, post, cnt, key, val, path, conds) ==
  LET D == DiffV(pre, post, <<>>, val) IN
  /\ Cardinality(D) = cnt                      \* the count is the number of replaced values
  /\ (cnt = 0 => post = pre)
  /\ \A loc \in D :
        /\ loc # <<>>
        /\ At(post, loc) = val                 \* replaced by the new value, nothing else
        /\ LET el == EntryLoc(loc) IN
           /\ el # <<>> /\ LastStep(el).i = 0 /\ LastStep(el).k = key      \* only values stored under key
           /\ \/ LocMatch(post, el, path)                                  \* path's last key is key (or '*')
              \/ LocMatch(post, el, Append(path, key))                     \* k entry of a node the path yields
        /\ conds # {} =>                       \* only where the sub-key conditions hold: on the map that
              \/ SubKeyPred(At(pre, Front(EntryLoc(loc))), conds)          \* holds the k entry, or on the
              \/ (LastStep(loc).i # 0 /\ SubKeyPred(At(pre, loc), conds))   \* replaced list member itself

\* path ends in key, no conditions, val not a list: the path afterwards yields cnt copies of val
UpdateReadBack(post, cnt, key, val, path, conds) ==
  (path[Len(path)] = key /\ conds = {} /\ ~IsList(val)) =>
     Old(post, path) = [i \in 1..cnt |-> val]

(************************ Set / Remove / Rename *****************************)
RECURSIVE MapWalk(_, _)      \* every step is a map that holds the key (prevValueByPath)
MapWalk(n, ks) ==
  IF ~IsMap(n) \/ Head(ks) \notin DOMAIN n.kv THEN FALSE
  ELSE IF Len(ks) = 1 THEN TRUE
  ELSE MapWalk(n.kv[Head(ks)], Tail(ks))
RECURSIVE SetAt(_, _, _)
SetAt(n, ks, v) == IF Len(ks) = 1 THEN PutKV(n, Head(ks), v)
                   ELSE VM([n.kv EXCEPT ![Head(ks)] = SetAt(@, Tail(ks), v)])
RECURSIVE DelAt(_, _)
DelAt(n, ks) == IF Len(ks) = 1 THEN VM([k \in (DOMAIN n.kv) \ {Head(ks)} |-> n.kv[k]])
                ELSE VM([n.kv EXCEPT ![Head(ks)] = DelAt(@, Tail(ks))])
RECURSIVE GetAt(_, _)
GetAt(n, ks) == IF ks = <<>> THEN n ELSE GetAt(n.kv[Head(ks)], Tail(ks))
MapsOnly(n, ks) == ks = <<>> \/ (MapWalk(n, ks) /\ IsMap(GetAt(n, ks)))
PathExists(n, ks) == Old(n, ks) # <<>>

O(out, post) == [out |-> out, post |-> post]
RemoveOp(n, ks) == IF MapWalk(n, ks) THEN O("ok", DelAt(n, ks)) ELSE O("err", n)
RenameOp(n, ks, new) ==
  IF ~PathExists(n, ks) THEN O("err", n)
  ELSE IF PathExists(n, Append(Front(ks), new)) THEN O("err", n)   \* any depth, top level included
  ELSE IF new = "" THEN O("err", n)   \* (as implemented: the existence test of the new path reads a trailing empty key as its parent -- the empty name is always refused, cleanly)
  ELSE IF ~MapWalk(n, ks) THEN O("err", n)
  ELSE O("ok", SetAt(DelAt(n, ks), Append(Front(ks), new), GetAt(n, ks)))
SetOp(n, ks, v) ==
  LET par == Front(ks)
      pv  == Old(n, par) IN
  IF pv = <<>> THEN O("err", n)
  ELSE IF pv[1] = VNil THEN O("ok", n)          \* documented no-op: parent value is nil
  ELSE IF ~IsMap(pv[1]) THEN O("err", n)        \* parent is not a map: clean failure
  ELSE IF MapsOnly(n, par) THEN O("ok", SetAt(n, ks, v))
  ELSE O("skip", n)                             \* parent reached through a list: outside C11's domain

KeyLoc(ks) == [i \in 1..Len(ks) |-> [k |-> ks[i], i |-> 0]]
\* C11 frame: on success exactly the addressed entry differs; otherwise nothing does
SetFrame(pre, r, ks, v) ==
  /\ r.out = "ok" => \A loc \in Diff(pre, r.post, <<>>) : IsPfx(KeyLoc(ks), loc)    \* nothing outside the entry
  /\ r.out = "ok" /\ IsMap(Old(pre, Front(ks))[1]) => (MapWalk(r.post, ks) /\ GetAt(r.post, ks) = v /\ Old(r.post, ks) = Final(v))
  /\ r.out # "ok" => r.post = pre
RemoveFrame(pre, r, ks) ==
  /\ r.out = "ok" => (Diff(pre, r.post, <<>>) = {KeyLoc(ks)} /\ ~PathExists(r.post, ks))
  /\ r.out # "ok" => r.post = pre
RenameFrame(pre, r, ks, new) ==
  /\ r.out = "ok" => /\ Diff(pre, r.post, <<>>) = {KeyLoc(ks), KeyLoc(Append(Front(ks), new))}
                     /\ GetAt(r.post, Append(Front(ks), new)) = GetAt(pre, ks)
                     /\ ~MapWalk(r.post, ks)
                     /\ ~MapWalk(pre, Append(Front(ks), new))      \* never overwrites a sibling
  /\ r.out # "ok" => r.post = pre

(********************************* NewMap ***********************************)
\* pairs: sequence of [old |-> indexed path keys, new |-> key sequence]
Overlapping(pairs) == \E i, j \in 1..Len(pairs) : i # j /\ IsPfx(pairs[i].new, pairs[j].new)
RECURSIVE PutFresh(_, _, _)       \* insert v at a fresh path (creating maps on the way)
PutFresh(n, ks, v) == IF Len(ks) = 1 THEN VM(n.kv @@ (Head(ks) :> v))
                      ELSE IF Head(ks) \in DOMAIN n.kv THEN VM([n.kv EXCEPT ![Head(ks)] = PutFresh(@, Tail(ks), v)])
                      ELSE VM(n.kv @@ (Head(ks) :> PutFresh(EmptyMap, Tail(ks), v)))
ValOf(vals) == IF Len(vals) = 1 THEN vals[1] ELSE VL(vals)
RECURSIVE NewMapFold(_, _, _)
NewMapFold(m, pairs, acc) ==
  IF pairs = <<>> THEN acc
  ELSE LET v == VFA(m, Head(pairs).old) IN
       NewMapFold(m, Tail(pairs), IF v = <<>> THEN acc ELSE PutFresh(acc, Head(pairs).new, ValOf(v)))
\* content is claimed only for non-overlapping new paths
NewMapOp(m, pairs) == IF Overlapping(pairs) THEN EmptyMap ELSE NewMapFold(m, pairs, EmptyMap)
\* declarative content rule: the result holds exactly the projected values, nothing else
NewMapContent(m, pairs, res) ==
  ~Overlapping(pairs) =>
     /\ \A i \in 1..Len(pairs) : LET v == VFA(m, pairs[i].old) IN
           IF v = <<>> THEN ~MapWalk(res, pairs[i].new)            \* old paths that yield nothing are skipped
           ELSE MapWalk(res, pairs[i].new) /\ GetAt(res, pairs[i].new) = ValOf(v)
     /\ \* nothing else: every leaf location of res lies at or below some new path
        \A loc \in Locs(res) \ {<<>>} : IsScalar(At(res, loc)) \/ At(res, loc) = EmptyMap \/ At(res, loc) = EmptyList =>
           \E i \in 1..Len(pairs) : VFA(m, pairs[i].old) # <<>> /\ Len(loc) >= Len(pairs[i].new)
                                     /\ SubSeq(loc, 1, Len(pairs[i].new)) = KeyLoc(pairs[i].new)
=============================================================================
