SPECIFICATION SpecW
CONSTANTS
  Alpha <- cOrder
  MaxElems = 4
  MaxTextKids = 1
  MaxExtras = 0
  DoEmit = TRUE
INVARIANTS Check
CHECK_DEADLOCK FALSE
