SPECIFICATION Spec
CONSTANTS
  Chunks <- cPathChunks
  MaxChunks = 4
  Kind = "path"
INVARIANTS Total EmitPath
CHECK_DEADLOCK FALSE
