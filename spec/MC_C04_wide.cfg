SPECIFICATION Spec
CONSTANTS
  Alpha <- cWide
  MaxElems = 6
  MaxTextKids = 0
  MaxExtras = 0
  DoEmit = TRUE
INVARIANTS Check
CHECK_DEADLOCK FALSE
