SPECIFICATION Spec
CONSTANTS
  Profiles <- cJsonHandler
  MaxZero = 1
  Design = "ok"
  Caller = "handler"
  DoEmit = TRUE
INVARIANTS Safety Emit
PROPERTIES Terminates
