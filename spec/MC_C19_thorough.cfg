SPECIFICATION Spec
CONSTANTS
  Keys <- cKeys
  Scalars <- cScalars
  Conts <- cConts
  MaxList = 2
  MaxNodes = 0
  PairNodes = 3
INVARIANTS ThmXmlBack Emit
CHECK_DEADLOCK FALSE
