------------------------------ MODULE MxjConc ------------------------------
(***************************************************************************)
(* C17: queries and encoders never modify their receiver and may run       *)
(* concurrently.  G goroutines each run a program (a sequence of           *)
(* operations: decode private data, encode / query the shared Map, encode  *)
(* / query a private Map).  An operation is a sequence of segments between *)
(* scheduler gates (the gate hook at the head of the code's walkers); a    *)
(* step runs one goroutine from its current gate to the next.              *)
(*  design "ok"      : an operation reads its inputs and writes only its   *)
(*                     own result                                          *)
(*  design "scratch" : (negative test) operations share a package-level    *)
(*                     scratch buffer written in the first segment and     *)
(*                     read in the last                                    *)
(* Invariants: the shared Map is never written; on completion every result *)
(* equals the result of running the operation alone.                       *)
(***************************************************************************)
EXTENDS Integers, Sequences, FiniteSets, TLC
CONSTANTS NProcs,      \* number of goroutines
          Progs,       \* <<program of goroutine 1, ...>>, a program = sequence of operation names
          Segs,        \* [operation name |-> number of segments (gates + 1)]
          Design
VARIABLES pc,       \* pc[g] = <<index of current operation, segments done in it>>
          shared,   \* version of the shared Map (must stay 0)
          scratch,  \* package-level scratch (design "scratch")
          results,  \* results[g] = sequence of results of completed operations
          sched     \* history: the schedule (sequence of goroutine ids)
vars == <<pc, shared, scratch, results, sched>>
Procs == 1..NProcs
Done(g) == pc[g][1] > Len(Progs[g])
CurOp(g) == Progs[g][pc[g][1]]
\* the result an operation has when it runs alone: its name tagged with its owner
Alone(g, i) == <<Progs[g][i], g>>
Init == /\ pc = [g \in Procs |-> <<1, 0>>]
        /\ shared = 0 /\ scratch = <<"none", 0>>
        /\ results = [g \in Procs |-> <<>>]
        /\ sched = <<>>
Step(g) ==
  /\ ~Done(g)
  /\ LET op == CurOp(g)
         k == pc[g][2]
         last == k + 1 = Segs[op] IN
     /\ sched' = Append(sched, g)
     /\ shared' = shared                                            \* read-only operations: the shared Map is never written
     /\ scratch' = IF Design = "scratch" /\ k = 0 THEN <<op, g>> ELSE scratch
     /\ IF last
          THEN /\ pc' = [pc EXCEPT ![g] = <<@[1] + 1, 0>>]
               /\ results' = [results EXCEPT ![g] = Append(@, IF Design = "scratch" THEN (IF k = 0 THEN <<op, g>> ELSE scratch) ELSE <<op, g>>)]
          ELSE /\ pc' = [pc EXCEPT ![g] = <<@[1], k + 1>>]
               /\ results' = results
AllDone == \A g \in Procs : Done(g)
Next == (\E g \in Procs : Step(g)) \/ (AllDone /\ UNCHANGED vars)
Spec == Init /\ [][Next]_vars /\ WF_vars(Next)
SharedUnchanged == shared = 0
SequentialResults == \A g \in Procs : \A i \in 1..Len(results[g]) : results[g][i] = Alone(g, i)
Terminates == <>AllDone
=============================================================================
