------------------------------- MODULE MC_Wide -------------------------------
(***************************************************************************)
(* C07/C08 beyond the builder's reach: Maps and lists wider than the       *)
(* internal initial result capacity (32).  The state is one member of a    *)
(* parametric family of wide Maps; the expected results of a fixed set of  *)
(* paths and keys come from the same operators (MxjPath).                  *)
(***************************************************************************)
EXTENDS MxjMutate, Json
CONSTANTS Widths, DoEmit
VARIABLE m
SV(i) == VS("v" \o ToString(i))
KN(i) == "k" \o ToString(i)
W1(n) == VM("a" :> VL([i \in 1..n |-> SV(i)]))                                   \* list of n scalars
W2(n) == VM("a" :> VL([i \in 1..n |-> VM("b" :> SV(i))]))                        \* list of n maps
W3(n) == VM("a" :> VM([k \in {KN(i) : i \in 1..n} |-> VS(k)]))                   \* map with n keys
W4(n) == VM("a" :> VL(<<VM("b" :> VL([i \in 1..n |-> SV(i)])), VM("b" :> VL([i \in 1..3 |-> SV(100 + i)]))>>))
W5(n) == VM(("a" :> VL([i \in 1..n |-> VM(("b" :> SV(i)) @@ ("c" :> VS(IF i % 2 = 0 THEN "x" ELSE "y")))])) @@ ("b" :> VS("top")))
Fam == {W1(n) : n \in Widths} \cup {W2(n) : n \in Widths} \cup {W3(n) : n \in Widths} \cup {W4(n) : n \in Widths} \cup {W5(n) : n \in Widths}
Init == m \in Fam
Next == UNCHANGED m
Spec == Init /\ [][Next]_m
Idxs == {0, 1, 30, 31, 32, 33, 63, 64, 255, 256, 299}
P1(a) == <<PK(a, -1)>>
P2(a, b) == <<PK(a, -1), PK(b, -1)>>
Paths == {P1("a"), P1("*"), P2("a", "b"), P2("a", "*"), P2("*", "b"), P2("*", "*"), P2("a", "c"),
          <<PK("a", -1), PK("*", -1), PK("*", -1)>>, <<PK("*", -1), PK("b", -1), PK("*", -1)>>}
         \cup {<<PK("a", i)>> : i \in Idxs} \cup {<<PK("a", i), PK("b", -1)>> : i \in Idxs}
         \cup {<<PK("a", -1), PK("b", i)>> : i \in Idxs} \cup {<<PK("a", 0), PK("b", i)>> : i \in Idxs}
         \cup {<<PK("a", i), PK("b", 0)>> : i \in Idxs}
IsWild(p) == \E i \in 1..Len(p) : p[i].name = "*"
Case(p) == [p |-> PathStr(p), w |-> IF IsWild(p) THEN "1" ELSE "0", r |-> VFA(m, p)]
CondSets == {{}, {[k |-> "c", neg |-> FALSE, kind |-> "s", v |-> "x"]}, {[k |-> "c", neg |-> TRUE, kind |-> "s", v |-> "x"]}}
KCase(key, cs) == [key |-> key, conds |-> SetToSeq(cs), r |-> VFK(m, key, cs)]
ThmDenotes == \A p \in {q \in Paths : \A i \in 1..Len(q) : q[i].idx < 0} : DenotesThm(m, Names(p))
ThmKeySearch == \A key \in {"a", "b", "c"} : KeySearchThm(m, key)
EmitVfp == DoEmit => PrintT(ToJson([f |-> "vfp", m |-> m, cs |-> SetToSeq({Case(p) : p \in Paths})]))
\* C09 on lists longer than 256 members: every leaf path (a[N] / a.N notation) and its value; the harness resolves each path again
LCase(na, dot) == [na |-> na, dot |-> dot, ak |-> <<>>, r |-> LeafSeq(m, na, dot, {}, "#text")]
EmitLeaf == DoEmit => PrintT(ToJson([f |-> "leaf", m |-> m, cs |-> SetToSeq({LCase(na, dot) : na \in BOOLEAN, dot \in BOOLEAN})]))
\* C12 on wide lists: a projection that carries more values than the initial result capacity
NMPairs == {<<[old |-> <<PK("a", -1)>>, new |-> <<"p">>]>>, <<[old |-> <<PK("a", -1), PK("b", -1)>>, new |-> <<"p", "q">>]>>,
            <<[old |-> <<PK("*", -1)>>, new |-> <<"r">>], [old |-> <<PK("a", 33)>>, new |-> <<"s">>]>>}
NMStr(pr) == PathStr(pr.old) \o ":" \o DotJoin(pr.new)
EmitNewMap == DoEmit => PrintT(ToJson([f |-> "newmap", m |-> m,
                 cs |-> SetToSeq({[pairs |-> [i \in 1..Len(ps) |-> NMStr(ps[i])], ov |-> "0", r |-> NewMapOp(m, ps)] : ps \in NMPairs})]))
EmitVfk == DoEmit => PrintT(ToJson([f |-> "vfk", m |-> m,
              ks |-> SetToSeq({KCase(key, cs) : key \in {"a", "b", "c", "*", "k1"}, cs \in CondSets}),
              pf |-> <<>>, vp |-> <<>>]))
=============================================================================
