SPECIFICATION Spec
CONSTANTS
  Profiles <- cXmlNeg
  MaxZero = 1
  Design = "eofdrop"
  Caller = "single"
  DoEmit = FALSE
INVARIANTS Safety Emit
PROPERTIES Terminates
