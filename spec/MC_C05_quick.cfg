SPECIFICATION Spec
CONSTANTS
  Chunks <- cChunks
  MaxChunks = 3
  DoEmit = TRUE
INVARIANTS ThmInverse ThmNoRaw ThmDecoderSide Emit
CHECK_DEADLOCK FALSE
