SPECIFICATION Spec
CONSTANTS
  Keys = {"a", "b"}
  Scalars <- cScalarsNil
  Conts <- cConts
  MaxList = 3
  MaxNodes = 4
  PairNodes = 0
  OldPaths <- cOldPathsNil
  NewPaths <- cNewPathsNil
  MaxPairs = 2
  DoEmit = TRUE
INVARIANTS ThmContent Emit
CHECK_DEADLOCK FALSE
