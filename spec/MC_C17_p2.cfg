SPECIFICATION Spec
CONSTANTS
  NProcs = 2
  Progs <- cProgs2
  Segs <- cSegs
  Design = "ok"
  DoEmit = TRUE
INVARIANTS SharedUnchanged SequentialResults Emit
PROPERTIES Terminates
