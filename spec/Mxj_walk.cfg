SPECIFICATION Spec
CONSTANTS
  AttrPrefixes = {"-", "@", ""}
  KeyPrefixes = {"#", "_", "$", "+"}
  FieldSeps = {":", "|", "::"}
  ArraySizes = {0, 64}
  ActiveFns <- AllFns
  ActiveOps <- AllOpNames
  MaxHist = 24
INVARIANTS Functional OnlyRelevant Emit
CHECK_DEADLOCK FALSE
