SPECIFICATION Spec
CONSTANTS
  AttrPrefixes = {"-", "@", ""}
  KeyPrefixes = {"#", "_"}
  FieldSeps = {":", "|"}
  ArraySizes = {0, 64}
  ActiveFns <- AllFns
  MaxHist = 12
INVARIANTS Emit
CHECK_DEADLOCK FALSE
