------------------------------ MODULE MxjValue ------------------------------
(***************************************************************************)
(* Shared vocabulary: the abstract form of every Go value reachable from   *)
(* an mxj.Map, and structural helpers (locations, leaves, bags).           *)
(*                                                                         *)
(*   [t |-> "m", kv |-> [Key -> Value]]   map[string]interface{}           *)
(*   [t |-> "l", it |-> <<Value, ...>>]   []interface{}                    *)
(*   [t |-> "s", v  |-> "text"]           string                           *)
(*   [t |-> "f"|"b"|"n"|"i"|"u", v |-> token]   float64, bool, nil, ints   *)
(*                                                                         *)
(* Scalar payloads are always string tokens (a record field must never     *)
(* hold values of two TLA+ types, see DESIGN.md section 1).                *)
(***************************************************************************)
EXTENDS Integers, Sequences, FiniteSets, TLC, SequencesExt

VS(v)  == [t |-> "s", v |-> v]
VF(v)  == [t |-> "f", v |-> v]
VB(v)  == [t |-> "b", v |-> v]
VNil   == [t |-> "n", v |-> "nil"]
VM(f)  == [t |-> "m", kv |-> f]
VL(s)  == [t |-> "l", it |-> s]
EmptyFn  == [x \in {} |-> 0]
EmptyMap == VM(EmptyFn)
EmptyList == VL(<<>>)

IsMap(n)    == n.t = "m"
IsList(n)   == n.t = "l"
IsScalar(n) == n.t \notin {"m", "l"}

RECURSIVE FlatSeq(_)
FlatSeq(ss) == IF ss = <<>> THEN <<>> ELSE Head(ss) \o FlatSeq(Tail(ss))

RECURSIVE SumSeq(_)
SumSeq(s) == IF s = <<>> THEN 0 ELSE Head(s) + SumSeq(Tail(s))

RECURSIVE CatStr(_)
CatStr(ss) == IF ss = <<>> THEN "" ELSE Head(ss) \o CatStr(Tail(ss))

\* keys of a map node as a sequence (arbitrary but fixed order = Go's unspecified iteration order)
KeySeq(n) == SetToSeq(DOMAIN n.kv)
MapVals(n) == LET ks == KeySeq(n) IN [i \in 1..Len(ks) |-> n.kv[ks[i]]]

BagOfSeq(s) == [x \in {s[i] : i \in 1..Len(s)} |-> Cardinality({i \in 1..Len(s) : s[i] = x})]

RECURSIVE NodeCount(_)
NodeCount(n) ==
  IF IsMap(n) THEN 1 + SumSeq([i \in 1..Len(KeySeq(n)) |-> NodeCount(n.kv[KeySeq(n)[i]])])
  ELSE IF IsList(n) THEN 1 + SumSeq([i \in 1..Len(n.it) |-> NodeCount(n.it[i])])
  ELSE 1

\* no list directly inside a list
RECURSIVE NoNested(_)
NoNested(n) == IF IsMap(n) THEN \A k \in DOMAIN n.kv : NoNested(n.kv[k])
               ELSE IF IsList(n) THEN \A i \in 1..Len(n.it) : ~IsList(n.it[i]) /\ NoNested(n.it[i])
               ELSE TRUE

RECURSIVE NoEmptyList(_)
NoEmptyList(n) == IF IsMap(n) THEN \A k \in DOMAIN n.kv : NoEmptyList(n.kv[k])
                  ELSE IF IsList(n) THEN n.it # <<>> /\ \A i \in 1..Len(n.it) : NoEmptyList(n.it[i])
                  ELSE TRUE

RECURSIVE ScalarCount(_)
ScalarCount(n) ==
  IF IsMap(n) THEN SumSeq([i \in 1..Len(KeySeq(n)) |-> ScalarCount(n.kv[KeySeq(n)[i]])])
  ELSE IF IsList(n) THEN SumSeq([i \in 1..Len(n.it) |-> ScalarCount(n.it[i])])
  ELSE 1

(***************************************************************************)
(* Locations: a location is a sequence of steps, a step is a key (string)  *)
(* wrapped as [k |-> key] or a list index wrapped as [i |-> index]; all    *)
(* locations of a value, and the sub-value at a location.                  *)
(***************************************************************************)
RECURSIVE Locs(_)
Locs(n) ==
  {<<>>} \cup
  (IF IsMap(n) THEN UNION {{<<[k |-> k, i |-> 0]>> \o l : l \in Locs(n.kv[k])} : k \in DOMAIN n.kv}
   ELSE IF IsList(n) THEN UNION {{<<[k |-> "", i |-> j]>> \o l : l \in Locs(n.it[j])} : j \in 1..Len(n.it)}
   ELSE {})
RECURSIVE At(_, _)
At(n, loc) == IF loc = <<>> THEN n
              ELSE IF Head(loc).i = 0 THEN At(n.kv[Head(loc).k], Tail(loc))
              ELSE At(n.it[Head(loc).i], Tail(loc))

(***************************************************************************)
(* Builder: the set of values obtained from n by adding one new child      *)
(* somewhere (a scalar, an empty map or an empty list).  Used as the Next  *)
(* action of every enumeration config: parallel, deduplicated by TLC.      *)
(***************************************************************************)
RECURSIVE GrowSet(_, _, _, _, _)
GrowSet(n, Keys, Scalars, MaxList, Conts) ==
  LET New == Scalars \cup Conts IN
  IF IsMap(n) THEN
       {VM(n.kv @@ (k :> c)) : k \in Keys \ DOMAIN n.kv, c \in New}
       \cup UNION {{VM([n.kv EXCEPT ![k] = g]) : g \in GrowSet(n.kv[k], Keys, Scalars, MaxList, Conts)} : k \in DOMAIN n.kv}
  ELSE IF IsList(n) THEN
       (IF Len(n.it) < MaxList THEN {VL(Append(n.it, c)) : c \in New} ELSE {})
       \cup UNION {{VL([n.it EXCEPT ![i] = g]) : g \in GrowSet(n.it[i], Keys, Scalars, MaxList, Conts)} : i \in 1..Len(n.it)}
  ELSE {}
=============================================================================
