------------------------------- MODULE MC_C11 -------------------------------
(***************************************************************************)
(* C11: SetValueForPath, Remove, RenameKey touch exactly one entry or fail *)
(* cleanly.  Every Map without empty lists x every dot-path through maps.  *)
(***************************************************************************)
EXTENDS MxjMapGen, MxjMutate, Json
CONSTANTS PathNames, NewNames, MaxPath, NewVals, DoEmit
RECURSIVE NamePaths(_)
NamePaths(l) == IF l = 0 THEN {<<>>}
                ELSE LET P == NamePaths(l-1) IN P \cup {Append(p, s) : p \in {q \in P : Len(q) = l-1}, s \in PathNames}
Paths == NamePaths(MaxPath) \ {<<>>}
InDomain == NoEmptyList(m)
ThmSet    == InDomain => \A p \in Paths, v \in NewVals : SetFrame(m, SetOp(m, p, v), p, v)
ThmRemove == InDomain => \A p \in Paths : RemoveFrame(m, RemoveOp(m, p), p)
ThmRename == InDomain => \A p \in Paths, nn \in NewNames : RenameFrame(m, RenameOp(m, p, nn), p, nn)
SetCase(p, v) == LET r == SetOp(m, p, v) IN [op |-> "set", p |-> DotJoin(p), new |-> "", val |-> v, out |-> r.out, post |-> r.post]
RemCase(p)    == LET r == RemoveOp(m, p) IN [op |-> "remove", p |-> DotJoin(p), new |-> "", val |-> VNil, out |-> r.out, post |-> r.post]
RenCase(p, nn) == LET r == RenameOp(m, p, nn) IN [op |-> "rename", p |-> DotJoin(p), new |-> nn, val |-> VNil, out |-> r.out, post |-> r.post]
Emit == (DoEmit /\ InDomain) => PrintT(ToJson([f |-> "mut", m |-> m,
           ops |-> SetToSeq({SetCase(p, v) : p \in Paths, v \in NewVals} \cup {RemCase(p) : p \in Paths}
                             \cup {RenCase(p, nn) : p \in Paths, nn \in NewNames})]))
Spec == GenSpec
cScalars == {VS("x"), VNil}
cConts == {EmptyMap, EmptyList}
cNewVals == {VS("N"), VM("n" :> VS("N"))}
\* placeholder alphabets (check.py SUBST)
cScalarsLong == {VS("^"), VNil}
cNewValsLong == {VS("N^"), VM("~" :> VS("N"))}
=============================================================================
