SPECIFICATION Spec
CONSTANTS
  Keys = {"a", "b", "c"}
  Scalars <- cScalars1
  Conts <- cConts
  MaxList = 3
  MaxNodes = 5
  PairNodes = 0
  PathNames = {"a", "b", "c", "*"}
  IdxNames = {"a", "b"}
  MaxIdx = 1
  MaxPath = 4
  DoEmit = TRUE
INVARIANTS ThmDenotes ThmIndexed Emit
CHECK_DEADLOCK FALSE
