------------------------------- MODULE MC_C05 -------------------------------
(***************************************************************************)
(* C05: special characters survive encoding; invalid output is an error.   *)
(* Every string of <= MaxChunks chunks over an alphabet of the five        *)
(* special characters, ';', '#', a letter, a blank, and the multi-char     *)
(* chunks &amp; &#x41; ]]> <![CDATA[ .                                      *)
(***************************************************************************)
EXTENDS MxjXmlEncode, Json
CONSTANTS Chunks, MaxChunks, DoEmit
VARIABLES s, n
Init == s = <<>> /\ n = 0
Next == n < MaxChunks /\ \E c \in Chunks : s' = s \o c /\ n' = n + 1
Spec == Init /\ [][Next]_<<s, n>>
View == s      \* the same string reached through different chunkings is one case

IsEntityStart(cs, i) == \E j \in 1..5 : StartsWith(SubSeq(cs, i, Len(cs)), Entities[j][1])
\* (1) escaping is invertible; (2) the escaped form has no raw special character, every '&' starts one of the
\* five entities; (3) hence escaping is applied exactly once per value: what a parser reads back is the value
ThmInverse == XmlUnescape(XmlEscape(s)) = s
ThmNoRaw   == LET e == XmlEscape(s) IN \A i \in 1..Len(e) : e[i] \notin {"<", ">", "\"", "'"} /\ (e[i] = "&" => IsEntityStart(e, i))
\* decoder-side mode: the value the decoder stores (escaped) is written raw by the encoder, is well formed there,
\* and decodes to the same stored value again
ThmDecoderSide == LET e == XmlEscape(s) IN RawOK(e) /\ XmlEscape(XmlUnescape(e)) = e
EO1 == [apfx |-> "-", kpfx |-> "#", esc |-> TRUE, goempty |-> FALSE]
KA == <<"a">>
KX == <<"-", "x">>
KB == <<"b">>
TKc == <<"#", "t", "e", "x", "t">>
MElem == VM(KA :> VS(s))
MAttr == VM(KA :> VM(KX :> VS(s)))
KY == <<"-", "y">>
S2 == <<"&">> \o s \o <<"<">>                          \* a second, different value that needs escaping too
MAttr2 == VM(KA :> VM((KX :> VS(s)) @@ (KY :> VS(S2))))   \* two escaped attribute values in one start tag
MMixed == VM(KA :> VM((TKc :> VS(s)) @@ (KB :> VS(<<>>))))
MList == VM(KA :> VL(<<VS(s), VS(<<"x">>)>>))       \* single key, list with non-map members: the default root is used
R(m) == Join(RenderCompact(EncodeRoot(m, <<>>, EO1), EO1))
Emit == DoEmit => PrintT(ToJson([f |-> "esc", s |-> Join(s), e |-> Join(XmlEscape(s)), xe |-> R(MElem), xa |-> R(MAttr), xa2 |-> R(MAttr2), s2 |-> Join(S2), xm |-> R(MMixed), xl |-> R(MList),
                                 rawok |-> RawOK(s)]))
C(x) == <<x>>
cChunks == {C("&"), C("<"), C(">"), C("\""), C("'"), C("a"), C(";"), C("#"), C(" "), C("\\"), C("\t"),     \* (backslash and tab: legal, not special -- written as they are)
            <<"&", "a", "m", "p", ";">>, <<"&", "#", "x", "4", "1", ";">>, <<"]", "]", ">">>, <<"<", "!", "[", "C", "D", "A", "T", "A", "[">>,
            <<"<", "/", "a", ">">>, <<"&", "n", "b", "s", "p", ";">>,
            <<"<", "&", ">", "\"", "'", "<", "&", ">", "\"", "'", "<", "&", ">", "\"", "'", "<", "&", "a", "[", "b", "[", "0", "]", "]", ">", "1">>}     \* (a markup-heavy value, 17+ special characters, with ]]> in it: escaped like any other, never a CDATA section cut short)      \* (an end tag of the enclosing element: what follows it is OUTSIDE the first root)
=============================================================================
