SPECIFICATION Spec
CONSTANTS
  Keys <- cKeys
  Scalars <- cScalarsQ
  Conts <- cConts
  MaxList = 2
  MaxNodes = 4
  PairNodes = 0
  DoEmit = TRUE
  AP = ""
  KP = "#"
INVARIANTS Thm Emit
CHECK_DEADLOCK FALSE
