SPECIFICATION Spec
CONSTANTS
  Keys <- cKeys
  Scalars <- cScalarsT
  Conts <- cConts
  MaxList = 2
  MaxNodes = 5
  PairNodes = 0
  DoEmit = TRUE
  AP = "-"
  KP = "#"
INVARIANTS Thm EmitT
CHECK_DEADLOCK FALSE
