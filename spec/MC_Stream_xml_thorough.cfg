SPECIFICATION Spec
CONSTANTS
  Profiles <- cXmlThorough
  MaxZero = 2
  Design = "ok"
  Caller = "single"
  DoEmit = TRUE
INVARIANTS Safety Emit
PROPERTIES Terminates
