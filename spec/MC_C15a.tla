------------------------------ MODULE MC_C15a ------------------------------
(***************************************************************************)
(* C15 (argument strings): every string of <= MaxChunks chunks over the    *)
(* significant characters of the path / sub-key / new-value / key-pair     *)
(* languages, applied to a fixed Map that has empty keys.  TLC evaluating  *)
(* every operator without error shows the specification itself is total;   *)
(* the harness applies each string to the real methods: a panic is a       *)
(* violation, the error class and (for paths) the values must agree.       *)
(***************************************************************************)
EXTENDS MxjArgs, Json
CONSTANTS Chunks, MaxChunks, Kind
VARIABLES s, n
Init == s = <<>> /\ n = 0
Next == n < MaxChunks /\ \E c \in Chunks : s' = s \o c /\ n' = n + 1
Spec == Init /\ [][Next]_<<s, n>>
M0 == VM(("a" :> VL(<<VM(("a" :> VS("x")) @@ ("" :> VS("e")) @@ ("-" :> VS("h"))), VS("y")>>)) @@ ("" :> VM("a" :> VS("z"))) @@ ("*" :> VS("w")) @@ ("b" :> VM(("a" :> VL(<<VS("p"), VS("q")>>)) @@ ("-" :> VS("h"))))
         @@ ("9" :> VL([i \in 1..70 |-> VS("v")])))      \* (a list of 70 members under a key that is a numeral: results larger than twice the initial capacity)      \* ("-": a key that is the attribute prefix alone, in a[0] and in b)
Total == LET r == VFPStr(M0, s) IN r.ok \in BOOLEAN      \* (evaluates every operator: no TLC evaluation error = total)
EmitPath == Kind = "path" => PrintT(ToJson([f |-> "args", kind |-> "path", s |-> Join(s), m |-> M0,
                 ok |-> VFPStr(M0, s).ok, r |-> VFPStr(M0, s).r, wildidx |-> WildIdx(s), pair |-> PairClass(M0, s)]))
EmitSub == Kind = "sub" => PrintT(ToJson([f |-> "args", kind |-> "sub", s |-> Join(s), m |-> M0,
                 sub1 |-> SubKeyClass(s, ":"), sub2 |-> SubKeyClass(s, "|"), nv1 |-> NewValClass(s, ":"), nv2 |-> NewValClass(s, "|"), pair |-> PairClass(M0, s)]))
C(x) == <<x>>
\* (with the largest 32-bit and 64-bit integers as chunks: an index is parsed within 32 bits)
cPathChunks == {C("a"), C("."), C("["), C("]"), C("0"), C("1"), C("-"), C("+"), C("*"), C("9"),
                <<"2", "1", "4", "7", "4", "8", "3", "6", "4", "7">>, <<"9", "2", "2", "3", "3", "7", "2", "0", "3", "6", "8", "5", "4", "7", "7", "5", "8", "0", "7">>}
cSubChunks == {C("a"), C(":"), C("|"), C("!"), C("*"), C("1"), C("t"), <<"b", "o", "o", "l">>, <<"n", "u", "m">>, <<"s", "t", "r", "i", "n", "g">>, C(".")}
=============================================================================
