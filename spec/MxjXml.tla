------------------------------- MODULE MxjXml -------------------------------
(***************************************************************************)
(* Abstract XML documents and the documented XML -> Map conventions        *)
(* (NewMapXml and friends) under every decoder option (C01, C14).          *)
(*                                                                         *)
(* A document is a tree of nodes, all of the same record shape:            *)
(*   element  [k |-> "e", nm |-> [p, l], at |-> <<[nm, v], ..>>, ch |-> <<node, ..>>, tx |-> <<>>]  *)
(*   text     [k |-> "t", ... tx |-> chars]   (one run = one CharData token) *)
(*   comment  [k |-> "c", ... tx |-> chars]                                *)
(* nm.p is the namespace prefix ("" = none), nm.l the local name as a      *)
(* character sequence; attribute values and text are character sequences.  *)
(* Decode is written from the documentation of the conventions, not from   *)
(* the parser's control flow.                                              *)
(* In this family Map keys and scalar payloads are CHARACTER SEQUENCES     *)
(* (so that the encoder can take prefixes off keys and the re-decode of    *)
(* encoded output is expressible); Jsonable(v) joins them into the usual   *)
(* string form for the harness.                                            *)
(***************************************************************************)
EXTENDS MxjValue, MxjChars

NoName == [p |-> "", l |-> <<>>]
XE(nm, at, ch) == [k |-> "e", nm |-> nm, at |-> at, ch |-> ch, tx |-> <<>>]
XT(cs) == [k |-> "t", nm |-> NoName, at |-> <<>>, ch |-> <<>>, tx |-> cs]
XC(cs) == [k |-> "c", nm |-> NoName, at |-> <<>>, ch |-> <<>>, tx |-> cs]
NM(p, l) == [p |-> p, l |-> l]
IsElem(n) == n.k = "e"
IsText(n) == n.k = "t"
ElemKids(e) == SelectSeq(e.ch, IsElem)
TextKids(e) == SelectSeq(e.ch, IsText)

(******************************** options ***********************************)
\* o: [lower, snake, asmap, keep, escdec, tagseq : BOOLEAN, apfx, kpfx : STRING, cast : BOOLEAN]
TrimSet(o) == IF o.keep THEN {"\t", "\n", "\r"} ELSE {"\t", "\n", "\r", " "}
Cs1(s) == IF s = "" THEN <<>> ELSE IF Len(s) = 1 THEN <<s>> ELSE CharsOf(s)      \* a prefix as a character sequence (empty, one character, or several)
TextKey(o) == Cs1(o.kpfx) \o <<"t", "e", "x", "t">>
SeqKeyC == <<"_", "s", "e", "q">>
FoldName(o, cs) == LET s == IF o.snake THEN Snake(cs) ELSE cs IN IF o.lower THEN ToLower(s) ELSE s
ElemKey(o, nm) == FoldName(o, nm.l)                     \* local name only: the prefix is dropped
\* snake-casing applies to the attribute's local name, lower-casing to the whole key (prefix included)
AttrKey(o, nm) == LET k == Cs1(o.apfx) \o (IF o.snake THEN Snake(nm.l) ELSE nm.l) IN IF o.lower THEN ToLower(k) ELSE k

\* cast with the default flags (float, bool) over the texts the configs use; C14 has the full chain
BigNum == <<"1", "6", "7", "7", "7", "2", "1", "7">>     \* 2^24 + 1: exact as float64, not as float32
BigNumTok == <<"1", ".", "6", "7", "7", "7", "2", "1", "7", "e", "+", "0", "7">>     \* its canonical token (Go's %v of the float64)
LongNum == <<"0", "0", "0", "0", "0", "0", "0", "0", "0", "0", "0", "0", "0", "0", "0", "0", "0", "0", "0", "0", "0", "0", "0", "4", "2">>   \* 25 characters: longer than any numeral strconv PRINTS, still a numeral it parses
Big19 == <<"1", "0", "0", "0", "0", "0", "0", "0", "0", "0", "0", "0", "0", "0", "0", "0", "0", "0", "0", "0">>     \* 1e19: integral, beyond int64
Big19Tok == <<"1", "e", "+", "1", "9">>
Neg17 == <<"-", "1", "2", "3", "4", "5", "6", "7", "8", "9", "0", "1", "2", "3", "4", "5", "6", "7">>     \* 17 digits and a sign: its float64 prints LONGER than it reads
Neg17Tok == <<"-", "1", ".", "2", "3", "4", "5", "6", "7", "8", "9", "0", "1", "2", "3", "4", "5", "6", "8", "e", "+", "1", "6">>
CastDefault(s) == CASE s = Neg17 -> VF(Neg17Tok) [] s = Neg17Tok -> VF(Neg17Tok) [] s = LongNum -> VF(<<"4", "2">>) [] s = <<"4", "2">> -> VF(s) [] s = Big19 -> VF(Big19Tok) [] s = Big19Tok -> VF(Big19Tok) [] s = <<"7">> -> VF(s) [] s = <<"1">> -> VF(s) [] s = BigNum -> VF(BigNumTok) [] s = BigNumTok -> VF(BigNumTok) [] s = <<"t", "r", "u", "e">> -> VB(s) [] OTHER -> VS(s)
ScalarOf(o, cs) == LET s == IF o.escdec THEN XmlEscape(cs) ELSE cs IN
                   IF o.cast THEN CastDefault(s) ELSE VS(s)

(********************************* decode ***********************************)
\* the element's text: the (last) run that is not empty after trimming
TrimmedRuns(e, o) == SelectSeq([i \in 1..Len(TextKids(e)) |-> Trim(TextKids(e)[i].tx, TrimSet(o))], LAMBDA r : r # <<>>)
TextOf(e, o) == LET rs == TrimmedRuns(e, o) IN IF rs = <<>> THEN <<>> ELSE rs[Len(rs)]

RECURSIVE Group(_, _)      \* entries <<key, value>> in order; a repeated key collects its values in a list
Group(es, acc) ==
  IF es = <<>> THEN acc
  ELSE LET k == Head(es)[1] v == Head(es)[2] IN
       Group(Tail(es), IF k \in DOMAIN acc
               THEN [acc EXCEPT ![k] = IF IsList(@) THEN VL(Append(@.it, v)) ELSE VL(<<@, v>>)]
               ELSE acc @@ (k :> v))

Digit(i) == CASE i = 0 -> "0" [] i = 1 -> "1" [] i = 2 -> "2" [] i = 3 -> "3" [] i = 4 -> "4" [] i = 5 -> "5" [] i = 6 -> "6" [] i = 7 -> "7" [] i = 8 -> "8" [] i = 9 -> "9"
RECURSIVE Digits(_)
Digits(i) == IF i < 10 THEN <<Digit(i)>> ELSE Digits(i \div 10) \o <<Digit(i % 10)>>
SeqTok(i) == [t |-> "i", v |-> Digits(i)]
WithSeq(o, v, i) == IF ~o.tagseq THEN v
                    ELSE IF IsMap(v) THEN VM([k \in (DOMAIN v.kv) \cup {SeqKeyC} |-> IF k = SeqKeyC THEN SeqTok(i) ELSE v.kv[k]])
                    ELSE VM((TextKey(o) :> v) @@ (SeqKeyC :> SeqTok(i)))

RECURSIVE DecElem(_, _)
DecElem(e, o) ==
  LET aes == [i \in 1..Len(e.at) |-> <<AttrKey(o, e.at[i].nm), ScalarOf(o, e.at[i].v)>>]
      ks  == ElemKids(e)
      ces == [i \in 1..Len(ks) |-> <<ElemKey(o, ks[i].nm), WithSeq(o, DecElem(ks[i], o), i - 1)>>]
      ents == Group(aes \o ces, EmptyFn)
      tx == TextOf(e, o)
  IN IF DOMAIN ents = {} /\ tx = <<>> THEN VS(<<>>)                      \* empty element
     ELSE IF DOMAIN ents = {} /\ ~o.asmap THEN ScalarOf(o, tx)            \* text-only element
     ELSE VM(IF tx = <<>> THEN ents ELSE [k \in (DOMAIN ents) \cup {TextKey(o)} |-> IF k = TextKey(o) THEN ScalarOf(o, tx) ELSE ents[k]])
Decode(d, o) == VM(ElemKey(o, d.nm) :> DecElem(d, o))

\* the usual string form (keys and payloads joined) for the harness
RECURSIVE Jsonable(_)
Jsonable(v) ==
  IF IsMap(v) THEN VM([s \in {Join(c) : c \in DOMAIN v.kv} |-> Jsonable(v.kv[CHOOSE c \in DOMAIN v.kv : Join(c) = s])])
  ELSE IF IsList(v) THEN VL([i \in 1..Len(v.it) |-> Jsonable(v.it[i])])
  ELSE [t |-> v.t, v |-> Join(v.v)]

(************************** structural statements ***************************)
RECURSIVE NAttrs(_)
NAttrs(e) == Len(e.at) + SumSeq([i \in 1..Len(ElemKids(e)) |-> NAttrs(ElemKids(e)[i])])
RECURSIVE NTexts(_, _)
NTexts(e, o) == (IF TextOf(e, o) # <<>> THEN 1 ELSE 0) + SumSeq([i \in 1..Len(ElemKids(e)) |-> NTexts(ElemKids(e)[i], o)])
RECURSIVE NEmpty(_, _)
NEmpty(e, o) == (IF e.at = <<>> /\ ElemKids(e) = <<>> /\ TextOf(e, o) = <<>> THEN 1 ELSE 0)
                + SumSeq([i \in 1..Len(ElemKids(e)) |-> NEmpty(ElemKids(e)[i], o)])
\* attribute names of one element are pairwise distinct after the key transformation (domain note C01 (i))
RECURSIVE AttrsDistinct(_, _)
AttrsDistinct(e, o) == /\ \A i, j \in 1..Len(e.at) : i # j => AttrKey(o, e.at[i].nm) # AttrKey(o, e.at[j].nm)
                       /\ \A i \in 1..Len(ElemKids(e)) : AttrsDistinct(ElemKids(e)[i], o)
\* no attribute key equals a child key or the text key (only possible with the empty attribute prefix)
RECURSIVE NoKeyClash(_, _)
NoKeyClash(e, o) == /\ \A i \in 1..Len(e.at) : AttrKey(o, e.at[i].nm) # TextKey(o) /\ AttrKey(o, e.at[i].nm) # SeqKeyC
                             /\ \A j \in 1..Len(ElemKids(e)) : AttrKey(o, e.at[i].nm) # ElemKey(o, ElemKids(e)[j].nm)
                    /\ \A i \in 1..Len(ElemKids(e)) : NoKeyClash(ElemKids(e)[i], o)
\* every attribute, text and empty element of the input is accounted for exactly once
Accounted(d, o) == (~o.tagseq /\ AttrsDistinct(d, o) /\ NoKeyClash(d, o)) =>
                      ScalarCount(Decode(d, o)) = NAttrs(d) + NTexts(d, o) + NEmpty(d, o)
OneRoot(d, o) == Cardinality(DOMAIN Decode(d, o).kv) = 1
\* sequence numbers only ADD "_seq" entries (and the text-key wrapper around simple values)
RECURSIVE StripSeq(_, _)
StripSeq(v, o) ==
  IF IsMap(v) THEN
     LET ks == (DOMAIN v.kv) \ {SeqKeyC}
         m2 == VM([k \in ks |-> StripSeq(v.kv[k], o)]) IN
     IF SeqKeyC \in DOMAIN v.kv /\ ks = {TextKey(o)} /\ (~o.asmap \/ m2.kv[TextKey(o)] = VS(<<>>)) THEN m2.kv[TextKey(o)] ELSE m2
  ELSE IF IsList(v) THEN VL([i \in 1..Len(v.it) |-> StripSeq(v.it[i], o)])
  ELSE v
SeqOnlyAdds(d, o) == NoKeyClash(d, o) => StripSeq(Decode(d, [o EXCEPT !.tagseq = TRUE]), o) = Decode(d, [o EXCEPT !.tagseq = FALSE])

(********************************* builder **********************************)
RECURSIVE NElems(_)
NElems(e) == 1 + SumSeq([i \in 1..Len(ElemKids(e)) |-> NElems(ElemKids(e)[i])])
RECURSIVE NTextKids(_)
NTextKids(e) == Len(TextKids(e)) + SumSeq([i \in 1..Len(ElemKids(e)) |-> NTextKids(ElemKids(e)[i])])
NonBlank(cs) == \E i \in 1..Len(cs) : cs[i] \notin {" ", "\t", "\n", "\r"}
HasNonBlankText(e) == \E i \in 1..Len(e.ch) : IsText(e.ch[i]) /\ NonBlank(e.ch[i].tx)
\* documents obtained from d by one addition: a child element / an attribute / a text run / a comment
RECURSIVE GrowDoc(_, _)
GrowDoc(e, A) ==   \* A: [names, anames, avals, texts, maxattrs, comments]
  LET lastIsText == e.ch # <<>> /\ e.ch[Len(e.ch)].k = "t" IN
     {[e EXCEPT !.ch = Append(@, XE(n, <<>>, <<>>))] : n \in A.names}
  \cup (IF Len(e.at) < A.maxattrs
        THEN {[e EXCEPT !.at = Append(@, [nm |-> n, v |-> v])] : n \in {x \in A.anames : \A i \in 1..Len(e.at) : e.at[i].nm # x}, v \in A.avals}
        ELSE {})
  \cup (IF lastIsText THEN {}
        ELSE {[e EXCEPT !.ch = Append(@, XT(t))] : t \in {x \in A.texts : ~(NonBlank(x) /\ HasNonBlankText(e))}})
  \cup (IF A.comments /\ ~(e.ch # <<>> /\ e.ch[Len(e.ch)].k = "c") THEN {[e EXCEPT !.ch = Append(@, XC(IF "ctext" \in DOMAIN A THEN A.ctext ELSE <<"c">>))]} ELSE {})
  \cup UNION {{[e EXCEPT !.ch[i] = g] : g \in GrowDoc(e.ch[i], A)} : i \in {j \in 1..Len(e.ch) : IsElem(e.ch[j])}}
=============================================================================
