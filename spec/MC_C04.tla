------------------------------- MODULE MC_C04 -------------------------------
(***************************************************************************)
(* C04: MapSeq round trip preserves order, attributes, comments and        *)
(* instructions.  Documents with every ordered choice of attributes,       *)
(* interleavings of identically and differently named siblings, namespace  *)
(* prefixes, comments / directives / processing instructions at every      *)
(* position, text alone or before the children.                            *)
(***************************************************************************)
EXTENDS MxjSeq, Json
CONSTANTS Alpha, MaxElems, MaxTextKids, MaxExtras, DoEmit
VARIABLE d
Init == d \in {XE(n, <<>>, <<>>) : n \in Alpha.names}
Next == \E g \in GrowSeq(d, Alpha) :
           /\ NElems(g) <= MaxElems /\ NTextKids(g) <= MaxTextKids /\ NExtras(g) <= MaxExtras
           /\ SeqDomain(g)
           /\ d' = g
Spec == Init /\ [][Next]_d
SO(snake, kpfx) == [snake |-> snake, keep |-> FALSE, escdec |-> FALSE, cast |-> FALSE, kpfx |-> kpfx]
SeqOpts == {SO(FALSE, "#"), SO(TRUE, "#"), SO(FALSE, "_")}
EOs(so) == [apfx |-> "-", kpfx |-> so.kpfx, esc |-> TRUE, goempty |-> FALSE]
Code(so) == (IF so.snake THEN "1" ELSE "0") \o "|" \o so.kpfx
Check == /\ \A so \in SeqOpts : SeqRoundTrip(d, so)
         /\ (DoEmit => PrintT(ToJson([f |-> "seq", d |-> d,
               g |-> SetToSeq({[code |-> Code(so), r |-> Jsonable(DecodeSeq(d, so)),
                                x |-> Join(RenderSeq(EncodeSeqRoot(DecodeSeq(d, so), so), EOs(so)))] : so \in SeqOpts})])))
N(l) == NM("", l)
cOrder == [names |-> {N(<<"a">>), N(<<"b">>), NM("n", <<"b">>)}, anames |-> {}, avals |-> {}, texts |-> {<<"t">>}, maxattrs |-> 0, extras |-> {}]
cAttrs == [names |-> {N(<<"a">>)}, anames |-> {N(<<"x">>), N(<<"y", "-", "z">>), NM("xmlns", <<"n">>), NM("n", <<"x">>)}, avals |-> {<<"1">>, <<"<", "&">>},
           texts |-> {}, maxattrs |-> 3, extras |-> {}]
cExtras == [names |-> {N(<<"a">>), N(<<"b", "-", "c">>)}, anames |-> {N(<<"x">>)}, avals |-> {<<"1">>}, texts |-> {<<" ", "t", " ">>, <<"\n">>, <<"<", "&">>},
            maxattrs |-> 1, extras |-> {XC(<<"c", "&", "<", "'">>), XD(<<"D", "O", "C", "T", "Y", "P", "E", " ", "a">>), XP(<<"p", "i">>, <<"x", "=", "1">>)}]
=============================================================================
