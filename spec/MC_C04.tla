------------------------------- MODULE MC_C04 -------------------------------
(***************************************************************************)
(* C04: MapSeq round trip preserves order, attributes, comments and        *)
(* instructions.  Documents with every ordered choice of attributes,       *)
(* interleavings of identically and differently named siblings, namespace  *)
(* prefixes, comments / directives / processing instructions at every      *)
(* position, text alone or before the children.                            *)
(***************************************************************************)
EXTENDS MxjSeq, Json
CONSTANTS Alpha, MaxElems, MaxTextKids, MaxExtras, DoEmit
VARIABLE d
Init == d \in {XE(n, <<>>, <<>>) : n \in Alpha.names}
Next == \E g \in GrowSeq(d, Alpha) :
           /\ NElems(g) <= MaxElems /\ NTextKids(g) <= MaxTextKids /\ NExtras(g) <= MaxExtras
           /\ SeqDomain(g)
           /\ d' = g
Spec == Init /\ [][Next]_d
SO(snake, kpfx) == [snake |-> snake, keep |-> FALSE, escdec |-> FALSE, cast |-> FALSE, kpfx |-> kpfx]
SeqOpts == {SO(FALSE, "#"), SO(TRUE, "#"), SO(FALSE, "_")}
EOs(so, go) == [apfx |-> "-", kpfx |-> so.kpfx, esc |-> TRUE, goempty |-> go]
Code(so, go) == (IF so.snake THEN "1" ELSE "0") \o "|" \o so.kpfx \o "|" \o (IF go THEN "1" ELSE "0")
Variants == {<<so, FALSE>> : so \in SeqOpts} \cup {<<SO(FALSE, "#"), TRUE>>}
Check == /\ \A so \in SeqOpts : SeqRoundTrip(d, so)
         /\ (DoEmit => PrintT(ToJson([f |-> "seq", d |-> d,
               g |-> SetToSeq({[code |-> Code(v[1], v[2]), r |-> Jsonable(DecodeSeq(d, v[1])),
                                x |-> Join(RenderSeq(EncodeSeqRoot(DecodeSeq(d, v[1]), v[1]), EOs(v[1], v[2])))] : v \in Variants})])))
N(l) == NM("", l)
cOrder == [names |-> {N(<<"a">>), N(<<"b">>), NM("n-s", <<"b">>)}, anames |-> {}, avals |-> {}, texts |-> {<<"t">>, <<"`", "t", "`">>}, maxattrs |-> 0, extras |-> {}]
\* five and six elements over one or two names: lists of four and five like-named siblings, contiguous or interleaved
cWide == [names |-> {N(<<"a">>), N(<<"b">>)}, anames |-> {}, avals |-> {}, texts |-> {}, maxattrs |-> 0, extras |-> {}]
cAttrs == [names |-> {N(<<"a">>)}, anames |-> {N(<<"x">>), N(<<"y", "-", "z">>), NM("xmlns", <<"n">>), NM("n", <<"x">>)}, avals |-> {<<"1">>, <<"<", "&">>, <<>>},
           texts |-> {}, maxattrs |-> 3, extras |-> {}]
cAttrs2 == [cAttrs EXCEPT !.maxattrs = 2]      \* two elements: at most two attributes each (three on one element: cAttrs with MaxElems = 1)
cExtras == [names |-> {N(<<"a">>), N(<<"b", "-", "c">>)}, anames |-> {N(<<"x">>)}, avals |-> {<<"1">>}, texts |-> {<<" ", "t", " ">>, <<"\n">>, <<"<", "&">>},
            maxattrs |-> 1, extras |-> {XC(<<"c", "&", "<", "'", ">", " ", "<", "b">>), XD(<<"D", "O", "C", "T", "Y", "P", "E", " ", "a">>), XP(<<"x", "m", "l", "-", "s">>, <<"x", "=", "1", ">", "\n", "<", "y", " ">>)}]   \* ("> <" inside a comment / instruction is text, not inter-element white space)
\* names longer than 32 bytes that agree in their first 32 characters (request / response pairs of a generated interface), with a prefix
L32 == <<"g", "e", "t", "C", "u", "s", "t", "o", "m", "e", "r", "B", "i", "l", "l", "i", "n", "g", "A", "c", "c", "o", "u", "n", "t", "D", "e", "t", "a", "i", "l", "s">>
cLongNames == [names |-> {NM("tns", L32 \o <<"R", "e", "q">>), NM("tns", L32 \o <<"R", "e", "s">>), N(L32 \o <<"X">>)}, anames |-> {}, avals |-> {}, texts |-> {<<"t">>}, maxattrs |-> 0, extras |-> {}]

=============================================================================
