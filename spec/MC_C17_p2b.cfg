SPECIFICATION Spec
CONSTANTS
  NProcs = 2
  Progs <- cProgs2b
  Segs <- cSegs5
  Design = "ok"
  DoEmit = TRUE
INVARIANTS SharedUnchanged SequentialResults Emit
PROPERTIES Terminates
