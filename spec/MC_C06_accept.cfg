SPECIFICATION Spec2
CONSTANTS
  Chunks <- cChunks
  MaxChunks = 0
  DoEmit = FALSE
INVARIANTS Emit2
CHECK_DEADLOCK FALSE
