SPECIFICATION Spec
CONSTANTS
  CKeys <- cKeysDeep
  CVals <- cValsDeep
  MaxHist = 2
  DoEmit = TRUE
INVARIANTS ThmFunctionOfContent ThmAscending Emit
CHECK_DEADLOCK FALSE
