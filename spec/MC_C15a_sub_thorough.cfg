SPECIFICATION Spec
CONSTANTS
  Chunks <- cSubChunks
  MaxChunks = 5
  Kind = "sub"
INVARIANTS EmitSub
CHECK_DEADLOCK FALSE
