SPECIFICATION Spec
CONSTANTS
  Keys = {"a", "-x", "#text", ""}
  Scalars <- cScalars
  Conts <- cConts
  MaxList = 3
  MaxNodes = 6
  PairNodes = 0
  DoEmit = TRUE
INVARIANTS ThmOnePerScalar ThmResolves ThmNoAttr Emit
CHECK_DEADLOCK FALSE
