SPECIFICATION Spec
CONSTANTS
  Profiles <- cJsonThorough
  MaxZero = 2
  Design = "ok"
  Caller = "single"
  DoEmit = TRUE
INVARIANTS Safety Emit
PROPERTIES Terminates
