----------------------------- MODULE MxjMapGen -----------------------------
(***************************************************************************)
(* Enumeration of abstract Maps by builder actions.                        *)
(*  plain mode (PairNodes = 0): the state is one Map, a step adds one node *)
(*    anywhere (MxjValue!GrowSet); every distinct Map with at most         *)
(*    MaxNodes nodes over the alphabet is a reachable state.               *)
(*  pair mode (PairNodes = k > 0): two sub-Maps b1, b2 of at most k nodes  *)
(*    grow independently and m = {"a": [b1, b2]} -- every PAIR of small    *)
(*    Maps as sibling list members (about 2k+3 nodes), the shape in which  *)
(*    state carried from one sibling to the next becomes visible.          *)
(* TLC deduplicates by fingerprint and explores in parallel.               *)
(***************************************************************************)
EXTENDS MxjValue
CONSTANTS Keys,       \* map keys
          Scalars,    \* set of scalar values (tagged records)
          Conts,      \* containers that may be added: subset of {EmptyMap, EmptyList}
          MaxList,    \* longest list
          MaxNodes,   \* bound on NodeCount (root map included), plain mode
          PairNodes   \* 0, or the bound on each sibling in pair mode
VARIABLES m, b1, b2
genvars == <<m, b1, b2>>
Wrap(x, y) == VM("a" :> VL(<<x, y>>))
GenInit == /\ b1 = EmptyMap /\ b2 = EmptyMap
           /\ m = IF PairNodes = 0 THEN EmptyMap ELSE Wrap(EmptyMap, EmptyMap)
GenNext == IF PairNodes = 0
           THEN /\ NodeCount(m) < MaxNodes
                /\ m' \in GrowSet(m, Keys, Scalars, MaxList, Conts)
                /\ UNCHANGED <<b1, b2>>
           ELSE \/ /\ NodeCount(b1) < PairNodes
                   /\ b1' \in GrowSet(b1, Keys, Scalars, MaxList, Conts)
                   /\ b2' = b2 /\ m' = Wrap(b1', b2)
                \/ /\ NodeCount(b2) < PairNodes
                   /\ b2' \in GrowSet(b2, Keys, Scalars, MaxList, Conts)
                   /\ b1' = b1 /\ m' = Wrap(b1, b2')
GenSpec == GenInit /\ [][GenNext]_genvars
=============================================================================
