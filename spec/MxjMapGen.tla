----------------------------- MODULE MxjMapGen -----------------------------
(***************************************************************************)
(* Enumeration of abstract Maps by builder actions: the state is one Map,  *)
(* a step adds one node anywhere (MxjValue!GrowSet).  TLC deduplicates by  *)
(* fingerprint and explores in parallel; every distinct Map with at most   *)
(* MaxNodes nodes over the given alphabet is a reachable state.            *)
(***************************************************************************)
EXTENDS MxjValue
CONSTANTS Keys,       \* map keys
          Scalars,    \* set of scalar values (tagged records)
          Conts,      \* containers that may be added: subset of {EmptyMap, EmptyList}
          MaxList,    \* longest list
          MaxNodes    \* bound on NodeCount (root map included)
VARIABLE m
GenInit == m = EmptyMap
GenNext == /\ NodeCount(m) < MaxNodes
           /\ m' \in GrowSet(m, Keys, Scalars, MaxList, Conts)
GenSpec == GenInit /\ [][GenNext]_m
=============================================================================
