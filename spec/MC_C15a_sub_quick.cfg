SPECIFICATION Spec
CONSTANTS
  Chunks <- cSubChunks
  MaxChunks = 4
  Kind = "sub"
INVARIANTS EmitSub
CHECK_DEADLOCK FALSE
