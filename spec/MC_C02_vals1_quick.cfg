SPECIFICATION Spec
CONSTANTS
  Alpha <- cVals1
  MaxElems = 1
  MaxTextKids = 1
  MaxComments = 0
  APfx = {"-"}
  KPfx = {"#"}
  Casts = {FALSE}
  DoEmit = TRUE
INVARIANTS Check2
CHECK_DEADLOCK FALSE
