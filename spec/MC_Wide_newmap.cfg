SPECIFICATION Spec
CONSTANTS
  Widths = {32, 33, 40, 100}
  DoEmit = TRUE
INVARIANTS EmitNewMap
CHECK_DEADLOCK FALSE
