SPECIFICATION Spec
CONSTANTS
  Keys = {"b"}
  Scalars <- cScalars1
  Conts <- cConts
  MaxList = 2
  MaxNodes = 6
  PairNodes = 0
  SearchKeys = {"b", "z"}
  PathNames = {"b", "*"}
  MaxPath = 4
INVARIANTS ThmAgrees ThmPaths Emit
CHECK_DEADLOCK FALSE
