SPECIFICATION Spec
CONSTANTS
  Alpha <- cTexts
  MaxElems = 2
  MaxTextKids = 2
  MaxComments = 1
  APfx = {"-", "@", ""}
  KPfx = {"#", "_"}
  Casts = {FALSE, TRUE}
  DoEmit = TRUE
INVARIANTS Check
CHECK_DEADLOCK FALSE
