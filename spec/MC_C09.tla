------------------------------- MODULE MC_C09 -------------------------------
(***************************************************************************)
(* C09: LeafNodes lists every terminal value once with a resolving path.   *)
(***************************************************************************)
EXTENDS MxjMapGen, MxjPath, Json
CONSTANTS DoEmit
AK0 == {k \in Keys : Len(k) > 1 /\ SubSeq(k, 1, 1) = "-"}       \* the attribute keys of the alphabet (prefix "-")
RECURSIVE NoEmptyKey(_)
NoEmptyKey(n) == IF IsMap(n) THEN "" \notin DOMAIN n.kv /\ \A k \in DOMAIN n.kv : NoEmptyKey(n.kv[k])
                 ELSE IF IsList(n) THEN \A i \in 1..Len(n.it) : NoEmptyKey(n.it[i]) ELSE TRUE
\* scalars not below an attribute key
RECURSIVE NonAttrScalars(_, _)
NonAttrScalars(n, AK) ==
  IF IsMap(n) THEN SumSeq([i \in 1..Len(KeySeq(n)) |-> IF KeySeq(n)[i] \in AK THEN 0 ELSE NonAttrScalars(n.kv[KeySeq(n)[i]], AK)])
  ELSE IF IsList(n) THEN SumSeq([i \in 1..Len(n.it) |-> NonAttrScalars(n.it[i], AK)]) ELSE 1

ThmOnePerScalar == \A dot \in BOOLEAN : Len(LeafSeq(m, FALSE, dot, AK0, "#text")) = ScalarCount(m)
ThmResolves == NoEmptyKey(m) => LeafResolveThm(m)
ThmNoAttr == \A dot \in BOOLEAN :
    /\ Len(LeafSeq(m, TRUE, dot, AK0, "#text")) = NonAttrScalars(m, AK0)   \* removes exactly the attribute entries
    /\ Len(LeafSeq(m, TRUE, dot, {}, "#text")) = ScalarCount(m)                   \* no prefix: only the text-key segment goes

LCase(na, dot, ak) == [na |-> na, dot |-> dot, ak |-> SetToSeq(ak), r |-> LeafSeq(m, na, dot, ak, "#text")]
Emit == DoEmit => PrintT(ToJson([f |-> "leaf", m |-> m,
           cs |-> SetToSeq({LCase(na, dot, ak) : na \in BOOLEAN, dot \in BOOLEAN, ak \in {AK0, {}}})]))
Spec == GenSpec
cScalars == {VS("x"), VS("y")}
cConts == {EmptyMap, EmptyList}
cScalarsNil == {VS("x"), VNil}        \* a null member is a terminal value like any other (listed once, its path resolves to exactly [nil])
\* placeholder alphabets (check.py SUBST)
cScalarsLong == {VS("x"), VS("^")}
=============================================================================
