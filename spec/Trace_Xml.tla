------------------------------ MODULE Trace_Xml ------------------------------
(***************************************************************************)
(* code -> spec: validates sessions recorded from the real package         *)
(* (mxjconf record xml) against the INTEGRATED specification Mxj.          *)
(*                                                                         *)
(* A session is a reset (all registers at their defaults) followed by      *)
(* setter calls and codec calls on random documents.  `opt` is the         *)
(* specification's own register state: it is advanced by MxjOptions!Eff    *)
(* from the logged setter calls, never read from the log.  Every codec     *)
(* event carries the abstract document and what the real code returned:    *)
(*   dec : NewMapXml(doc)            = Decode(doc) under the registers     *)
(*   rt  : Map.Xml() of that Map     = RenderCompact(EncodeRoot(..)),      *)
(*         and decoding those bytes again gives the same Map whenever      *)
(*         exactly one of the two escaping switches is on (C02)            *)
(*   seq : NewMapXmlSeq(doc)         = DecodeSeq(doc),  MapSeq.Xml() =     *)
(*         RenderSeq(EncodeSeqRoot(..)), and the encoding is the canonical *)
(*         form of the document (C04, evaluated on the observed data)      *)
(* Events outside the documented domains (MC_C01!InDomain, SeqDomain) are  *)
(* consumed without a check and counted in TLC register 2.                 *)
(* Acceptance: high-water mark of `l` in TLC register 1 (-workers 1).      *)
(***************************************************************************)
EXTENDS Mxj, TLC
Trace == ndJsonDeserialize("trace_xml.ndjson")
VARIABLE l
tvars == <<opt, hist, l>>

RECURSIVE KeepOKx(_)     \* under keep-spaces inter-element white space must not contain blanks (it would be content)
KeepOKx(e) == /\ \/ Len(TextKids(e)) = 1
                 \/ \A i \in 1..Len(TextKids(e)) : NonBlank(TextKids(e)[i].tx) \/ \A j \in 1..Len(TextKids(e)[i].tx) : TextKids(e)[i].tx[j] # " "
              /\ \A i \in 1..Len(ElemKids(e)) : KeepOKx(ElemKids(e)[i])
DecDomain(d, o) == CodecDomain(opt) /\ AttrsDistinct(d, o) /\ (o.keep => KeepOKx(d))

IsEv(op) == l <= Len(Trace) /\ Trace[l].op = op
Advance == l' = l + 1 /\ TLCSet(1, l + 1)
Skip == TLCSet(2, TLCGet(2) + 1)

TrReset == IsEv("reset") /\ opt' = InitOpt /\ UNCHANGED hist /\ Advance
TrSet   == /\ IsEv("set")
           /\ [fn |-> Trace[l].fn, arg |-> Trace[l].arg] \in Calls            \* a setter call of the specification
           /\ opt' = Eff(opt, [fn |-> Trace[l].fn, arg |-> Trace[l].arg])
           /\ UNCHANGED hist /\ Advance
TrDec == /\ IsEv("dec")
         /\ LET e == Trace[l] o == DecOpts(opt, FALSE) IN
            IF DecDomain(e.d, o) THEN e.err = "ok" /\ e.r = Jsonable(Decode(e.d, o)) ELSE Skip
         /\ UNCHANGED <<opt, hist>> /\ Advance
TrRt == /\ IsEv("rt")
        /\ LET e == Trace[l] o == DecOpts(opt, FALSE) eo == EncOpts(opt) IN
           IF DecDomain(e.d, o) /\ ~opt.tagSeq /\ opt.attrPrefix # ""
           THEN LET m == Decode(e.d, o)
                    ns == EncodeRoot(m, <<>>, eo) IN
                /\ e.err = "ok"
                /\ IF HasErr(ns) THEN e.encerr = "err"
                   ELSE /\ e.encerr = "ok" /\ e.x = Join(RenderCompact(ns, eo))
                        /\ (opt.escEnc # opt.escDec) => (e.err2 = "ok" /\ e.r2 = Jsonable(m))      \* C02 on the observed data
           ELSE Skip
        /\ UNCHANGED <<opt, hist>> /\ Advance
TrSeq == /\ IsEv("seq")
         /\ LET e == Trace[l] so == SeqOpts(opt)
                eo == [apfx |-> "-", kpfx |-> opt.keyPrefix, esc |-> opt.escEnc, goempty |-> opt.goEmpty] IN
            IF CodecDomain(opt) /\ SeqDomain(e.d) /\ (so.keep => KeepOKx(e.d))
            THEN LET m == DecodeSeq(e.d, so)
                     ns == EncodeSeqRoot(m, so) IN
                 /\ e.err = "ok" /\ e.r = Jsonable(m)
                 /\ e.twice = "ok"                                \* a second call on the same stream returns the second copy (C13: one document per call)
                 /\ e.encerr = "ok" /\ e.x = Join(RenderSeq(ns, eo))
                 /\ Len(ns) = 1
                 /\ ~so.escdec => DropEmptyRuns(ns[1]) = Canon(e.d, so)      \* C04 on the observed data (with decoder-side escaping the Map holds escaped text)
            ELSE Skip
         /\ UNCHANGED <<opt, hist>> /\ Advance

\* encv: Map.Xml() of a random JSON-shaped value (logged with plain-string keys and payloads; CharsOf turns them into the
\* character sequences of the encoder specification): exact bytes, an error exactly for a non-scalar / nil attribute entry (C03)
RECURSIVE ToChars(_)
ToChars(v) == IF v.t = "m" THEN VM([c \in {CharsOf(k) : k \in DOMAIN v.kv} |-> ToChars(v.kv[CHOOSE k \in DOMAIN v.kv : CharsOf(k) = c])])
              ELSE IF v.t = "l" THEN VL([i \in 1..Len(v.it) |-> ToChars(v.it[i])])
              ELSE [t |-> v.t, v |-> CharsOf(v.v)]
RECURSIVE TextOKx(_, _)      \* domain: the text key holds a non-nil scalar
TextOKx(v, tk) == IF IsMap(v) THEN /\ (tk \in DOMAIN v.kv => IsScalar(v.kv[tk]) /\ v.kv[tk].t # "n")
                                   /\ \A k \in DOMAIN v.kv : TextOKx(v.kv[k], tk)
                  ELSE IF IsList(v) THEN \A i \in 1..Len(v.it) : TextOKx(v.it[i], tk) ELSE TRUE
TrEncv == /\ IsEv("encv")
          /\ LET e == Trace[l] eo == EncOpts(opt) mc == ToChars(e.m)
                 tk == Cs1(eo.kpfx) \o <<"t", "e", "x", "t">>
                 single == Cardinality(DOMAIN mc.kv) = 1
                 rk == CHOOSE k \in DOMAIN mc.kv : TRUE IN
             IF CodecDomain(opt) /\ TextOKx(mc, tk) /\ (single => ~IsAttrKey(eo, rk) /\ rk # tk)
             THEN LET ns == EncodeRoot(mc, <<>>, eo) IN
                  IF HasErr(ns) THEN e.encerr = "err" ELSE e.encerr = "ok" /\ e.x = Join(RenderCompact(ns, eo))
             ELSE Skip
          /\ UNCHANGED <<opt, hist>> /\ Advance

\* a NewMapXml call made by the repository's own tests (hook VerifOnDecode): the registers are LOGGED with the call
\* (the test suite's setter calls are not observed), the document is the encoding/xml token stream of the bytes
TrDecX == /\ IsEv("decx")
          /\ LET e == Trace[l]
                 o == [lower |-> e.o.lower, snake |-> e.o.snake, asmap |-> e.o.asmap, keep |-> e.o.keep, escdec |-> e.o.escdec,
                       tagseq |-> e.o.tagseq, apfx |-> e.o.apfx, kpfx |-> e.o.kpfx, cast |-> FALSE] IN
             IF AttrsDistinct(e.d, o) /\ (o.keep => KeepOKx(e.d)) THEN e.err = "ok" /\ e.r = Jsonable(Decode(e.d, o)) ELSE Skip
          /\ UNCHANGED <<opt, hist>> /\ Advance

\* a Map.Xml(rootTag...) call made while the repository's own tests ran (wrapper around the renamed method in a scratch
\* copy): the encoder registers are LOGGED with the call; exact bytes, an error exactly where the specification has one (C03)
TrEncX == /\ IsEv("encx")
          /\ LET e == Trace[l]
                 eo == [apfx |-> e.o.apfx, kpfx |-> e.o.kpfx, esc |-> e.o.esc, goempty |-> e.o.goempty]
                 mc == ToChars(e.m)
                 tk == Cs1(eo.kpfx) \o <<"t", "e", "x", "t">>
                 single == Cardinality(DOMAIN mc.kv) = 1
                 rk == CHOOSE k \in DOMAIN mc.kv : TRUE IN
             IF eo.apfx # eo.kpfx /\ TextOKx(mc, tk) /\ (e.tag = "" /\ single => ~IsAttrKey(eo, rk) /\ rk # tk)
             THEN LET ns == EncodeRoot(mc, CharsOf(e.tag), eo) IN
                  IF HasErr(ns) THEN e.encerr = "err" ELSE e.encerr = "ok" /\ e.x = Join(RenderCompact(ns, eo))
             ELSE Skip
          /\ UNCHANGED <<opt, hist>> /\ Advance

TraceInit == l = 1 /\ opt = InitOpt /\ hist = <<>> /\ TLCSet(1, 1) /\ TLCSet(2, 0)
TraceNext == TrReset \/ TrSet \/ TrDec \/ TrRt \/ TrSeq \/ TrDecX \/ TrEncv \/ TrEncX
TraceSpec == TraceInit /\ [][TraceNext]_tvars
TraceAccepted ==
  /\ PrintT("TRACE-SKIPPED " \o ToString(TLCGet(2)))
  /\ IF TLCGet(1) = Len(Trace) + 1 THEN PrintT("TRACE-ACCEPTED " \o ToString(Len(Trace)))
     ELSE PrintT("TRACE-HIGHWATER " \o ToString(TLCGet(1)))
=============================================================================
