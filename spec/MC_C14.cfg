SPECIFICATION Spec
INVARIANTS Thm Emit
CHECK_DEADLOCK FALSE
