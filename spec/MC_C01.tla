------------------------------- MODULE MC_C01 -------------------------------
(***************************************************************************)
(* C01: XML decodes to the Map the documented conventions prescribe, under *)
(* all options.  Documents are enumerated by builder actions in factorised *)
(* families (one config per family: names / attributes / text placement);  *)
(* for every document the expected Map is computed under EVERY option      *)
(* combination of the domain and printed grouped by result.                *)
(***************************************************************************)
EXTENDS MxjXml, Json
CONSTANTS Alpha,        \* [names, anames, avals, texts, maxattrs, comments]
          MaxElems, MaxTextKids, MaxComments,
          APfx, KPfx, Casts, DoEmit
VARIABLE d
Init == d \in {XE(n, <<>>, <<>>) : n \in Alpha.names}
RECURSIVE NComments(_)
NComments(e) == Len(SelectSeq(e.ch, LAMBDA x : x.k = "c")) + SumSeq([i \in 1..Len(ElemKids(e)) |-> NComments(ElemKids(e)[i])])
Next == \E g \in GrowDoc(d, Alpha) :
           /\ NElems(g) <= MaxElems /\ NTextKids(g) <= MaxTextKids /\ NComments(g) <= MaxComments
           /\ d' = g
Spec == Init /\ [][Next]_d

Opts == [lower : BOOLEAN, snake : BOOLEAN, asmap : BOOLEAN, keep : BOOLEAN, escdec : BOOLEAN, tagseq : BOOLEAN,
         apfx : APfx, kpfx : KPfx, cast : Casts]
RECURSIVE KeepOK(_)     \* under keep-spaces inter-element white space must not contain blanks (it would be content)
KeepOK(e) == /\ \/ Len(TextKids(e)) = 1      \* (a run of blanks that is the element's ONLY character data is its value under keep-spaces)
                \/ \A i \in 1..Len(TextKids(e)) : NonBlank(TextKids(e)[i].tx) \/ \A j \in 1..Len(TextKids(e)[i].tx) : TextKids(e)[i].tx[j] # " "
             /\ \A i \in 1..Len(ElemKids(e)) : KeepOK(ElemKids(e)[i])
InDomain(o) == /\ o.apfx # o.kpfx
               /\ AttrsDistinct(d, o)
               /\ (o.keep => KeepOK(d))
DomOpts == {o \in Opts : InDomain(o)}
Bc(b) == IF b THEN "1" ELSE "0"
OptCode(o) == Bc(o.lower) \o Bc(o.snake) \o Bc(o.asmap) \o Bc(o.keep) \o Bc(o.escdec) \o Bc(o.tagseq) \o Bc(o.cast) \o "|" \o o.apfx \o "|" \o o.kpfx

\* one evaluation of Decode per option combination, shared by the theorems and the output
AccountedR(o, r) == (~o.tagseq /\ NoKeyClash(d, o)) => ScalarCount(r) = NAttrs(d) + NTexts(d, o) + NEmpty(d, o)
SeqAddsR(o, r) == (o.tagseq /\ NoKeyClash(d, o)) => StripSeq(r, o) = Decode(d, [o EXCEPT !.tagseq = FALSE])
Check ==
  LET P == {[o |-> o, r |-> Decode(d, o)] : o \in DomOpts}
      R == {p.r : p \in P}
  IN /\ \A p \in P : Cardinality(DOMAIN p.r.kv) = 1            \* exactly one root key
     /\ \A p \in P : AccountedR(p.o, p.r)                      \* nothing lost, nothing duplicated
     /\ \A p \in P : SeqAddsR(p.o, p.r)                        \* sequence numbers only add "_seq"
     /\ (DoEmit => PrintT(ToJson([f |-> "dec", d |-> d,
               g |-> SetToSeq({[r |-> Jsonable(r), os |-> SetToSeq({OptCode(p.o) : p \in {q \in P : q.r = r}})] : r \in R})])))

N(l) == NM("", l)
\* family: element names (case folding, snake-casing, namespace prefixes create collisions)
cNames == [names |-> {N(<<"a">>), N(<<"B">>), N(<<"a", "-", "-", "b">>), NM("ns", <<"b">>)}, anames |-> {}, avals |-> {}, texts |-> {<<"v">>, <<"t", "r", "u", "e">>},
           maxattrs |-> 0, comments |-> FALSE]
\* family: siblings whose keys coincide only after key folding (three spellings of one key; >= 4 siblings need MaxElems >= 5)
cSibs == [names |-> {N(<<"a", "-", "b">>), N(<<"a", "_", "b">>), N(<<"A", "-", "b">>)}, anames |-> {}, avals |-> {}, texts |-> {<<"v">>},
          maxattrs |-> 0, comments |-> FALSE]
\* family: attributes (ordered choices, folding collisions, xmlns declarations, values to cast / escape / trim)
cAttrs == [names |-> {N(<<"a">>)}, anames |-> {N(<<"x">>), N(<<"X">>), N(<<"x", "-", "y">>), NM("xmlns", <<"n">>)},
           avals |-> {<<"7">>, <<" ", "&">>}, texts |-> {<<"v">>}, maxattrs |-> 2, comments |-> FALSE]
cAttrs1 == [cAttrs EXCEPT !.maxattrs = 1, !.avals = @ \cup {<<"'", "\"">>, LongNum}, !.texts = @ \cup {LongNum, <<"&", "l", "t", ";", "b">>}]      \* (character data that SPELLS a reference: under decoder-side escaping its & is escaped like any other)
\* family: text placement (before / between / after children, blank runs, trimming, cast and escape look-alikes, comments)
cTexts == [names |-> {N(<<"a">>), N(<<"b">>)}, anames |-> {N(<<"x">>)}, avals |-> {<<"1">>},
           texts |-> {<<" ", "v", " ">>, <<"7">>, <<"\n">>, <<" ">>, <<"<", "&">>}, maxattrs |-> 1, comments |-> TRUE]
\* (the character ` stands for U+00A0, no-break space: white space for Unicode, data for XML -- never trimmed)
cTextsQ == [cTexts EXCEPT !.texts = {<<" ", "v", " ">>, <<"7">>, <<"\n">>, <<"<", "&">>, <<"'">>, <<"`", "v", "`">>, <<"`">>}, !.comments = FALSE]
cTextsMore == [cTexts EXCEPT !.texts = @ \cup {<<"`", "v", "`">>, <<"`">>, <<"v">>, <<"t", "r", "u", "e">>, <<"a", " ", "b">>, <<"'">>, <<"\"", ">">>}]
=============================================================================
