SPECIFICATION Spec
CONSTANTS
  Alpha <- cSibs
  MaxElems = 5
  MaxTextKids = 0
  MaxComments = 0
  APfx = {"-"}
  KPfx = {"#"}
  Casts = {FALSE}
  DoEmit = TRUE
INVARIANTS Check
CHECK_DEADLOCK FALSE
