------------------------------- MODULE MC_C07 -------------------------------
(***************************************************************************)
(* C07: ValuesForPath returns exactly what the path denotes.               *)
(* Every Map of the bounded space x every path of <= MaxPath steps.        *)
(*  - Thm*: the property on the specification (declarative vs operational) *)
(*  - Emit: one JSON line per Map with the expected result of every path,  *)
(*          replayed on the real code by `mxjconf replay`.                 *)
(***************************************************************************)
EXTENDS MxjMapGen, MxjPath, Json
CONSTANTS PathNames,  \* names usable in a path step (keys, "*", an absent key)
          IdxNames,   \* names that may carry an index
          MaxIdx, MaxPath, DoEmit

StepSet == {PK(k, -1) : k \in PathNames} \cup {PK(k, i) : k \in IdxNames, i \in 0..MaxIdx}
RECURSIVE PathsUpTo(_)
PathsUpTo(l) == IF l = 0 THEN {<<>>}
                ELSE LET P == PathsUpTo(l-1) IN P \cup {Append(p, s) : p \in {q \in P : Len(q) = l-1}, s \in StepSet}
AllPaths == PathsUpTo(MaxPath) \ {<<>>}
PlainPaths == {p \in AllPaths : \A i \in 1..Len(p) : p[i].idx < 0}
IsWild(p) == \E i \in 1..Len(p) : p[i].name = "*"

ThmDenotes == \A p \in PlainPaths : DenotesThm(m, Names(p))
ThmIndexed == \A p \in PlainPaths : Len(p) < MaxPath =>
                 \A k \in IdxNames, i \in 0..MaxIdx : IndexedThm(m, Names(p), k, i)
\* ValueForPath / Exists are derived from the same result: first element / non-empty
Case(p) == [p |-> PathStr(p), w |-> IF IsWild(p) THEN "1" ELSE "0", r |-> VFA(m, p)]
Emit == DoEmit => PrintT(ToJson([f |-> "vfp", m |-> m, cs |-> SetToSeq({Case(p) : p \in AllPaths})]))
Spec == GenSpec
cScalars == {VS("x"), VS("y")}
cConts == {EmptyMap, EmptyList}
cScalars1 == {VS("x")}
\* placeholder alphabets (check.py SUBST): "~" becomes a 36-byte key that begins with a two-byte character, "^" a 4.2 KiB value
cScalarsLong == {VS("x"), VS("^")}
=============================================================================
