------------------------------- MODULE MC_C12 -------------------------------
(***************************************************************************)
(* C12: NewMap builds exactly the requested projection (content claimed    *)
(* for non-overlapping new paths) and never modifies its receiver (claimed *)
(* for every list of pairs; decided on the real objects by the harness).   *)
(***************************************************************************)
EXTENDS MxjMapGen, MxjMutate, Json
CONSTANTS OldPaths, NewPaths, MaxPairs, DoEmit
Pairs1 == {[old |-> o, new |-> n] : o \in OldPaths, n \in NewPaths}
RECURSIVE PairLists(_)
PairLists(l) == IF l = 0 THEN {<<>>}
                ELSE LET P == PairLists(l-1) IN P \cup {Append(p, s) : p \in {q \in P : Len(q) = l-1}, s \in Pairs1}
AllPairLists == PairLists(MaxPairs) \ {<<>>}
ThmContent == \A ps \in AllPairLists : NewMapContent(m, ps, NewMapOp(m, ps))
PairStr(pr) == PathStr(pr.old) \o ":" \o DotJoin(pr.new)
NCase(ps) == [pairs |-> [i \in 1..Len(ps) |-> PairStr(ps[i])], ov |-> IF Overlapping(ps) THEN "1" ELSE "0", r |-> NewMapOp(m, ps)]
Emit == DoEmit => PrintT(ToJson([f |-> "newmap", m |-> m, cs |-> SetToSeq({NCase(ps) : ps \in AllPairLists})]))
Spec == GenSpec
cScalars == {VS("x"), VS("y")}
cConts == {EmptyMap, EmptyList}
P1(a) == <<PK(a, -1)>>
P2(a, b) == <<PK(a, -1), PK(b, -1)>>
cOldPaths == {P1("a"), P1("b"), P1("*"), P1("z"), P1("a "), P2("a", "b"), P2("a", "*"), P2("*", "a"), <<PK("a", 0)>>, <<PK("b", 1)>>, <<PK("a", 0), PK("b", -1)>>, <<PK("a", -1), PK("b", 0)>>}
\* three pairs: a child of P, a pair that walks THROUGH P to a deeper path, again a child of P (all orders)
cOldPaths3 == {P1("a"), P1("b")}
cNewPaths3 == {<<"p", "q">>, <<"p", "w", "q">>, <<"p", "r">>, <<"s">>}
cNewPaths == {<<"p">>, <<"q">>, <<"p", "r">>, <<"q", "p">>, <<"a">>, <<"p", "a", "r">>, <<"p", "b", "r">>, <<"p", "p">>, <<"p", "p", "r">>, <<" p">>, <<"p", "", "r">>}   \* (a name repeated along one new path; names with white space at an edge are taken literally)
\* placeholder alphabets (check.py SUBST): "~" becomes a 36-byte name that begins with a two-byte character, "^" a 4.2 KiB value
cScalarsLong == {VS("x"), VS("^")}
cOldPathsLong == {P1("a"), P1("~"), P2("a", "~"), P2("~", "a"), <<PK("~", 0)>>, <<PK("~", 1), PK("a", -1)>>}
cNewPathsLong == {<<"~">>, <<"p", "~">>, <<"~", "~">>, <<"q">>}
\* null members: the value at a new path is what the old path yields, nulls included
cScalarsNil == {VS("x"), VNil}
cOldPathsNil == {P1("a"), P2("a", "b"), <<PK("a", 0)>>, <<PK("a", 1)>>, <<PK("a", 0), PK("b", -1)>>}
cNewPathsNil == {<<"p">>, <<"q", "r">>}

=============================================================================
