SPECIFICATION Spec
CONSTANTS
  Keys = {"a", "b"}
  Scalars <- cScalars
  Conts <- cConts
  MaxList = 2
  MaxNodes = 5
  PairNodes = 0
  OldPaths <- cOldPaths
  NewPaths <- cNewPaths
  MaxPairs = 2
  DoEmit = TRUE
INVARIANTS ThmContent Emit
CHECK_DEADLOCK FALSE
