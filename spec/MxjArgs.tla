------------------------------ MODULE MxjArgs ------------------------------
(***************************************************************************)
(* The string-argument languages of mxj at character level (C15, C07):     *)
(*   paths         "a.b[1].*"        ParsePathStr / VFPStr                  *)
(*   sub-keys      "k:v[:type]" "!k:*"   SubKeyClass / ParseSubKey          *)
(*   new values    "k:v[:type]"      NewValClass                            *)
(*   key pairs     "old:new"         PairClass                              *)
(* Every operator is total: it returns a value or the class "err".         *)
(* A string is a sequence of one-character strings.                        *)
(***************************************************************************)
EXTENDS MxjPath, MxjChars

\* strings.Split(cs, sep) for a non-empty separator of ANY length (a character sequence): non-overlapping, left to right
RECURSIVE SplitOnSeq(_, _)
SplitOnSeq(cs, sp) ==
  LET n == Len(sp)
      hits == {i \in 1..(Len(cs) - n + 1) : SubSeq(cs, i, i + n - 1) = sp} IN
  IF n = 0 \/ hits = {} THEN <<cs>>
  ELSE LET i == CHOOSE i \in hits : \A j \in hits : i <= j
       IN <<SubSeq(cs, 1, i-1)>> \o SplitOnSeq(SubSeq(cs, i+n, Len(cs)), sp)
\* sep: a TLC string (one or more characters)
SplitOn(cs, sep) == SplitOnSeq(cs, CharsOf(sep))
HasChar(cs, c) == \E i \in 1..Len(cs) : cs[i] = c
DigitVal(c) == CASE c = "0" -> 0 [] c = "1" -> 1 [] c = "2" -> 2 [] c = "3" -> 3 [] c = "4" -> 4 [] c = "5" -> 5 [] c = "6" -> 6 [] c = "7" -> 7 [] c = "8" -> 8 [] c = "9" -> 9 [] OTHER -> -1
RECURSIVE NumVal(_, _)
NumVal(ds, acc) == IF ds = <<>> THEN acc ELSE NumVal(Tail(ds), acc * 10 + DigitVal(Head(ds)))
\* strconv.ParseInt(s, 10, 32): optional sign, at least one digit, digits only, the value within 32 bits (beyond: a range
\* error, whatever the number of digits); a negative index is an error
MaxInt32Digits == <<"2", "1", "4", "7", "4", "8", "3", "6", "4", "7">>
RECURSIVE DropZeros(_)
DropZeros(ds) == IF Len(ds) > 1 /\ Head(ds) = "0" THEN DropZeros(Tail(ds)) ELSE ds
RECURSIVE DigitsGreater(_, _)     \* same length: numerically greater
DigitsGreater(a, b) == IF a = <<>> THEN FALSE
                       ELSE IF Head(a) = Head(b) THEN DigitsGreater(Tail(a), Tail(b)) ELSE DigitVal(Head(a)) > DigitVal(Head(b))
ParseIdx(cs) ==
  LET body == IF cs # <<>> /\ Head(cs) \in {"+", "-"} THEN Tail(cs) ELSE cs
      neg  == cs # <<>> /\ Head(cs) = "-"
  IN IF body = <<>> \/ \E i \in 1..Len(body) : DigitVal(body[i]) < 0 THEN [ok |-> FALSE, v |-> 0]
     ELSE LET ds == DropZeros(body) IN
          IF Len(ds) > 10 \/ (Len(ds) = 10 /\ DigitsGreater(ds, MaxInt32Digits)) THEN [ok |-> FALSE, v |-> 0]     \* (2147483648 negated would fit; a negative index is an error anyway)
          ELSE LET v == NumVal(ds, 0) IN
               IF neg /\ v > 0 THEN [ok |-> FALSE, v |-> 0] ELSE [ok |-> TRUE, v |-> v]
\* one dot-separated segment that contains '[': name up to the first '[', index between it and the next ']'
ParseSeg(seg) ==
  LET parts == SplitOn(seg, "[")
      idxs  == SplitOn(parts[2], "]")[1]
      pi    == ParseIdx(idxs)
  IN IF idxs = <<>> \/ ~pi.ok THEN [ok |-> FALSE, key |-> PK("", -1)]
     ELSE [ok |-> TRUE, key |-> PK(Join(parts[1]), pi.v)]
\* ValuesForPath on a path string: [ok, r]
VFPStr(mm, cs) ==
  IF ~HasChar(cs, "[") THEN
     LET segs0 == SplitOn(cs, ".")
         segs == IF segs0[Len(segs0)] = <<>> THEN SubSeq(segs0, 1, Len(segs0) - 1) ELSE segs0   \* one trailing empty segment is dropped
     IN [ok |-> TRUE, r |-> Old(mm, [i \in 1..Len(segs) |-> Join(segs[i])])]
  ELSE
     LET segs == SelectSeq(SplitOn(cs, "."), LAMBDA x : x # <<>>)                                 \* empty segments are skipped
         ps == [i \in 1..Len(segs) |-> IF HasChar(segs[i], "[") THEN ParseSeg(segs[i]) ELSE [ok |-> TRUE, key |-> PK(Join(segs[i]), -1)]]
     IN IF \E i \in 1..Len(ps) : ~ps[i].ok THEN [ok |-> FALSE, r |-> <<>>]
        ELSE [ok |-> TRUE, r |-> VFA(mm, [i \in 1..Len(ps) |-> ps[i].key])]
WildIdx(cs) == \E i \in 1..(Len(cs) - 1) : cs[i] = "*" /\ cs[i+1] = "["     \* index on a wildcard step: order dependent, outside C07

\* sub-key "k<sep>v[<sep>type]": class "ok" | "err".  Over the configs' alphabet (letters a, t; digit 1; the words
\* bool, num, string; '.') strconv.ParseBool accepts exactly "1" and "t", strconv.ParseFloat exactly the digit strings with at most one '.' 
BoolVal(cs) == cs \in {<<"t">>, <<"1">>}
NumOK(cs) == /\ \A i \in 1..Len(cs) : cs[i] \in {"0", "1", "."}                  \* "1", "11", "1.", ".1", "1.1", "010": digits with at most one '.'
             /\ \E i \in 1..Len(cs) : cs[i] \in {"0", "1"}
             /\ Cardinality({i \in 1..Len(cs) : cs[i] = "."}) <= 1
TypeName(cs) == CASE cs = <<"b", "o", "o", "l">> -> "bool" [] cs = <<"n", "u", "m">> -> "num" [] cs = <<"s", "t", "r", "i", "n", "g">> -> "string" [] OTHER -> "?"
SubKeyClass(cs, sep) ==
  LET ps == SplitOn(cs, sep) IN
  IF Len(ps) = 2 THEN "ok"
  ELSE IF Len(ps) = 3 THEN
       (CASE TypeName(ps[3]) = "string" -> "ok"
          [] TypeName(ps[3]) = "bool" -> IF BoolVal(ps[2]) THEN "ok" ELSE "err"
          [] TypeName(ps[3]) = "num" -> IF NumOK(ps[2]) THEN "ok" ELSE "err"
          [] OTHER -> "err")
  ELSE "err"
\* the condition a sub-key string denotes under field separator sep (getSubKeyMap, and hasSubKeys' reading of a
\* leading '!' and of the value '*'); [ok |-> FALSE] for a string getSubKeyMap refuses
ParseSubKey(cs, sep) ==
  LET ps == SplitOn(cs, sep)
      neg == ps[1] # <<>> /\ Head(ps[1]) = "!"
      k == Join(IF neg THEN Tail(ps[1]) ELSE ps[1])
      Cnd(kind, v) == [ok |-> TRUE, c |-> [k |-> k, neg |-> neg, kind |-> kind, v |-> v]]
      strc == IF ps[2] = <<"*">> THEN Cnd("star", "*") ELSE Cnd("s", Join(ps[2]))
  IN IF SubKeyClass(cs, sep) = "err" THEN [ok |-> FALSE, c |-> [k |-> "", neg |-> FALSE, kind |-> "s", v |-> ""]]
     ELSE IF Len(ps) = 2 THEN strc
     ELSE CASE TypeName(ps[3]) = "string" -> strc
            [] TypeName(ps[3]) = "bool" -> Cnd("b", "true")
            [] TypeName(ps[3]) = "num" -> Cnd("f", Join(ps[2]))
\* the float64 a numeral of the typed forms denotes, as its canonical token (DECIMAL whatever zeros lead: "010" is ten)
NumCanon(cs) == CASE cs = <<"0", "1", "0">> -> "10" [] cs = <<"0", "1", "1">> -> "11" [] cs = <<"1", ".">> -> "1" [] cs = <<".", "1">> -> "0.1" [] OTHER -> Join(cs)
\* newVal "k<sep>v[<sep>type]" of UpdateValuesForPath: a string type name is not accepted there
NewValClass(cs, sep) ==
  LET ps == SplitOn(cs, sep) IN
  IF Len(ps) = 2 THEN "ok"
  ELSE IF Len(ps) = 3 THEN
       (CASE TypeName(ps[3]) = "bool" -> IF BoolVal(ps[2]) THEN "ok" ELSE "err"
          [] TypeName(ps[3]) = "num" -> IF NumOK(ps[2]) THEN "ok" ELSE "err"
          [] OTHER -> "err")
  ELSE "err"
\* key pair "old[:new]" of NewMap: empty argument is skipped ("ok"); old is a path (may be malformed)
PairClass(mm, cs) ==
  IF cs = <<>> THEN "ok"
  ELSE LET ps == SplitOn(cs, ":") IN
       IF Len(ps) > 2 THEN "err"
       ELSE LET old == ps[1] new == IF Len(ps) = 1 THEN ps[1] ELSE ps[2] IN
            IF HasChar(new, "*") \/ HasChar(new, "[") THEN "err"
            ELSE IF old = <<>> \/ new = <<>> THEN "err"
            ELSE IF ~VFPStr(mm, old).ok THEN "err" ELSE "ok"
=============================================================================
