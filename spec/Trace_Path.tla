----------------------------- MODULE Trace_Path -----------------------------
(***************************************************************************)
(* code -> spec: validates a trace recorded from the real package          *)
(* (mxjconf record path) against the query / mutation specification.       *)
(*                                                                         *)
(* The trace is a sequence of sessions on live objects: a "reset" event    *)
(* installs a Map, then queries and mutators follow.  `cur` is the         *)
(* specification's own current Map: it is advanced by the specification's  *)
(* operators (UpdateOp, SetOp, ...), never copied from the log, and every  *)
(* logged result / post-state must equal what the specification computes   *)
(* from `cur` and the logged arguments.  Property predicates (frame        *)
(* conditions, key-search consistency) are evaluated on the OBSERVED data. *)
(* Acceptance: high-water mark of `l` in TLC register 1 (-workers 1).      *)
(***************************************************************************)
EXTENDS MxjMutate, Json, TLC
Trace == ndJsonDeserialize("trace_path.ndjson")   \* written by check.py into the scratch copy of spec/
VARIABLES l, cur
tvars == <<l, cur>>

CondSetOf(e) == {e.conds[i] : i \in 1..Len(e.conds)}
StrSet(s) == {s[i] : i \in 1..Len(s)}

QVfp(e) == LET exp == VFP(cur, e.keys, CondSetOf(e)) IN
           IF e.w = "1" THEN SameBag(e.r, exp) ELSE e.r = exp
QVfk(e) == SameBag(e.r, VFK(cur, e.key, CondSetOf(e)))
\* key-search consistency on observed data (C08): values = union of values through the paths;
\* the paths are exactly the specification's; the shortest is one of minimal length
QKSearch(e) ==
  LET ps == PFK(cur, e.key, <<>>)
      strs == {DotJoin(p) : p \in ps} IN
  /\ SameBag(e.r, VFK(cur, e.key, {}))
  /\ StrSet(e.paths) = strs /\ Len(e.paths) = Cardinality(strs)
  /\ (NoNested(cur) => SameBag(e.r, FlatSeq(e.pvals)))
  /\ IF ps = {} THEN e.sh = "" ELSE e.sh \in {DotJoin(p) : p \in {q \in ps : Len(q) = ShortestLen(ps)}}
QLeaf(e) == SameBag(e.r, LeafSeq(cur, e.na, e.dot, StrSet(e.ak), "#text"))

IsEv(op) == l <= Len(Trace) /\ Trace[l].op = op
Advance == l' = l + 1 /\ TLCSet(1, l + 1)

TrReset   == IsEv("reset") /\ cur' = Trace[l].m /\ Advance
TrVfp     == IsEv("vfp") /\ QVfp(Trace[l]) /\ UNCHANGED cur /\ Advance
TrVfk     == IsEv("vfk") /\ QVfk(Trace[l]) /\ UNCHANGED cur /\ Advance
TrKSearch == IsEv("ksearch") /\ QKSearch(Trace[l]) /\ UNCHANGED cur /\ Advance
TrLeaf    == IsEv("leaf") /\ QLeaf(Trace[l]) /\ UNCHANGED cur /\ Advance
TrUpd == /\ IsEv("upd")
         /\ LET e == Trace[l]
                r == UpdateOp(cur, e.key, e.val, e.path, CondSetOf(e)) IN
            /\ r.c = e.c /\ r.n = e.post                                       \* operational spec
            /\ UpdateFrame(cur, e.post, e.c, e.key, e.val, e.path, CondSetOf(e))   \* C10 on observed data
            /\ UpdateReadBack(e.post, e.c, e.key, e.val, e.path, CondSetOf(e))
            /\ cur' = r.n
         /\ Advance
TrSet == /\ IsEv("set")
         /\ LET e == Trace[l]
                r == SetOp(cur, e.path, e.val) IN
            IF r.out = "skip" THEN e.out # "panic" /\ cur' = e.post     \* outside C11's domain: accept the observed state
            ELSE r.out = e.out /\ r.post = e.post /\ SetFrame(cur, [out |-> e.out, post |-> e.post], e.path, e.val) /\ cur' = r.post
         /\ Advance
TrRemove == /\ IsEv("remove")
            /\ LET e == Trace[l]
                   r == RemoveOp(cur, e.path) IN
               r.out = e.out /\ r.post = e.post /\ RemoveFrame(cur, [out |-> e.out, post |-> e.post], e.path) /\ cur' = r.post
            /\ Advance
TrRename == /\ IsEv("rename")
            /\ LET e == Trace[l]
                   r == RenameOp(cur, e.path, e.new) IN
               r.out = e.out /\ r.post = e.post /\ cur' = r.post
               /\ (NoEmptyList(cur) => RenameFrame(cur, [out |-> e.out, post |-> e.post], e.path, e.new))  \* C11's domain: no empty lists
            /\ Advance
TrNewMap == /\ IsEv("newmap")
            /\ LET e == Trace[l] IN
               /\ e.unchanged                                               \* C12: receiver not modified
               /\ NewMapContent(cur, e.pairs, e.r)                          \* content rule on the observed result
               /\ (~Overlapping(e.pairs) => e.r = NewMapOp(cur, e.pairs))
            /\ UNCHANGED cur
            /\ Advance

TraceInit == l = 1 /\ cur = EmptyMap /\ TLCSet(1, 1)
TraceNext == TrReset \/ TrVfp \/ TrVfk \/ TrKSearch \/ TrLeaf \/ TrUpd \/ TrSet \/ TrRemove \/ TrRename \/ TrNewMap
TraceSpec == TraceInit /\ [][TraceNext]_tvars
TraceAccepted ==
  IF TLCGet(1) = Len(Trace) + 1 THEN PrintT("TRACE-ACCEPTED " \o ToString(Len(Trace)))
  ELSE PrintT("TRACE-HIGHWATER " \o ToString(TLCGet(1)))
=============================================================================
