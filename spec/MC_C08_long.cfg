SPECIFICATION Spec
CONSTANTS
  Keys = {"a", "~"}
  Scalars <- cScalarsLong
  Conts <- cConts
  MaxList = 2
  MaxNodes = 4
  PairNodes = 0
  SearchKeys = {"a", "~", "*", "z"}
  CondKeys = {"a", "~"}
  MaxConds = 1
  PathNames = {"a", "~", "*"}
  MaxPath = 2
  DoEmit = TRUE
INVARIANTS ThmKeySearch ThmFilter ThmShortest Emit
CHECK_DEADLOCK FALSE
