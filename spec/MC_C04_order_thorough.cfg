SPECIFICATION Spec
CONSTANTS
  Alpha <- cOrder
  MaxElems = 5
  MaxTextKids = 1
  MaxExtras = 0
  DoEmit = TRUE
INVARIANTS Check
CHECK_DEADLOCK FALSE
