SPECIFICATION Spec
CONSTANTS
  Keys <- cKeys
  Scalars <- cScalars
  Conts <- cConts
  MaxList = 2
  MaxNodes = 5
  PairNodes = 0
  DoEmit = TRUE
  AP = ""
  KP = "#"
INVARIANTS Thm Emit
CHECK_DEADLOCK FALSE
