SPECIFICATION Spec
CONSTANTS
  Alpha <- cAttrs
  MaxElems = 1
  MaxTextKids = 0
  MaxComments = 0
  APfx = {"-", "@", "", "A"}
  KPfx = {"#", "_"}
  Casts = {FALSE, TRUE}
  DoEmit = TRUE
INVARIANTS Check
CHECK_DEADLOCK FALSE
