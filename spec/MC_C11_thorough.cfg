SPECIFICATION Spec
CONSTANTS
  Keys = {"a", "b"}
  Scalars <- cScalars
  Conts <- cConts
  MaxList = 3
  MaxNodes = 6
  PairNodes = 0
  PathNames = {"a", "b", "z"}
  NewNames = {"a", "b", "c"}
  MaxPath = 3
  NewVals <- cNewVals
  DoEmit = TRUE
INVARIANTS ThmSet ThmRemove ThmRename Emit
CHECK_DEADLOCK FALSE
