SPECIFICATION Spec
CONSTANTS
  Keys = {"a", "-x"}
  Scalars <- cScalarsNil
  Conts <- cConts
  MaxList = 2
  MaxNodes = 5
  PairNodes = 0
  DoEmit = TRUE
INVARIANTS ThmOnePerScalar ThmResolves ThmNoAttr Emit
CHECK_DEADLOCK FALSE
