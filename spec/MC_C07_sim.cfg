SPECIFICATION Spec
CONSTANTS
  Keys = {"a"}
  Scalars <- cScalars1
  Conts <- cConts
  MaxList = 2
  MaxNodes = 13
  PairNodes = 0
  PathNames = {"a", "*"}
  IdxNames = {"a"}
  MaxIdx = 1
  MaxPath = 4
  DoEmit = TRUE
INVARIANTS Emit
CHECK_DEADLOCK FALSE
