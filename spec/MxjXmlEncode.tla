--------------------------- MODULE MxjXmlEncode ---------------------------
(***************************************************************************)
(* The Map -> XML encoder (Map.Xml / XmlIndent / AnyXml): C02, C03, C05,   *)
(* C16.  EncodeVal maps a value to abstract elements (MxjXml nodes):       *)
(* attribute entries (keys carrying the non-empty attribute prefix and     *)
(* longer than it, scalar values) sorted by name; the text key as leading  *)
(* text; the remaining entries sorted by key, lists expanded into repeated *)
(* elements (nested lists flatten); "", nil, {} and [] as empty elements.  *)
(* RenderCompact gives the EXACT bytes of the compact encoder.             *)
(* Keys and payloads are character sequences (see MxjXml).                 *)
(***************************************************************************)
EXTENDS MxjXml

\* encoder options: [apfx, kpfx : STRING (one char or empty), esc, goempty : BOOLEAN]
ErrNode == [k |-> "ERR", nm |-> NoName, at |-> <<>>, ch |-> <<>>, tx |-> <<>>]
HasErr(ns) == \E i \in 1..Len(ns) : ns[i].k = "ERR"

\* byte order of the printable ASCII characters (and tab, newline, carriage return)
CharOrder == <<"\t", "\n", "\r", " ", "!", "\"", "#", "$", "%", "&", "'", "(", ")", "*", "+", ",", "-", ".", "/", "0", "1", "2", "3", 
               "4", "5", "6", "7", "8", "9", ":", ";", "<", "=", ">", "?", "@", "A", "B", "C", "D", "E", "F", "G", "H", "I", "J", "K", 
               "L", "M", "N", "O", "P", "Q", "R", "S", "T", "U", "V", "W", "X", "Y", "Z", "[", "\\", "]", "^", "_", "`", "a", "b", "c", 
               "d", "e", "f", "g", "h", "i", "j", "k", "l", "m", "n", "o", "p", "q", "r", "s", "t", "u", "v", "w", "x", "y", "z", "{", 
               "|", "}", "~">>
CharRank(c) == CHOOSE i \in 1..Len(CharOrder) : CharOrder[i] = c
RECURSIVE LexLess(_, _)
LexLess(a, b) == IF a = <<>> THEN b # <<>>
                 ELSE IF b = <<>> THEN FALSE
                 ELSE IF Head(a) = Head(b) THEN LexLess(Tail(a), Tail(b))
                 ELSE CharRank(Head(a)) < CharRank(Head(b))
SortedKeys(ks) == SortSeq(SetToSeq(ks), LexLess)

IsAttrKey(eo, k) == LET P == Cs1(eo.apfx) IN eo.apfx # "" /\ Len(k) > Len(P) /\ SubSeq(k, 1, Len(P)) = P      \* longer than the prefix it begins with
AttrLocalE(eo, k) == SubSeq(k, Len(Cs1(eo.apfx)) + 1, Len(k))
ScalarText(v) == IF v.t = "n" THEN <<>> ELSE v.v                            \* %v rendering: the token itself
\* with encoder-side escaping off the bytes written are the value itself; what a parser reads back
LogicalText(eo, cs) == IF eo.esc THEN cs ELSE XmlUnescape(cs)
RawOK(cs) == \A i \in 1..Len(cs) : cs[i] # "<" /\ (cs[i] = "&" => \E j \in 1..Len(Entities) : StartsWith(SubSeq(cs, i, Len(cs)), Entities[j][1]))

RECURSIVE EncodeVal(_, _, _)
\* value -> sequence of element nodes named `key` (a list yields one per member, flattened)
EncodeVal(key, v, eo) ==
  IF IsList(v) THEN
     (IF v.it = <<>> THEN <<XE(NM("", key), <<>>, <<>>)>>
      ELSE FlatSeq([i \in 1..Len(v.it) |-> EncodeVal(key, v.it[i], eo)]))
  ELSE IF IsMap(v) THEN
     LET ks   == DOMAIN v.kv
         aks  == SortedKeys({k \in ks : IsAttrKey(eo, k)})
         tk   == TextKey(eo)
         eks  == SortedKeys({k \in ks : ~IsAttrKey(eo, k) /\ k # tk})
         bad  == \E k \in ks : IsAttrKey(eo, k) /\ (IsMap(v.kv[k]) \/ IsList(v.kv[k]) \/ v.kv[k].t = "n")
         attrs == [i \in 1..Len(aks) |-> [nm |-> NM("", AttrLocalE(eo, aks[i])), v |-> ScalarText(v.kv[aks[i]])]]
         kids == FlatSeq([i \in 1..Len(eks) |-> EncodeVal(eks[i], v.kv[eks[i]], eo)])
         txt  == IF tk \in ks THEN <<XT(ScalarText(v.kv[tk]))>> ELSE <<>>      \* leading text (may be an empty run)
     IN IF bad \/ HasErr(kids) THEN <<ErrNode>>
        ELSE <<XE(NM("", key), attrs, txt \o kids)>>
  ELSE IF ScalarText(v) = <<>> THEN <<XE(NM("", key), <<>>, <<>>)>>
  ELSE <<XE(NM("", key), <<>>, <<XT(ScalarText(v))>>)>>

DocTag == <<"d", "o", "c">>
\* Map.Xml(rootTag...): the root rule of the compact encoder
EncodeRoot(m, rootTag, eo) ==
  IF rootTag # <<>> THEN EncodeVal(rootTag, m, eo)
  ELSE IF Cardinality(DOMAIN m.kv) = 1 THEN
       LET k == CHOOSE k \in DOMAIN m.kv : TRUE
           v == m.kv[k] IN
       IF IsList(v) /\ \E i \in 1..Len(v.it) : ~IsMap(v.it[i]) THEN EncodeVal(DocTag, m, eo) ELSE EncodeVal(k, v, eo)
  ELSE EncodeVal(DocTag, m, eo)
\* Map.XmlIndent: any list under the single key gets the default root
EncodeRootIndent(m, rootTag, eo) ==
  IF rootTag # <<>> THEN EncodeVal(rootTag, m, eo)
  ELSE IF Cardinality(DOMAIN m.kv) = 1 THEN
       LET k == CHOOSE k \in DOMAIN m.kv : TRUE IN
       IF IsList(m.kv[k]) THEN EncodeVal(DocTag, m, eo) ELSE EncodeVal(k, m.kv[k], eo)
  ELSE EncodeVal(DocTag, m, eo)
\* AnyXml(v, rt, et)
ElementTag == <<"e", "l", "e", "m", "e", "n", "t">>
AnyXml(v, rt, et, eo) ==
  IF IsList(v) THEN
     LET parts == FlatSeq([i \in 1..Len(v.it) |-> LET x == v.it[i] IN
                     IF IsMap(x) /\ Cardinality(DOMAIN x.kv) = 1
                     THEN LET k == CHOOSE k \in DOMAIN x.kv : TRUE IN EncodeVal(k, x.kv[k], eo)
                     ELSE EncodeVal(et, x, eo)])
     IN IF HasErr(parts) THEN <<ErrNode>> ELSE <<[XE(NM("", rt), <<>>, parts) EXCEPT !.tx = <<"!">>]>>   \* always <rt>..</rt>
  ELSE IF IsMap(v) THEN EncodeVal(rt, v, eo)
  ELSE EncodeVal(rt, v, eo)

(******************************* exact bytes ********************************)
Esc(eo, cs) == IF eo.esc THEN XmlEscape(cs) ELSE cs
RECURSIVE RenderNode(_, _)
RenderNode(n, eo) ==
  IF n.k = "t" THEN Esc(eo, n.tx)
  ELSE LET name == n.nm.l
           attrs == FlatC([i \in 1..Len(n.at) |-> <<" ">> \o n.at[i].nm.l \o <<"=", "\"">> \o Esc(eo, n.at[i].v) \o <<"\"">>])
       IN IF n.ch = <<>> /\ n.tx = <<>> THEN
             (IF eo.goempty THEN <<"<">> \o name \o attrs \o <<">", "<", "/">> \o name \o <<">">>
              ELSE <<"<">> \o name \o attrs \o <<"/", ">">>)
          ELSE <<"<">> \o name \o attrs \o <<">">> \o FlatC([i \in 1..Len(n.ch) |-> RenderNode(n.ch[i], eo)]) \o <<"<", "/">> \o name \o <<">">>
RenderCompact(ns, eo) == IF HasErr(ns) THEN <<"!", "E", "R", "R">> ELSE FlatC([i \in 1..Len(ns) |-> RenderNode(ns[i], eo)])

(*************************** logical re-decoding ****************************)
\* the document a parser sees when it reads the rendered bytes (text through LogicalText)
RECURSIVE Logical(_, _)
Logical(n, eo) ==
  IF n.k = "t" THEN XT(LogicalText(eo, n.tx))
  ELSE [n EXCEPT !.at = [i \in 1..Len(n.at) |-> [nm |-> n.at[i].nm, v |-> LogicalText(eo, n.at[i].v)]],
                 !.ch = [i \in 1..Len(n.ch) |-> Logical(n.ch[i], eo)], !.tx = <<>>]
RECURSIVE AllRawOK(_)
AllRawOK(n) == IF n.k = "t" THEN RawOK(n.tx)
               ELSE (\A i \in 1..Len(n.at) : RawOK(n.at[i].v)) /\ (\A i \in 1..Len(n.ch) : AllRawOK(n.ch[i]))

\* C02: XML -> Map -> XML -> Map is a fixed point (symmetric options: no tag sequence numbers,
\* non-empty attribute prefix; escaping on the encoder side, or on the decoder side instead)
EncOptsFor(o, goempty) == [apfx |-> o.apfx, kpfx |-> o.kpfx, esc |-> ~o.escdec, goempty |-> goempty]
FixedPoint(d, o) ==
  (~o.tagseq /\ o.apfx # "") =>
     LET m  == Decode(d, o)
         eo == EncOptsFor(o, FALSE)
         ns == EncodeRoot(m, <<>>, eo)
     IN /\ Len(ns) = 1 /\ ns[1].k = "e"                               \* a single root, no error
        /\ (eo.esc \/ AllRawOK(ns[1]))                                \* what is written raw is well formed
        /\ Decode(Logical(ns[1], eo), o) = m                          \* decoding it again gives the same Map
=============================================================================
