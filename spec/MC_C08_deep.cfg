SPECIFICATION Spec
CONSTANTS
  Keys = {"a", "ba"}
  Scalars <- cScalars1
  Conts <- cConts
  MaxList = 2
  MaxNodes = 7
  PairNodes = 0
  SearchKeys = {"a", "ba", "*", "z"}
  CondKeys = {"a"}
  MaxConds = 0
  PathNames = {"a", "*"}
  MaxPath = 1
  DoEmit = TRUE
INVARIANTS ThmKeySearch ThmShortest Emit
CHECK_DEADLOCK FALSE
