SPECIFICATION Spec
CONSTANTS
  Keys = {"a", "~"}
  Scalars <- cScalarsLong
  Conts <- cConts
  MaxList = 2
  MaxNodes = 4
  PairNodes = 0
  UpdKeys = {"a", "~"}
  PathNames = {"a", "~", "*"}
  MaxPath = 2
  NewVals <- cNewValsLong
  DoEmit = TRUE
INVARIANTS ThmFrame Emit
CHECK_DEADLOCK FALSE
