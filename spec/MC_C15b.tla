------------------------------ MODULE MC_C15b ------------------------------
(***************************************************************************)
(* C15 (byte input): corruptions of well-formed documents at token level   *)
(* -- a token deleted, duplicated, swapped with its successor, a stray end *)
(* tag inserted -- with the specification's classification of the first    *)
(* document: "ok" (a complete, properly nested root element comes first),  *)
(* "err" (malformed before the root closes), "eof" (no root at all).       *)
(* The harness renders the token sequence, applies every decoder form      *)
(* under recover, and also derives byte-level truncations and mutations    *)
(* whose class comes from an independent encoding/xml Token() loop.        *)
(***************************************************************************)
EXTENDS MxjXml, Json
CONSTANTS Alpha, MaxElems, MaxTextKids
VARIABLE d
Init == d \in {XE(n, <<>>, <<>>) : n \in Alpha.names}
RECURSIVE NComm(_)
NComm(e) == Len(SelectSeq(e.ch, LAMBDA x : x.k = "c")) + SumSeq([i \in 1..Len(ElemKids(e)) |-> NComm(ElemKids(e)[i])])
Next == \E g \in GrowDoc(d, Alpha) : NElems(g) <= MaxElems /\ NTextKids(g) <= MaxTextKids /\ NComm(g) <= 1 /\ (NComm(g) = 1 => NTextKids(g) = 0) /\ d' = g
Spec == Init /\ [][Next]_d
Tk(k, nm, at, tx) == [k |-> k, nm |-> nm, at |-> at, tx |-> tx]
RECURSIVE Toks(_)
Toks(n) == IF n.k = "t" THEN <<Tk("T", NoName, <<>>, n.tx)>>
           ELSE IF n.k = "c" THEN <<Tk("C", NoName, <<>>, n.tx)>>
           ELSE <<Tk("S", n.nm, n.at, <<>>)>> \o FlatSeq([i \in 1..Len(n.ch) |-> Toks(n.ch[i])]) \o <<Tk("E", n.nm, <<>>, <<>>)>>
RECURSIVE Walk(_, _, _)
Walk(ts, stack, started) ==
  IF ts = <<>> THEN (IF started THEN "err" ELSE "eof")
  ELSE LET t == Head(ts) IN
       IF t.k = "S" THEN Walk(Tail(ts), <<t.nm>> \o stack, TRUE)
       ELSE IF t.k = "E" THEN
            (IF stack = <<>> THEN "err"
             ELSE IF Head(stack) # t.nm THEN "err"
             ELSE IF Len(stack) = 1 THEN "ok" ELSE Walk(Tail(ts), Tail(stack), TRUE))
       ELSE Walk(Tail(ts), stack, started)
Class(ts) == Walk(ts, <<>>, FALSE)
Corruptions(ts) ==
     {[op |-> "none", ts |-> ts]}
  \cup {[op |-> "delete", ts |-> SubSeq(ts, 1, i-1) \o SubSeq(ts, i+1, Len(ts))] : i \in 1..Len(ts)}
  \cup {[op |-> "dup", ts |-> SubSeq(ts, 1, i) \o SubSeq(ts, i, Len(ts))] : i \in 1..Len(ts)}
  \cup {[op |-> "swap", ts |-> SubSeq(ts, 1, i-1) \o <<ts[i+1], ts[i]>> \o SubSeq(ts, i+2, Len(ts))] : i \in 1..(Len(ts) - 1)}
  \cup {[op |-> "strayend", ts |-> SubSeq(ts, 1, i) \o <<Tk("E", n, <<>>, <<>>)>> \o SubSeq(ts, i+1, Len(ts))] : i \in 0..Len(ts), n \in Alpha.names}
Total == \A c \in Corruptions(Toks(d)) : Class(c.ts) \in {"ok", "err", "eof"}
Emit == PrintT(ToJson([f |-> "tok", cs |-> SetToSeq({[op |-> c.op, ts |-> c.ts, cls |-> Class(c.ts)] : c \in Corruptions(Toks(d))})]))
N(l) == NM("", l)
cAlpha == [names |-> {N(<<"a">>), N(<<"~", "B">>), NM("p", <<"a">>)}, anames |-> {N(<<"x">>)}, avals |-> {<<"1">>}, texts |-> {<<"t">>, <<"\n">>}, maxattrs |-> 1, comments |-> TRUE, ctext |-> <<"4", "2">>]     \* (a comment whose whole text is a numeral: the cast forms must leave it text)
=============================================================================
