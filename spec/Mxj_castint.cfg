SPECIFICATION Spec
CONSTANTS
  AttrPrefixes = {"-"}
  KeyPrefixes = {"#"}
  FieldSeps = {":"}
  ArraySizes = {0}
  ActiveFns = {"CastValuesToInt", "CastValuesToFloat"}
  ActiveOps = {"cast"}
  MaxHist = 3
INVARIANTS Functional OnlyRelevant Emit
CHECK_DEADLOCK FALSE
