SPECIFICATION Spec
CONSTANTS
  Alpha <- cAttrs2
  MaxElems = 2
  MaxTextKids = 0
  MaxExtras = 0
  DoEmit = TRUE
INVARIANTS Check
CHECK_DEADLOCK FALSE
