----------------------------- MODULE MxjOptions -----------------------------
(***************************************************************************)
(* The package-level option registers of mxj as a state machine (C18).     *)
(* State: one record `opt` with a field per register.  One action per      *)
(* setter *form* (explicit value / argument-less), with the documented     *)
(* meaning of the argument-less form: toggle for most switches, "disable   *)
(* trimming" for DisableTrimWhiteSpace, reset for SetFieldSeparator,       *)
(* min-clamp for SetArraySize.  Derived registers of the code              *)
(* (lenAttrPrefix, trimRunes, the eight special keys) are operators of     *)
(* `opt`: the code must keep them consistent.                              *)
(***************************************************************************)
EXTENDS Integers, Sequences, FiniteSets, TLC

CONSTANTS AttrPrefixes,   \* e.g. {"-", "@", "", "at_"}
          KeyPrefixes,    \* single-character punctuation, e.g. {"#", "_", "%"}
          FieldSeps,      \* e.g. {":", "|"}
          ArraySizes      \* arguments of SetArraySize, e.g. {0, 32, 33, 64}

InitOpt == [attrPrefix |-> "-", tagSeq |-> FALSE, lower |-> FALSE, snake |-> FALSE, keepSpaces |-> FALSE,
            simpleAsMap |-> FALSE, xmpp |-> FALSE, castInt |-> FALSE, castFloat |-> TRUE, castBool |-> TRUE,
            castNanInf |-> FALSE, skipTag |-> FALSE, goEmpty |-> FALSE, checkValid |-> FALSE,
            escEnc |-> FALSE, escDec |-> FALSE, dot |-> FALSE, fieldSep |-> ":", arraySize |-> 32,
            keyPrefix |-> "#", jsonUseNumber |-> FALSE]

\* derived registers
LenAttrPrefix(o) == Len(o.attrPrefix)
\* symbolic: T tab, R carriage return, B backspace, N newline, S space (TLA+ strings have no \b escape)
TrimRunes(o) == IF o.keepSpaces THEN "TRBN" ELSE "TRBNS"
SpecialKeys(o) == [textK |-> o.keyPrefix \o "text", seqK |-> o.keyPrefix \o "seq", commentK |-> o.keyPrefix \o "comment",
                   attrK |-> o.keyPrefix \o "attr", directiveK |-> o.keyPrefix \o "directive",
                   procinstK |-> o.keyPrefix \o "procinst", targetK |-> o.keyPrefix \o "target", instK |-> o.keyPrefix \o "inst"]

\* switches with the standard (b ...bool) signature: no argument toggles, one argument sets
ToggleFns == [IncludeTagSeqNum |-> "tagSeq", CoerceKeysToLower |-> "lower", CoerceKeysToSnakeCase |-> "snake",
              CastValuesToInt |-> "castInt", HandleXMPPStreamTag |-> "xmpp", DecodeSimpleValuesAsMap |-> "simpleAsMap",
              CastNanInf |-> "castNanInf", CastValuesToFloat |-> "castFloat", CastValuesToBool |-> "castBool",
              XmlCheckIsValid |-> "checkValid", LeafUseDotNotation |-> "dot"]
ToggleNames == DOMAIN ToggleFns

\* a call is [fn |-> name, arg |-> token]; tokens: "T", "F", "none", or a value
B(tok) == tok = "T"
Calls ==
     {[fn |-> f, arg |-> a] : f \in ToggleNames, a \in {"T", "F", "none"}}
  \cup {[fn |-> "DisableTrimWhiteSpace", arg |-> a] : a \in {"T", "F", "none"}}
  \cup {[fn |-> "PrependAttrWithHyphen", arg |-> a] : a \in {"T", "F"}}
  \cup {[fn |-> "SetAttrPrefix", arg |-> p] : p \in AttrPrefixes}
  \cup {[fn |-> "XMLEscapeChars", arg |-> a] : a \in {"T", "F", "none"}}
  \cup {[fn |-> "XMLEscapeCharsDecoder", arg |-> a] : a \in {"T", "F", "none"}}
  \cup {[fn |-> "XmlGoEmptyElemSyntax", arg |-> "none"], [fn |-> "XmlDefaultEmptyElemSyntax", arg |-> "none"]}
  \cup {[fn |-> "SetFieldSeparator", arg |-> s] : s \in FieldSeps \cup {"none", ""}}
  \cup {[fn |-> "SetArraySize", arg |-> ToString(n)] : n \in ArraySizes}
  \cup {[fn |-> "SetGlobalKeyMapPrefix", arg |-> p] : p \in KeyPrefixes}
  \cup {[fn |-> "SetCheckTagToSkipFunc", arg |-> a] : a \in {"T", "F"}}      \* T: install a function, F: nil
  \cup {[fn |-> "JsonUseNumber", arg |-> a] : a \in {"T", "F"}}             \* exported variable, assigned directly

ArgNum(tok) == CHOOSE n \in ArraySizes : ToString(n) = tok

\* the effect of one call (pure, so that idempotence and restoration can be stated on it)
Eff(o, c) ==
  IF c.fn \in ToggleNames THEN
       LET f == ToggleFns[c.fn] IN [o EXCEPT ![f] = IF c.arg = "none" THEN ~o[f] ELSE B(c.arg)]
  ELSE CASE c.fn = "DisableTrimWhiteSpace" -> [o EXCEPT !.keepSpaces = IF c.arg = "none" THEN TRUE ELSE B(c.arg)]
    [] c.fn = "PrependAttrWithHyphen" -> [o EXCEPT !.attrPrefix = IF B(c.arg) THEN "-" ELSE ""]
    [] c.fn = "SetAttrPrefix" -> [o EXCEPT !.attrPrefix = c.arg]
    [] c.fn = "XMLEscapeChars" ->
         LET want == IF c.arg = "none" THEN ~o.escEnc ELSE B(c.arg) IN
         [o EXCEPT !.escEnc = want /\ ~o.escDec]              \* refused while decoder-side escaping is on
    [] c.fn = "XMLEscapeCharsDecoder" ->
         LET want == IF c.arg = "none" THEN ~o.escDec ELSE B(c.arg) IN
         [o EXCEPT !.escDec = want, !.escEnc = IF want THEN FALSE ELSE o.escEnc]   \* switches encoder-side off
    [] c.fn = "XmlGoEmptyElemSyntax" -> [o EXCEPT !.goEmpty = TRUE]
    [] c.fn = "XmlDefaultEmptyElemSyntax" -> [o EXCEPT !.goEmpty = FALSE]
    [] c.fn = "SetFieldSeparator" -> [o EXCEPT !.fieldSep = IF c.arg \in {"none", ""} THEN ":" ELSE c.arg]
    [] c.fn = "SetArraySize" -> [o EXCEPT !.arraySize = IF ArgNum(c.arg) > 32 THEN ArgNum(c.arg) ELSE 32]
    [] c.fn = "SetGlobalKeyMapPrefix" -> [o EXCEPT !.keyPrefix = c.arg]
    [] c.fn = "SetCheckTagToSkipFunc" -> [o EXCEPT !.skipTag = B(c.arg)]
    [] c.fn = "JsonUseNumber" -> [o EXCEPT !.jsonUseNumber = B(c.arg)]

\* the fields a call may change (documented effect only)
Touches(c) ==
  IF c.fn \in ToggleNames THEN {ToggleFns[c.fn]}
  ELSE CASE c.fn = "DisableTrimWhiteSpace" -> {"keepSpaces"}
    [] c.fn \in {"PrependAttrWithHyphen", "SetAttrPrefix"} -> {"attrPrefix"}
    [] c.fn = "XMLEscapeChars" -> {"escEnc"}
    [] c.fn = "XMLEscapeCharsDecoder" -> {"escDec", "escEnc"}
    [] c.fn \in {"XmlGoEmptyElemSyntax", "XmlDefaultEmptyElemSyntax"} -> {"goEmpty"}
    [] c.fn = "SetFieldSeparator" -> {"fieldSep"}
    [] c.fn = "SetArraySize" -> {"arraySize"}
    [] c.fn = "SetGlobalKeyMapPrefix" -> {"keyPrefix"}
    [] c.fn = "SetCheckTagToSkipFunc" -> {"skipTag"}
    [] c.fn = "JsonUseNumber" -> {"jsonUseNumber"}

\* the sequence of explicit calls a user writes to get the defaults back
RestoreCalls(firstEnc) ==
  LET esc == IF firstEnc THEN <<[fn |-> "XMLEscapeChars", arg |-> "F"], [fn |-> "XMLEscapeCharsDecoder", arg |-> "F"]>>
             ELSE <<[fn |-> "XMLEscapeCharsDecoder", arg |-> "F"], [fn |-> "XMLEscapeChars", arg |-> "F"]>> IN
  <<[fn |-> "SetAttrPrefix", arg |-> "-"], [fn |-> "IncludeTagSeqNum", arg |-> "F"], [fn |-> "CoerceKeysToLower", arg |-> "F"],
    [fn |-> "CoerceKeysToSnakeCase", arg |-> "F"], [fn |-> "DisableTrimWhiteSpace", arg |-> "F"],
    [fn |-> "DecodeSimpleValuesAsMap", arg |-> "F"], [fn |-> "HandleXMPPStreamTag", arg |-> "F"],
    [fn |-> "CastValuesToInt", arg |-> "F"], [fn |-> "CastValuesToFloat", arg |-> "T"], [fn |-> "CastValuesToBool", arg |-> "T"],
    [fn |-> "CastNanInf", arg |-> "F"], [fn |-> "SetCheckTagToSkipFunc", arg |-> "F"], [fn |-> "XmlDefaultEmptyElemSyntax", arg |-> "none"],
    [fn |-> "XmlCheckIsValid", arg |-> "F"], [fn |-> "LeafUseDotNotation", arg |-> "F"], [fn |-> "SetFieldSeparator", arg |-> "none"],
    [fn |-> "SetArraySize", arg |-> "0"], [fn |-> "SetGlobalKeyMapPrefix", arg |-> "#"], [fn |-> "JsonUseNumber", arg |-> "F"]>> \o esc
RECURSIVE EffSeq(_, _)
EffSeq(o, cs) == IF cs = <<>> THEN o ELSE EffSeq(Eff(o, Head(cs)), Tail(cs))

(***************** which registers an operation may depend on *****************)
\* "an option changes only the behaviour it documents": every operation class is a function
\* of the registers listed here and of nothing else (the signature of the corresponding
\* specification operator).  Bound to the code by the harness: the result under any
\* reachable `opt` must equal the result with every register NOT listed reset to its default.
DecodeRegs == {"attrPrefix", "tagSeq", "lower", "snake", "keepSpaces", "simpleAsMap", "xmpp", "escDec", "keyPrefix"}
CastRegs   == {"castInt", "castFloat", "castBool", "castNanInf", "skipTag"}
SeqDecodeRegs == {"snake", "keepSpaces", "xmpp", "escDec", "keyPrefix"}
Relevant == [decode     |-> DecodeRegs,                      \* NewMapXml(doc)
             decodeCast |-> DecodeRegs \cup CastRegs,        \* NewMapXml(doc, true)
             decodeSeq  |-> SeqDecodeRegs,                   \* NewMapXmlSeq(doc)
             decodeSeqCast |-> SeqDecodeRegs \cup (CastRegs \ {"skipTag"}),   \* documented: the skip function does not apply to NewMapXmlSeq
             encode     |-> {"attrPrefix", "goEmpty", "checkValid", "escEnc", "keyPrefix"},   \* Map.Xml / XmlIndent / AnyXml
             encodeSeq  |-> {"goEmpty", "checkValid", "escEnc", "keyPrefix"},                 \* MapSeq.Xml / XmlIndent
             jsonEncode |-> {},                              \* Json / JsonIndent
             jsonDecode |-> {"jsonUseNumber"},               \* NewMapJson
             leaf       |-> {"attrPrefix", "dot", "keyPrefix"},   \* LeafNodes(no_attr)
             query      |-> {"fieldSep"},                    \* ValuesForPath / ValuesForKey / UpdateValuesForPath with sub-keys
             struct     |-> {"attrPrefix"}]                  \* Elements / Attributes
Project(o, regs) == [f \in DOMAIN o |-> IF f \in regs THEN o[f] ELSE InitOpt[f]]

(******************************** properties ********************************)
IsExplicit(c) == c.arg # "none" \/ c.fn \in {"XmlGoEmptyElemSyntax", "XmlDefaultEmptyElemSyntax"}
\* each setter called with an explicit value is idempotent
ExplicitIdempotent(o) == \A c \in Calls : IsExplicit(c) => Eff(Eff(o, c), c) = Eff(o, c)
\* the argument-less form does what its documentation says
ToggleTwiceIdentity(o) == \A f \in ToggleNames : Eff(Eff(o, [fn |-> f, arg |-> "none"]), [fn |-> f, arg |-> "none"]) = o
\* a call changes only the registers it documents
FrameOK(o) == \A c \in Calls : \A f \in DOMAIN o : f \notin Touches(c) => Eff(o, c)[f] = o[f]
\* the two escaping switches are never both on
NeverBothEsc(o) == ~(o.escEnc /\ o.escDec)
\* defaults can always be restored, with the escaping pair reset in either order
Restorable(o) == EffSeq(o, RestoreCalls(TRUE)) = InitOpt /\ EffSeq(o, RestoreCalls(FALSE)) = InitOpt
=============================================================================
