SPECIFICATION Spec
CONSTANTS
  AttrPrefixes = {"-"}
  KeyPrefixes = {"#"}
  FieldSeps = {":", "|"}
  ArraySizes = {0}
  ActiveFns = {"CoerceKeysToLower", "CoerceKeysToSnakeCase"}
  ActiveOps = {"rename"}
  MaxHist = 3
INVARIANTS Functional OnlyRelevant Emit
CHECK_DEADLOCK FALSE
