SPECIFICATION Spec
CONSTANTS
  AttrPrefixes = {"-", "__"}
  KeyPrefixes = {"#"}
  FieldSeps = {":"}
  ArraySizes = {0}
  ActiveFns = {"SetAttrPrefix", "PrependAttrWithHyphen"}
  ActiveOps = {"dec", "enc", "leaf", "struct"}
  MaxHist = 4
INVARIANTS Functional OnlyRelevant Emit
CHECK_DEADLOCK FALSE
