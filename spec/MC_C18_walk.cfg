SPECIFICATION SpecHist
CONSTANTS
  AttrPrefixes = {"-", "@", "", "at_"}
  KeyPrefixes = {"#", "_", "$"}
  FieldSeps = {":", "|"}
  ArraySizes = {0, 33, 64}
  ActiveFns <- AllFns
  MaxHist = 30
  DoEmit = TRUE
INVARIANTS Emit
CHECK_DEADLOCK FALSE
