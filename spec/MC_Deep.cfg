SPECIFICATION Spec
CONSTANTS
  Branch = {2, 3}
  DoEmit = TRUE
INVARIANTS ThmDenotes ThmIndexed EmitVfp
CHECK_DEADLOCK FALSE
