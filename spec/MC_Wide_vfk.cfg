SPECIFICATION Spec
CONSTANTS
  Widths = {31, 32, 33, 34, 64, 65}
  DoEmit = TRUE
INVARIANTS ThmKeySearch EmitVfk
CHECK_DEADLOCK FALSE
