SPECIFICATION Spec
CONSTANTS
  AttrPrefixes = {"-", "@"}
  KeyPrefixes = {"#"}
  FieldSeps = {":"}
  ArraySizes = {0}
  ActiveFns = {"HandleXMPPStreamTag", "CoerceKeysToLower", "DisableTrimWhiteSpace", "SetAttrPrefix"}
  ActiveOps = {"xmpp"}
  MaxHist = 4
INVARIANTS Functional OnlyRelevant Emit
CHECK_DEADLOCK FALSE
