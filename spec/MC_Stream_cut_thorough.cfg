SPECIFICATION Spec
CONSTANTS
  Profiles <- cXmlCutThorough
  MaxZero = 2
  Design = "ok"
  Caller = "single"
  DoEmit = TRUE
INVARIANTS Safety Emit
PROPERTIES Terminates
