SPECIFICATION Spec
CONSTANTS
  AttrPrefixes = {"-"}
  KeyPrefixes = {"#"}
  FieldSeps = {":"}
  ArraySizes = {0}
  ActiveFns = {"XMLEscapeChars", "XMLEscapeCharsDecoder", "SetCheckTagToSkipFunc"}
  ActiveOps = {"dec", "enc", "seqrt", "beautify"}
  MaxHist = 4
INVARIANTS Functional OnlyRelevant Emit
CHECK_DEADLOCK FALSE
