SPECIFICATION SpecFull
CONSTANTS
  AttrPrefixes = {"-", "@", ""}
  KeyPrefixes = {"#", "_", "$", "+"}
  FieldSeps = {":", "|"}
  ArraySizes = {0, 64}
  ActiveFns <- AllFns
  MaxHist = 0
  DoEmit = FALSE
INVARIANTS InvIdem InvToggle InvFrame InvEsc InvRestore
CHECK_DEADLOCK FALSE
