------------------------------ MODULE MC_C17m ------------------------------
(* C17, purity half: the Maps on which every read-only method is called and the receiver compared. *)
EXTENDS MxjMapGen, Json
Emit == PrintT(ToJson([f |-> "pure", m |-> m]))
Spec == GenSpec
cScalars == {VS("x"), VB("true"), VF("1"), VNil}
cConts == {EmptyMap, EmptyList}
=============================================================================
