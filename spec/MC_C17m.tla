------------------------------ MODULE MC_C17m ------------------------------
(* C17, purity half: the Maps on which every read-only method is called and the receiver compared. *)
EXTENDS MxjMapGen, Json
Emit == PrintT(ToJson([f |-> "pure", m |-> m]))
Spec == GenSpec
\* beyond the builder's reach: a few fixed, richer Maps (lists of records below indexed steps) -- the read-only
\* methods are called on them with indexed variants of every path and with sub-key conditions taken from their content
Rec(a, c) == VM(("a" :> VS(a)) @@ ("c" :> VS(c)))
Rich == {VM("a" :> VL(<<VM("b" :> VL(<<Rec("y", "1"), VM("a" :> VS("x"))>>)), VM("b" :> VL(<<VM("a" :> VS("x")), Rec("y", "2")>>))>>)),
         VM(("a" :> VM("b" :> VL(<<VM("a" :> VS("y")), VM("a" :> VS("x")), VM(("a" :> VS("x")) @@ ("b" :> VB("true")))>>))) @@ ("b" :> VL(<<VM("a" :> VS("x")), VS("x"), VM("a" :> VS("y"))>>))),
         VM("a" :> VL(<<VL(<<VM("a" :> VS("y")), VM("a" :> VS("x"))>>), VM("a" :> VL(<<VS("y"), VS("x"), VS("x")>>))>>)),
         VM(("-x" :> VS("y")) @@ ("#text" :> VS("x")) @@ ("a" :> VL(<<VM(("-x" :> VS("y")) @@ ("#text" :> VS("t"))), VM(("-x" :> VS("x")) @@ ("#text" :> VS("t")))>>)))}
\* a sequence-codec Map whose sequence numbers are float64 (what a JSON round trip of a MapSeq gives)
SeqLeaf(i, t) == VM(("#seq" :> VF(i)) @@ ("#text" :> VS(t)))
RichSeq == VM("a" :> VM(("#seq" :> VF("0")) @@ ("#attr" :> VM("x" :> SeqLeaf("0", "1"))) @@ ("b" :> VL(<<SeqLeaf("0", "x"), SeqLeaf("2", "y")>>)) @@ ("c" :> SeqLeaf("1", "z"))))
SpecRich == m \in Rich \cup {RichSeq} /\ b1 = EmptyMap /\ b2 = EmptyMap /\ [][UNCHANGED genvars]_genvars
cScalars == {VS("x"), VB("true"), VF("1"), VNil}
cConts == {EmptyMap, EmptyList}
=============================================================================
