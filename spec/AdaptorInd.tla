---------------------------- MODULE AdaptorInd ----------------------------
(***************************************************************************)
(* The byte adaptor of MxjStream for a stream of ARBITRARY length Total     *)
(* (no bound): an inductive invariant discharged with Apalache.            *)
(* delivered = number of bytes handed to the decoder; the k-th delivery is *)
(* byte k (next = delivered + 1).  The adaptor never loses or duplicates a *)
(* byte and never reports the end of input before every byte was delivered.*)
(***************************************************************************)
EXTENDS Integers
CONSTANT
  \* @type: Int;
  Total
VARIABLES
  \* @type: Int;
  pos,
  \* @type: Int;
  delivered,
  \* @type: Bool;
  pend,
  \* @type: Bool;
  sawEof

ConstInit == Total \in Nat

Init == pos = 0 /\ delivered = 0 /\ pend = FALSE /\ sawEof = FALSE

ReadData == ~pend /\ ~sawEof /\ pos < Total /\ pos' = pos + 1 /\ delivered' = delivered + 1 /\ UNCHANGED <<pend, sawEof>>
ReadDataEof == ~pend /\ ~sawEof /\ pos = Total - 1 /\ pos' = pos + 1 /\ delivered' = delivered + 1 /\ pend' = TRUE /\ UNCHANGED sawEof
ReadZero == ~pend /\ ~sawEof /\ pos < Total /\ UNCHANGED <<pos, delivered, pend, sawEof>>
ReadEof == ~pend /\ ~sawEof /\ pos = Total /\ sawEof' = TRUE /\ UNCHANGED <<pos, delivered, pend>>
PendEof == pend /\ pend' = FALSE /\ sawEof' = TRUE /\ UNCHANGED <<pos, delivered>>
Next == ReadData \/ ReadDataEof \/ ReadZero \/ ReadEof \/ PendEof

\* the inductive invariant: type ranges + no loss / no duplication + the error is held back only at the very end
IndInv == /\ pos \in 0..Total /\ delivered \in 0..Total
          /\ delivered = pos
          /\ (pend => pos = Total /\ ~sawEof)
          /\ (sawEof => delivered = Total)
IndInit == pos \in 0..Total /\ delivered \in 0..Total /\ pend \in BOOLEAN /\ sawEof \in BOOLEAN /\ IndInv
NoLossNoDup == delivered = pos
EofOnlyAfterAll == sawEof => delivered = Total
=============================================================================
