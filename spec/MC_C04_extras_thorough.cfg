SPECIFICATION Spec
CONSTANTS
  Alpha <- cExtras
  MaxElems = 2
  MaxTextKids = 2
  MaxExtras = 3
  DoEmit = TRUE
INVARIANTS Check
CHECK_DEADLOCK FALSE
