------------------------------ MODULE MxjPath ------------------------------
(***************************************************************************)
(* The query language of mxj over abstract values (MxjValue):              *)
(*   - dot / wildcard paths            Old   (oldValuesForPath)            *)
(*   - indexed paths                   VFA   (valuesForArray, intended)    *)
(*   - sub-key conditions              SubKeyPred, CondFilter              *)
(*   - key search                      VFK (ValuesForKey), PFK (PathsForKey)*)
(*   - leaf enumeration                LeafSeq (LeafNodes)                 *)
(*   - a declarative, location based statement of what a path denotes      *)
(*     (Denotes) used as the C07 theorem against the operational Old.      *)
(* Keys are atoms here; the character level parsers are in MxjArgs.        *)
(***************************************************************************)
EXTENDS MxjValue

(***************************** plain / wildcard *****************************)
Final(n) == IF IsList(n) THEN n.it ELSE <<n>>

StepKey(n, k) ==
  IF IsMap(n) THEN (IF k \in DOMAIN n.kv THEN <<n.kv[k]>> ELSE <<>>)
  ELSE IF IsList(n) THEN FlatSeq([i \in 1..Len(n.it) |->
          LET e == n.it[i] IN IF IsMap(e) /\ k \in DOMAIN e.kv THEN <<e.kv[k]>> ELSE <<>>])
  ELSE <<>>

StepStar(n) ==
  IF IsMap(n) THEN MapVals(n)
  ELSE IF IsList(n) THEN FlatSeq([i \in 1..Len(n.it) |->
          LET e == n.it[i] IN IF IsMap(e) THEN MapVals(e) ELSE <<e>>])
  ELSE <<>>

RECURSIVE Old(_, _)
Old(n, ks) == IF ks = <<>> THEN Final(n)
              ELSE LET nx == IF Head(ks) = "*" THEN StepStar(n) ELSE StepKey(n, Head(ks))
                   IN FlatSeq([i \in 1..Len(nx) |-> Old(nx[i], Tail(ks))])

HasStar(ks) == \E i \in 1..Len(ks) : ks[i] = "*"

(***************************** sub-key conditions ***************************)
\* a condition is [k |-> key, neg |-> BOOLEAN, kind |-> "s"|"b"|"f"|"star", v |-> token]
CondMatches(val, c) == IF c.kind = "s" THEN val = VS(c.v)
                       ELSE IF c.kind = "b" THEN val = VB(c.v)
                       ELSE val = VF(c.v)
Cond1(n, c) ==
  IF c.k \notin DOMAIN n.kv THEN c.neg /\ c.kind = "star"
  ELSE IF c.kind = "star" THEN ~c.neg
  ELSE IF CondMatches(n.kv[c.k], c) THEN ~c.neg ELSE c.neg
\* conds is a set of conditions with pairwise distinct (neg, k)
SubKeyPred(n, conds) == conds = {} \/ (IsMap(n) /\ \A c \in conds : Cond1(n, c))
CondFilter(vals, conds) == SelectSeq(vals, LAMBDA x : SubKeyPred(x, conds))

(********************************* indexed **********************************)
\* an indexed key is [name |-> string, idx |-> Int]; idx = -1 means "not indexed"
PK(name, idx) == [name |-> name, idx |-> idx]
Names(keys) == [i \in 1..Len(keys) |-> keys[i].name]
FirstIdx(keys) == IF \E i \in 1..Len(keys) : keys[i].idx >= 0
                  THEN CHOOSE i \in 1..Len(keys) : keys[i].idx >= 0 /\ \A j \in 1..(i-1) : keys[j].idx < 0
                  ELSE 0
\* the code re-joins names with "." and re-splits, dropping ONE trailing empty segment
OldT(n, ns) == Old(n, IF ns # <<>> /\ ns[Len(ns)] = "" THEN SubSeq(ns, 1, Len(ns)-1) ELSE ns)
RECURSIVE VFA(_, _)
VFA(n, keys) ==
  LET j == FirstIdx(keys) IN
  IF j = 0 THEN OldT(n, Names(keys))
  ELSE IF j = 1 THEN
     LET vals == OldT(n, <<keys[1].name>>) IN
     IF Len(vals) <= keys[1].idx THEN <<>>
     ELSE LET v == vals[keys[1].idx + 1] IN
          IF Len(keys) = 1 THEN <<v>>
          ELSE IF IsMap(v) THEN VFA(v, Tail(keys)) ELSE <<>>
  ELSE LET ps == OldT(n, Names(SubSeq(keys, 1, j-1))) IN
       FlatSeq([i \in 1..Len(ps) |-> IF IsMap(ps[i]) THEN VFA(ps[i], SubSeq(keys, j, Len(keys))) ELSE <<>>])

\* ValuesForPath(path, subkeys...) for a parsed path
VFP(n, keys, conds) == CondFilter(VFA(n, keys), conds)

PathStr1(k) == IF k.idx < 0 THEN k.name ELSE k.name \o "[" \o ToString(k.idx) \o "]"
RECURSIVE PathStr(_)
PathStr(keys) == IF keys = <<>> THEN "" ELSE IF Len(keys) = 1 THEN PathStr1(keys[1])
                 ELSE PathStr1(keys[1]) \o "." \o PathStr(Tail(keys))

(************ declarative statement of what a plain/wildcard path denotes ************)
\* A location of m is denoted by the path when its key steps match the path steps
\* one by one; a list is transparent (its members stand for it) except that a '*'
\* step is consumed by a non-map list member.  A plain key does not look through a
\* list nested directly inside a list (NestedListOpaque, see DESIGN C07 domain notes).
RECURSIVE LocMatch(_, _, _)
LocMatch(n, loc, ks) ==
  IF loc = <<>> THEN ks = <<>>
  ELSE LET st == Head(loc) IN
    IF st.i = 0 THEN   \* key step: n is a map
         ks # <<>> /\ (Head(ks) = st.k \/ Head(ks) = "*") /\ LocMatch(n.kv[st.k], Tail(loc), Tail(ks))
    ELSE               \* index step: n is a list
         LET e == n.it[st.i] IN
         ks # <<>> /\
         IF IsMap(e) THEN Tail(loc) # <<>> /\ LocMatch(e, Tail(loc), ks)
         ELSE Head(ks) = "*" /\ LocMatch(e, Tail(loc), Tail(ks))
\* a location may only be *entered* through a list by the rule above when the list was
\* itself reached by a key step (or is the root); LocMatch guarantees it because a list
\* member that is a list is a non-map: it consumes a '*' or fails.
Denoted(m, ks) == {loc \in Locs(m) : LocMatch(m, loc, ks)}
DenotedBag(m, ks) ==
  LET ls == SetToSeq(Denoted(m, ks)) IN BagOfSeq(FlatSeq([i \in 1..Len(ls) |-> Final(At(m, ls[i]))]))

\* bag equality through counting (values may repeat)
SeqCount(s, x) == Cardinality({i \in 1..Len(s) : s[i] = x})
SameBag(s1, s2) == Len(s1) = Len(s2) /\ \A i \in 1..Len(s1) : SeqCount(s1, s1[i]) = SeqCount(s2, s1[i])

DenotesThm(m, ks) ==
  LET ls == SetToSeq(Denoted(m, ks)) IN
  SameBag(Old(m, ks), FlatSeq([i \in 1..Len(ls) |-> Final(At(m, ls[i]))]))

\* "an indexed step k[i] selects for each parent the i-th of the values k alone would yield"
IndexedThm(m, pre, k, i) ==
  LET ps == Old(m, pre)
      each(p) == IF IsMap(p) /\ Len(Old(p, <<k>>)) > i THEN <<Old(p, <<k>>)[i+1]>> ELSE <<>>
  IN pre # <<>> =>
     VFA(m, [x \in 1..Len(pre) |-> PK(pre[x], -1)] \o <<PK(k, i)>>) = FlatSeq([x \in 1..Len(ps) |-> each(ps[x])])

(********************************* key search *******************************)
Contrib(v, conds) == IF IsMap(v) THEN (IF SubKeyPred(v, conds) THEN <<v>> ELSE <<>>)
                     ELSE IF IsList(v) THEN SelectSeq(v.it, LAMBDA x : SubKeyPred(x, conds))
                     ELSE (IF conds = {} THEN <<v>> ELSE <<>>)
RECURSIVE VFK(_, _, _)
VFK(n, key, conds) ==
  IF IsMap(n) THEN
     LET ks == KeySeq(n)
         own == IF key \in DOMAIN n.kv THEN Contrib(n.kv[key], conds) ELSE <<>>
         star == IF key = "*" THEN FlatSeq([i \in 1..Len(ks) |-> Contrib(n.kv[ks[i]], conds)]) ELSE <<>>
     IN own \o star \o FlatSeq([i \in 1..Len(ks) |-> VFK(n.kv[ks[i]], key, conds)])
  ELSE IF IsList(n) THEN FlatSeq([i \in 1..Len(n.it) |-> VFK(n.it[i], key, conds)])
  ELSE <<>>

RECURSIVE PFK(_, _, _)
PFK(n, key, crumbs) ==   \* set of key sequences (list transparent)
  IF IsMap(n) THEN
     (IF key \in DOMAIN n.kv THEN {Append(crumbs, key)} ELSE {})
     \cup UNION {PFK(n.kv[k], key, Append(crumbs, k)) : k \in DOMAIN n.kv}
  ELSE IF IsList(n) THEN UNION {PFK(n.it[i], key, crumbs) : i \in 1..Len(n.it)}
  ELSE {}
RECURSIVE DotJoin(_)
DotJoin(ks) == IF ks = <<>> THEN "" ELSE IF Len(ks) = 1 THEN ks[1] ELSE ks[1] \o "." \o DotJoin(Tail(ks))
ShortestLen(ps) == IF ps = {} THEN 0 ELSE CHOOSE l \in {Len(p) : p \in ps} : \A p \in ps : l <= Len(p)

\* T1: values found through the paths = values found by key search (no directly nested lists)
KeySearchThm(m, key) ==
  (NoNested(m) /\ key # "*") =>
     LET ps == SetToSeq(PFK(m, key, <<>>)) IN
     SameBag(VFK(m, key, {}), FlatSeq([i \in 1..Len(ps) |-> Old(m, ps[i])]))
\* T2: sub-keys only filter
FilterThm(m, key, conds) ==
  SameBag(VFK(m, key, conds), SelectSeq(VFK(m, key, {}), LAMBDA v : conds = {} \/ (IsMap(v) /\ SubKeyPred(v, conds))))

(********************************* leaf nodes *******************************)
\* path strings exactly as LeafNodes builds them
LeafSegJoin(path, node) == IF path = "" THEN node ELSE path \o "." \o node
LeafIdxJoin(path, i, dot) == IF dot THEN LeafSegJoin(path, ToString(i)) ELSE path \o "[" \o ToString(i) \o "]"
\* AttrKeys: the keys that begin with the (non-empty) attribute prefix; TextKey: "#text"
RECURSIVE LeafSeqAt(_, _, _, _, _, _)
LeafSeqAt(n, path, noattr, dot, AttrKeys, TextKey) ==
  IF IsMap(n) THEN
     LET ks == SetToSeq({k \in DOMAIN n.kv : ~(noattr /\ k \in AttrKeys)}) IN
     FlatSeq([i \in 1..Len(ks) |->
        LeafSeqAt(n.kv[ks[i]], IF noattr /\ ks[i] = TextKey THEN path ELSE LeafSegJoin(path, ks[i]), noattr, dot, AttrKeys, TextKey)])
  ELSE IF IsList(n) THEN
     FlatSeq([i \in 1..Len(n.it) |-> LeafSeqAt(n.it[i], LeafIdxJoin(path, i-1, dot), noattr, dot, AttrKeys, TextKey)])
  ELSE <<[p |-> path, v |-> n]>>
LeafSeq(m, noattr, dot, AttrKeys, TextKey) == LeafSeqAt(m, "", noattr, dot, AttrKeys, TextKey)

\* leaves with parsed paths, for the resolution theorem
RECURSIVE LeafKeysAt(_, _)
LeafKeysAt(n, pth) ==
  IF IsMap(n) THEN LET ks == KeySeq(n) IN FlatSeq([i \in 1..Len(ks) |-> LeafKeysAt(n.kv[ks[i]], Append(pth, PK(ks[i], -1)))])
  ELSE IF IsList(n) THEN FlatSeq([i \in 1..Len(n.it) |->
           LeafKeysAt(n.it[i], IF pth # <<>> /\ pth[Len(pth)].idx = -1
                                  THEN [pth EXCEPT ![Len(pth)].idx = i-1]
                                  ELSE Append(pth, PK("", i-1)))])
  ELSE <<[p |-> pth, v |-> n]>>
LeafResolveThm(m) ==
  NoNested(m) => LET ls == LeafKeysAt(m, <<>>) IN
                 /\ Len(ls) = ScalarCount(m)
                 /\ \A i \in 1..Len(ls) : VFA(m, ls[i].p) = <<ls[i].v>>
=============================================================================
