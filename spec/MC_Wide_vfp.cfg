SPECIFICATION Spec
CONSTANTS
  Widths = {31, 32, 33, 34, 64, 65, 300}
  DoEmit = TRUE
INVARIANTS ThmDenotes EmitVfp
CHECK_DEADLOCK FALSE
