SPECIFICATION Spec
CONSTANTS
  Keys = {"a", "b", "-x", "#text"}
  Scalars <- cScalars
  Conts <- cConts
  MaxList = 2
  MaxNodes = 5
  PairNodes = 0
INVARIANTS Emit
CHECK_DEADLOCK FALSE
