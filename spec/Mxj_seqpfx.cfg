SPECIFICATION Spec
CONSTANTS
  AttrPrefixes = {"-", "_", ""}
  KeyPrefixes = {"#"}
  FieldSeps = {":"}
  ArraySizes = {0}
  ActiveFns = {"SetAttrPrefix", "PrependAttrWithHyphen", "CoerceKeysToLower"}
  ActiveOps = {"seq", "seqrt"}
  MaxHist = 3
INVARIANTS Functional OnlyRelevant Emit
CHECK_DEADLOCK FALSE
