------------------------------- MODULE MC_Deep -------------------------------
(***************************************************************************)
(* C07 beyond the builder's reach in DEPTH: a parametric family of Maps    *)
(* that alternate key steps and lists four levels deep (every leaf has its *)
(* own value), and EVERY path over the key chain with each step plain,     *)
(* indexed (in and out of range) or a wildcard -- in particular paths with *)
(* several "plain step followed by an indexed step" groups, whose          *)
(* evaluation recurses (a.b[0].c.d[1]).  Expected results come from the    *)
(* same operator VFA that is checked exhaustively on the small Maps.       *)
(***************************************************************************)
EXTENDS MxjPath, Json
CONSTANTS Branch, DoEmit
VARIABLE m
Chain == <<"a", "b~", "c", "d">>       \* (~ stands for a two-byte rune: key names are not ASCII only)
SV(tag) == VS("v" \o ToString(tag))
\* every level a list of b maps
RECURSIVE LevelL(_, _, _)
LevelL(keys, b, tag) == IF keys = <<>> THEN SV(tag)
                        ELSE VM(Head(keys) :> VL([i \in 1..b |-> LevelL(Tail(keys), b, tag * 10 + i)]))
\* lists and directly nested maps alternate: a:[{b:{c:[{d:..}]}}]
RECURSIVE LevelA(_, _, _, _)
LevelA(keys, b, tag, list) == IF keys = <<>> THEN SV(tag)
                              ELSE IF list THEN VM(Head(keys) :> VL([i \in 1..b |-> LevelA(Tail(keys), b, tag * 10 + i, FALSE)]))
                              ELSE VM(Head(keys) :> LevelA(Tail(keys), b, tag * 10, TRUE))
\* last level a list of scalars, an extra sibling key at every level
RECURSIVE LevelS(_, _, _)
LevelS(keys, b, tag) == IF Len(keys) = 1 THEN VM((Head(keys) :> VL([i \in 1..b |-> SV(tag * 10 + i)])) @@ ("z" :> SV(tag)))
                        ELSE VM((Head(keys) :> VL([i \in 1..b |-> LevelS(Tail(keys), b, tag * 10 + i)])) @@ ("z" :> SV(tag)))
Fam == UNION {{LevelL(Chain, b, 0), LevelA(Chain, b, 0, TRUE), LevelA(Chain, b, 0, FALSE), LevelS(Chain, b, 0)} : b \in Branch}
Init == m \in Fam
Next == UNCHANGED m
Spec == Init /\ [][Next]_m
\* one step of a path over the chain: the key plain or indexed 0, 1, 5 (5 is out of range), or an un-indexed wildcard
Steps(k) == {PK(k, i) : i \in {-1, 0, 1, 5}} \cup {PK("*", -1)}
RECURSIVE PathsTo(_)
PathsTo(n) == IF n = 0 THEN {<<>>} ELSE {Append(p, s) : p \in PathsTo(n - 1), s \in Steps(Chain[n])}
Paths == UNION {PathsTo(n) : n \in 1..Len(Chain)}
IsWild(p) == \E i \in 1..Len(p) : p[i].name = "*"
Case(p) == [p |-> PathStr(p), w |-> IF IsWild(p) THEN "1" ELSE "0", r |-> VFA(m, p)]
\* un-indexed paths denote what the declarative reading says
ThmDenotes == \A p \in {q \in Paths : \A i \in 1..Len(q) : q[i].idx < 0} : DenotesThm(m, Names(p))
\* a fully indexed path over the all-lists Map addresses exactly one leaf when every index is in range
ThmIndexed == \A p \in PathsTo(Len(Chain)) :
                 (m \in {LevelL(Chain, b, 0) : b \in Branch} /\ \A i \in 1..Len(p) : p[i].idx \in {0, 1}) => Len(VFA(m, p)) = 1
EmitVfp == DoEmit => PrintT(ToJson([f |-> "vfp", m |-> m, cs |-> SetToSeq({Case(p) : p \in Paths})]))
=============================================================================
