------------------------------ MODULE MxjJson ------------------------------
(***************************************************************************)
(* JSON string encoding as encoding/json does it for the alphabet used     *)
(* (C06): default mode (HTML characters literal) and safe mode (<     *)
(* > &), exact bytes of Map.Json with sorted keys, and the       *)
(* acceptance rule of NewMapJson.                                          *)
(* Placeholders (the harness substitutes both ways): "^" = U+0001,         *)
(* "$" = newline.  Keys and payloads are character sequences.              *)
(***************************************************************************)
EXTENDS MxjXmlEncode     \* for LexLess / SortedKeys / FlatC / Join

JEsc1(c, safe) ==
  CASE c = "\"" -> <<"\\", "\"">>
    [] c = "\\" -> <<"\\", "\\">>
    [] c = "$"  -> <<"\\", "n">>
    [] c = "^"  -> <<"\\", "u", "0", "0", "0", "1">>
    [] c = "<" /\ safe -> <<"\\", "u", "0", "0", "3", "c">>
    [] c = ">" /\ safe -> <<"\\", "u", "0", "0", "3", "e">>
    [] c = "&" /\ safe -> <<"\\", "u", "0", "0", "2", "6">>
    [] OTHER -> <<c>>
JsonEscape(cs, safe) == FlatC([i \in 1..Len(cs) |-> JEsc1(cs[i], safe)])
RECURSIVE JsonUnescape(_)
JsonUnescape(cs) ==
  IF cs = <<>> THEN <<>>
  ELSE IF Head(cs) # "\\" THEN <<Head(cs)>> \o JsonUnescape(Tail(cs))
  ELSE LET c2 == cs[2] IN
       IF c2 = "u" THEN
          LET hex == SubSeq(cs, 3, 6) IN
          (CASE hex = <<"0", "0", "0", "1">> -> <<"^">> [] hex = <<"0", "0", "3", "c">> -> <<"<">>
             [] hex = <<"0", "0", "3", "e">> -> <<">">> [] hex = <<"0", "0", "2", "6">> -> <<"&">> [] OTHER -> <<"?">>)
          \o JsonUnescape(SubSeq(cs, 7, Len(cs)))
       ELSE (IF c2 = "n" THEN <<"$">> ELSE <<c2>>) \o JsonUnescape(SubSeq(cs, 3, Len(cs)))
JStr(cs, safe) == <<"\"">> \o JsonEscape(cs, safe) \o <<"\"">>

RECURSIVE CommaJoin(_)
CommaJoin(ps) == IF ps = <<>> THEN <<>> ELSE IF Len(ps) = 1 THEN ps[1] ELSE ps[1] \o <<",">> \o CommaJoin(Tail(ps))
\* exact bytes of Map.Json(safe): object keys in byte order, no white space
RECURSIVE JsonOf(_, _)
JsonOf(v, safe) ==
  IF IsMap(v) THEN LET ks == SortedKeys(DOMAIN v.kv) IN
       <<"{">> \o CommaJoin([i \in 1..Len(ks) |-> JStr(ks[i], safe) \o <<":">> \o JsonOf(v.kv[ks[i]], safe)]) \o <<"}">>
  ELSE IF IsList(v) THEN <<"[">> \o CommaJoin([i \in 1..Len(v.it) |-> JsonOf(v.it[i], safe)]) \o <<"]">>
  ELSE IF v.t = "s" THEN JStr(v.v, safe)
  ELSE IF v.t = "n" THEN <<"n", "u", "l", "l">>
  ELSE v.v                                   \* numbers and booleans: the token itself

(* NewMapJson: input = white space, a first value, white space, a trailer *)
\* kind of the first value: "obj" | "arr" | "other" (a complete value of another type) | "bad" (not a JSON value)
Accepts(kind) == kind \in {"obj", "arr"}
ResultShape(kind) == IF kind = "obj" THEN "value" ELSE IF kind = "arr" THEN "wrapped" ELSE "error"
=============================================================================
