SPECIFICATION Spec
CONSTANTS
  AttrPrefixes = {"-"}
  KeyPrefixes = {"#"}
  FieldSeps = {":", "|", "::"}
  ArraySizes = {0}
  ActiveFns = {"SetFieldSeparator"}
  ActiveOps = {"updk"}
  MaxHist = 3
INVARIANTS Functional OnlyRelevant Emit
CHECK_DEADLOCK FALSE
