SPECIFICATION Spec
CONSTANTS
  Keys <- cKeysA2
  Scalars <- cScalarsA2
  Conts <- cConts
  MaxList = 1
  MaxNodes = 5
  PairNodes = 0
  DoEmit = TRUE
  AP = "-"
  KP = "#"
INVARIANTS Thm Emit
CHECK_DEADLOCK FALSE
