SPECIFICATION Spec
CONSTANTS
  CKeys <- cKeysNum
  CVals <- cValsNum
  MaxHist = 3
  DoEmit = TRUE
INVARIANTS ThmFunctionOfContent ThmAscending Emit
CHECK_DEADLOCK FALSE
