SPECIFICATION Spec
CONSTANTS
  Chunks <- cChunks
  MaxChunks = 3
  DoEmit = TRUE
VIEW View
INVARIANTS ThmInverse ThmSafe ThmDefault Emit
CHECK_DEADLOCK FALSE
