SPECIFICATION Spec
CONSTANTS
  Chunks <- cChunks
  MaxChunks = 3
  DoEmit = TRUE
INVARIANTS ThmInverse ThmSafe ThmDefault Emit
CHECK_DEADLOCK FALSE
