SPECIFICATION Spec
CONSTANTS
  Keys = {"a", "b"}
  Scalars <- cScalars
  Conts <- cConts
  MaxList = 2
  MaxNodes = 5
  PairNodes = 0
  UpdKeys = {"a", "b"}
  PathNames = {"a", "b", "*"}
  MaxPath = 3
  NewVals <- cNewVals
  DoEmit = TRUE
INVARIANTS ThmFrame Emit
CHECK_DEADLOCK FALSE
