SPECIFICATION Spec
CONSTANTS
  Alpha <- cAlpha
  MaxElems = 3
  MaxTextKids = 1
INVARIANTS Total Emit
CHECK_DEADLOCK FALSE
