SPECIFICATION Spec
CONSTANTS
  Keys = {"a"}
  Scalars <- cScalars1
  Conts <- cConts
  MaxList = 2
  MaxNodes = 10
  PairNodes = 0
  PathNames = {"a", "*"}
  IdxNames = {"a"}
  MaxIdx = 1
  MaxPath = 4
  DoEmit = TRUE
INVARIANTS ThmDenotes ThmIndexed Emit
CHECK_DEADLOCK FALSE
