------------------------------- MODULE MC_C18 -------------------------------
(***************************************************************************)
(* C18: package options have only their documented effect and can always   *)
(* be restored.                                                            *)
(*  SpecFull : the complete reachable register space (no depth bound);     *)
(*             invariants = idempotence, toggle meaning, frame, mutual     *)
(*             exclusion of the escaping pair, restorability.              *)
(*  SpecHist : all call histories up to MaxHist (BFS) or random walks      *)
(*             (-simulate); each maximal history is printed with the       *)
(*             register state after every call and replayed through the    *)
(*             public setters, VerifOptions() compared after every call.   *)
(***************************************************************************)
EXTENDS MxjOptions, Json, SequencesExt
CONSTANTS ActiveFns,   \* the setter names explored (others stay at their default)
          MaxHist, DoEmit
VARIABLES opt, hist
vars == <<opt, hist>>
ActiveCalls == {c \in Calls : c.fn \in ActiveFns}
Init == opt = InitOpt /\ hist = <<>>
NextFull == \E c \in ActiveCalls : opt' = Eff(opt, c) /\ UNCHANGED hist
NextHist == /\ Len(hist) < MaxHist
            /\ \E c \in ActiveCalls : opt' = Eff(opt, c) /\ hist' = Append(hist, [c |-> c, o |-> Eff(opt, c)])
SpecFull == Init /\ [][NextFull]_vars
SpecHist == Init /\ [][NextHist]_vars

InvIdem    == ExplicitIdempotent(opt)
InvToggle  == ToggleTwiceIdentity(opt)
InvFrame   == FrameOK(opt)
InvEsc     == NeverBothEsc(opt)
InvRestore == Restorable(opt)
\* derived registers, printed so that the harness compares them with the code's
Full(o) == [o |-> o, lenAttrPrefix |-> LenAttrPrefix(o), trimRunes |-> TrimRunes(o), keys |-> SpecialKeys(o)]
Emit == (DoEmit /\ Len(hist) = MaxHist) =>
          PrintT(ToJson([f |-> "opts", hist |-> [i \in 1..Len(hist) |-> [fn |-> hist[i].c.fn, arg |-> hist[i].c.arg, st |-> Full(hist[i].o)]],
                         restore |-> RestoreCalls(Len(hist) % 2 = 0), init |-> Full(InitOpt),
                         proj |-> [op \in DOMAIN Relevant |-> Project(opt, Relevant[op])],
                         rel |-> [op \in DOMAIN Relevant |-> SetToSeq(Relevant[op])]]))
AllFns == ToggleNames \cup {"DisableTrimWhiteSpace", "PrependAttrWithHyphen", "SetAttrPrefix", "XMLEscapeChars", "XMLEscapeCharsDecoder",
           "XmlGoEmptyElemSyntax", "XmlDefaultEmptyElemSyntax", "SetFieldSeparator", "SetArraySize", "SetGlobalKeyMapPrefix",
           "SetCheckTagToSkipFunc", "JsonUseNumber"}
QuickFns == {"IncludeTagSeqNum", "CoerceKeysToLower", "CastValuesToInt", "CastValuesToFloat", "XmlCheckIsValid", "LeafUseDotNotation",
             "DisableTrimWhiteSpace", "PrependAttrWithHyphen", "SetAttrPrefix", "XMLEscapeChars", "XMLEscapeCharsDecoder",
             "XmlGoEmptyElemSyntax", "XmlDefaultEmptyElemSyntax", "SetFieldSeparator", "SetArraySize", "SetGlobalKeyMapPrefix"}
=============================================================================
