------------------------------- MODULE MC_C14 -------------------------------
EXTENDS MxjCast, Json, SequencesExt
VARIABLE c
Init == c \in Catalogue
Spec == Init /\ [][UNCHANGED c]_c
Opts == [cast : BOOLEAN, toInt : BOOLEAN, toFloat : BOOLEAN, toBool : BOOLEAN, nanInf : BOOLEAN, skipTag : {"0", "A", "B"}]
\* function A skips the keys e and -a, function B the keys f and #text
SkA(o) == o.skipTag = "A"
SkB(o) == o.skipTag = "B"
Bc(b) == IF b THEN "1" ELSE "0"
Code(o) == Bc(o.cast) \o Bc(o.toInt) \o Bc(o.toFloat) \o Bc(o.toBool) \o Bc(o.nanInf) \o o.skipTag
Thm == \A o \in Opts : NoCastWithoutFlag(c, o) /\ NeverNanInf(c, o) /\ Denotes(c, o)
Emit == PrintT(ToJson([f |-> "cast", s |-> c.s,
          rows |-> SetToSeq({[code |-> Code(o), e |-> CastOf(c, o, SkA(o)), f |-> CastOf(c, o, SkB(o)), a |-> CastOf(c, o, SkA(o)), t |-> CastOf(c, o, SkB(o)), plain |-> CastOf(c, o, FALSE)] : o \in Opts})]))
=============================================================================
