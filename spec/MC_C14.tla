------------------------------- MODULE MC_C14 -------------------------------
EXTENDS MxjCast, Json, SequencesExt
VARIABLE c
Init == c \in Catalogue
Spec == Init /\ [][UNCHANGED c]_c
Opts == [cast : BOOLEAN, toInt : BOOLEAN, toFloat : BOOLEAN, toBool : BOOLEAN, nanInf : BOOLEAN, skipTag : BOOLEAN]
Bc(b) == IF b THEN "1" ELSE "0"
Code(o) == Bc(o.cast) \o Bc(o.toInt) \o Bc(o.toFloat) \o Bc(o.toBool) \o Bc(o.nanInf) \o Bc(o.skipTag)
Thm == \A o \in Opts : NoCastWithoutFlag(c, o) /\ NeverNanInf(c, o) /\ Denotes(c, o)
Emit == PrintT(ToJson([f |-> "cast", s |-> c.s,
          rows |-> SetToSeq({[code |-> Code(o), e |-> CastOf(c, o, TRUE), f |-> CastOf(c, o, FALSE), a |-> CastOf(c, o, TRUE), t |-> CastOf(c, o, FALSE)] : o \in Opts})]))
=============================================================================
