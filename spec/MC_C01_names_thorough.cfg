SPECIFICATION Spec
CONSTANTS
  Alpha <- cNames
  MaxElems = 4
  MaxTextKids = 1
  MaxComments = 0
  APfx = {"-", "@", ""}
  KPfx = {"#", "_"}
  Casts = {FALSE}
  DoEmit = TRUE
INVARIANTS Check
CHECK_DEADLOCK FALSE
