SPECIFICATION SpecDeep
CONSTANTS
  Keys = {"a", "b", "-x"}
  Scalars <- cScalars
  Conts <- cConts
  MaxList = 2
  MaxNodes = 4
  PairNodes = 0
  SearchKeys = {"a", "b", "c", "z"}
  PathNames = {"a", "b", "*", "-x"}
  MaxPath = 3
INVARIANTS ThmAgrees ThmPaths Emit
CHECK_DEADLOCK FALSE
