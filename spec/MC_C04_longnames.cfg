SPECIFICATION Spec
CONSTANTS
  Alpha <- cLongNames
  MaxElems = 3
  MaxTextKids = 1
  MaxExtras = 0
  DoEmit = TRUE
INVARIANTS Check
CHECK_DEADLOCK FALSE
