SPECIFICATION Spec
CONSTANTS
  Chunks <- cChunks
  MaxChunks = 4
  DoEmit = TRUE
INVARIANTS ThmInverse ThmNoRaw ThmDecoderSide Emit
CHECK_DEADLOCK FALSE
