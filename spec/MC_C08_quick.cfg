SPECIFICATION Spec
CONSTANTS
  Keys = {"a", "b"}
  Scalars <- cScalarsSmall
  Conts <- cConts
  MaxList = 2
  MaxNodes = 4
  PairNodes = 0
  SearchKeys = {"a", "b", "*", "z"}
  CondKeys = {"a", "b"}
  MaxConds = 2
  PathNames = {"a", "b", "*"}
  MaxPath = 2
  DoEmit = TRUE
INVARIANTS ThmKeySearch ThmFilter ThmShortest Emit
CHECK_DEADLOCK FALSE
