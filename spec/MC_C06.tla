------------------------------- MODULE MC_C06 -------------------------------
(***************************************************************************)
(* C06: JSON encode/decode is lossless and agrees with encoding/json.      *)
(* Strings of <= MaxChunks chunks over  < > & \ " a  U+0001  newline, the  *)
(* six-character literals < > & and the fragment u003c, as  *)
(* values and as keys; and the acceptance grammar of NewMapJson.           *)
(***************************************************************************)
EXTENDS MxjJson, Json
CONSTANTS Chunks, MaxChunks, DoEmit
VARIABLES s, n, inp
NoInput == [text |-> "", kind |-> "empty", lead |-> FALSE, trail |-> FALSE]
Init == s = <<>> /\ n = 0 /\ inp = NoInput
Next == n < MaxChunks /\ \E c \in Chunks : s' = s \o c /\ n' = n + 1 /\ UNCHANGED inp
Spec == Init /\ [][Next]_<<s, n, inp>>
View == s
ThmInverse == \A safe \in BOOLEAN : JsonUnescape(JsonEscape(s, safe)) = s
ThmSafe    == LET e == JsonEscape(s, TRUE) IN \A i \in 1..Len(e) : e[i] \notin {"<", ">", "&"}
ThmDefault == LET e == JsonEscape(s, FALSE) IN \A c \in {"<", ">", "&"} :
                 Cardinality({i \in 1..Len(e) : e[i] = c}) = Cardinality({i \in 1..Len(s) : s[i] = c})
KA == <<"k">>
MVal == VM(KA :> VS(s))
MKey == VM(s :> VS(<<"v">>))
MNest == VM(KA :> VL(<<VS(s), VM(s :> VL(<<VS(s)>>))>>))
MObj == VM(<<"o", "b", "j", "e", "c", "t">> :> VL(<<VS(s)>>))        \* the key under which NewMapJson puts a bare list: a Map like any other for the encoders
Emit == DoEmit => PrintT(ToJson([f |-> "json", s |-> Join(s),
           cs |-> <<[shape |-> "val", safe |-> FALSE, x |-> Join(JsonOf(MVal, FALSE))], [shape |-> "val", safe |-> TRUE, x |-> Join(JsonOf(MVal, TRUE))],
                    [shape |-> "key", safe |-> FALSE, x |-> Join(JsonOf(MKey, FALSE))], [shape |-> "key", safe |-> TRUE, x |-> Join(JsonOf(MKey, TRUE))],
                    [shape |-> "nest", safe |-> FALSE, x |-> Join(JsonOf(MNest, FALSE))], [shape |-> "nest", safe |-> TRUE, x |-> Join(JsonOf(MNest, TRUE))],
                    [shape |-> "object", safe |-> FALSE, x |-> Join(JsonOf(MObj, FALSE))], [shape |-> "object", safe |-> TRUE, x |-> Join(JsonOf(MObj, TRUE))]>>]))
(* ---- NewMapJson acceptance: [ws] value [ws] [trailer] ---- *)
Values == {[t |-> "{}", k |-> "obj"], [t |-> "{\"a\":1}", k |-> "obj"], [t |-> "{\"a\":{\"b\":[1,\"x\"]}}", k |-> "obj"],
           [t |-> "[1]", k |-> "arr"], [t |-> "[]", k |-> "arr"], [t |-> "[{\"a\":1},2]", k |-> "arr"],
           [t |-> "null", k |-> "other"], [t |-> "1", k |-> "other"], [t |-> "\"s\"", k |-> "other"], [t |-> "true", k |-> "other"],
           [t |-> "{\"a\":", k |-> "bad"], [t |-> "}", k |-> "bad"], [t |-> "{a:1}", k |-> "bad"], [t |-> "[1", k |-> "bad"],
           \* white space for Unicode / Go, but not for JSON (% stands for form feed, ` for U+00A0): not a JSON text
           [t |-> "%{\"a\":1}", k |-> "bad"], [t |-> "`[1]", k |-> "bad"], [t |-> "%{}", k |-> "bad"],
           \* a byte-order mark (@) is not white space for JSON either
           [t |-> "@{\"a\":1}", k |-> "bad"], [t |-> "@[1]", k |-> "bad"],
           \* a numeral beyond float64 is a number for the grammar and an error for the decoder
           [t |-> "{\"a\":1e400}", k |-> "range"], [t |-> "[1,-1E999]", k |-> "range"]}     \* ("range": rejected -- unless numbers are kept as their text, JsonUseNumber)
Wss == {"", " ", "\n\t"}
Trailers == {"", "x", "{\"b\":2}", "}"}
Inputs == {[text |-> w1 \o v.t \o w2 \o tr, kind |-> v.k, lead |-> w1 # "", trail |-> tr # ""] : v \in Values, w1 \in Wss, w2 \in Wss, tr \in Trailers}
          \cup {NoInput}
          \cup {[text |-> w, kind |-> "bad", lead |-> TRUE, trail |-> FALSE] : w \in Wss \ {""}}     \* white space only: not a JSON text (only the EMPTY input is the documented empty Map)
Init2 == inp \in Inputs /\ s = <<>> /\ n = 0
Spec2 == Init2 /\ [][UNCHANGED <<s, n, inp>>]_<<s, n, inp>>
Emit2 == PrintT(ToJson([f |-> "jsonin", text |-> inp.text, kind |-> inp.kind,
                        accept |-> (inp.kind = "empty" \/ Accepts(inp.kind)), shape |-> IF inp.kind = "empty" THEN "empty" ELSE ResultShape(inp.kind)]))
C(x) == <<x>>
cChunks == {C("<"), C(">"), C("&"), C("\\"), C("\""), C("a"), C("^"), C("$"), C("~"),       \* (^ U+0001, $ newline, ~ a two-byte character)
            <<"\\", "u", "0", "0", "3", "c">>, <<"\\", "u", "0", "0", "3", "e">>, <<"\\", "u", "0", "0", "2", "6">>, <<"u", "0", "0", "3", "c">>,
            <<"\\", "u", "2", "0", "2", "8">>}      \* (the six characters, not U+2028: encoding/json escapes the character itself in every mode)
=============================================================================
