SPECIFICATION Spec
CONSTANTS
  Profiles <- cXmlCutSmall
  MaxZero = 1
  Design = "ok"
  Caller = "handler"
  DoEmit = TRUE
INVARIANTS Safety Emit
PROPERTIES Terminates
