SPECIFICATION Spec
CONSTANTS
  AttrPrefixes = {"-"}
  KeyPrefixes = {"#"}
  FieldSeps = {":"}
  ArraySizes = {0}
  ActiveFns = {"IncludeTagSeqNum", "DecodeSimpleValuesAsMap"}
  ActiveOps = {"dec"}
  MaxHist = 4
INVARIANTS Functional OnlyRelevant Emit
CHECK_DEADLOCK FALSE
