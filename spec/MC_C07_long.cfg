SPECIFICATION Spec
CONSTANTS
  Keys = {"a", "~"}
  Scalars <- cScalarsLong
  Conts <- cConts
  MaxList = 2
  MaxNodes = 4
  PairNodes = 0
  PathNames = {"a", "~", "*", "z"}
  IdxNames = {"a", "~"}
  MaxIdx = 1
  MaxPath = 3
  DoEmit = TRUE
INVARIANTS ThmDenotes ThmIndexed Emit
CHECK_DEADLOCK FALSE
