SPECIFICATION Spec
CONSTANTS
  Keys = {"a", "ab"}
  Scalars <- cScalarsNil
  Conts <- cConts
  MaxList = 2
  MaxNodes = 4
  PairNodes = 0
  SearchKeys = {"a", "ab", "*", "z"}
  CondKeys = {"a", "ab"}
  MaxConds = 1
  PathNames = {"a", "ab", "*"}
  MaxPath = 2
  DoEmit = TRUE
INVARIANTS ThmKeySearch ThmFilter ThmShortest Emit
CHECK_DEADLOCK FALSE
