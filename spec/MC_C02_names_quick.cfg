SPECIFICATION Spec
CONSTANTS
  Alpha <- cNames
  MaxElems = 3
  MaxTextKids = 1
  MaxComments = 0
  APfx = {"-", "@"}
  KPfx = {"#", "_"}
  Casts = {FALSE, TRUE}
  DoEmit = TRUE
INVARIANTS Check2
CHECK_DEADLOCK FALSE
