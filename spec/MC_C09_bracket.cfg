SPECIFICATION Spec
CONSTANTS
  Keys = {"a", "b]"}
  Scalars <- cScalars
  Conts <- cConts
  MaxList = 2
  MaxNodes = 4
  PairNodes = 0
  DoEmit = TRUE
INVARIANTS ThmOnePerScalar ThmResolves ThmNoAttr Emit
CHECK_DEADLOCK FALSE
