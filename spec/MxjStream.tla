----------------------------- MODULE MxjStream -----------------------------
(***************************************************************************)
(* Reading documents one after another from an io.Reader (C13, C19).       *)
(*                                                                         *)
(* Processes, one action per critical step of the code:                    *)
(*   source    the io.Reader: every Read of one byte returns one of        *)
(*             D (1,nil)  DE (1,EOF, last byte only)  Z (0,nil, budgeted)  *)
(*             E (0,EOF, at end only) -- all the contract permits          *)
(*   adaptor   byteReader / teeReader / getJson's read loop: hands one     *)
(*             byte to the decoder per request; an error that arrives      *)
(*             together with a byte is held back until the byte has been   *)
(*             delivered (pend); a (0,nil) read is retried, never turned   *)
(*             into a byte                                                 *)
(*   decoder   consumes bytes until the document is complete ("done"),     *)
(*             malformed ("bad") or the input ends; for XML the end of the *)
(*             root element is given by construction (encoding/xml is      *)
(*             trusted to find it), for JSON it is computed by the         *)
(*             character level brace scanner (getJson) modelled here       *)
(*   caller    either a loop of single calls (NewMap...Reader[Raw]) until  *)
(*             EOF/error, or a bulk handler (Handle...Reader[Raw]) whose   *)
(*             map/err handlers return nondeterministic verdicts           *)
(*                                                                         *)
(* The stream is described by the profile record `prof` (constant during a *)
(* behaviour, chosen in Init so that one TLC run covers many streams):     *)
(*   total  number of bytes      docs  sequence of [s, e]: first/last byte *)
(*   mode   "xml" | "json"       tail  "EOF", or "ERR" when the stream is  *)
(*   chars  the bytes (json)           cut inside a document               *)
(*   keep   json: per document the indexes of its significant bytes        *)
(* Design = "ok" is the intended design; other values are deliberately     *)
(* wrong designs used as negative tests of the invariants.                 *)
(***************************************************************************)
EXTENDS Integers, Sequences, FiniteSets, TLC
CONSTANTS Profiles, MaxZero, Design, Caller   \* Caller: "single" | "handler"
VARIABLES prof,      \* the stream
          pos,       \* bytes handed out by the source so far
          zeros,     \* (0,nil) reads used
          pend,      \* adaptor holds back an error
          cd,        \* indexes delivered to the decoder in the current call
          calls,     \* results of completed calls: [res, raw, pos]
          sched,     \* history: read outcomes and handler verdicts, for replay
          done,      \* caller finished
          hret,      \* handler mode: what the bulk call returned ("nil" | "err" | "")
          wait       \* handler mode: a handler verdict is awaited
vars == <<prof, pos, zeros, pend, cd, calls, sched, done, hret, wait>>

Last(s) == s[Len(s)]
RECURSIVE FlatS(_)
FlatS(ss) == IF ss = <<>> THEN <<>> ELSE Head(ss) \o FlatS(Tail(ss))

(******************************* JSON scanner *******************************)
\* state of getJson after consuming the characters cs (intended design):
\* [inJson, inQuote, esc, depth, jb (kept indexes), st ("more"|"done"|"bad")]
Ws == {" ", "\n", "\t", "\r"}
ScanStep(s, c, idx) ==
  IF s.st # "more" THEN s
  ELSE IF s.inQuote THEN
       IF s.esc THEN [s EXCEPT !.esc = FALSE, !.jb = Append(@, idx)]
       ELSE IF c = "\\" THEN [s EXCEPT !.esc = TRUE, !.jb = Append(@, idx)]
       ELSE IF c = "\"" THEN [s EXCEPT !.inQuote = FALSE, !.jb = Append(@, idx)]
       ELSE [s EXCEPT !.jb = Append(@, idx)]
  ELSE IF c \in Ws THEN s
  ELSE IF c = "{" THEN [s EXCEPT !.inJson = TRUE, !.depth = @ + 1, !.jb = Append(@, idx)]
  ELSE IF c = "}" THEN
       (IF s.depth = 0 THEN [s EXCEPT !.st = "bad"]
        ELSE IF s.depth = 1 THEN [s EXCEPT !.depth = 0, !.jb = Append(@, idx), !.st = "done"]
        ELSE [s EXCEPT !.depth = @ - 1, !.jb = Append(@, idx)])
  ELSE IF c = "\"" THEN [s EXCEPT !.inQuote = TRUE, !.jb = IF s.inJson THEN Append(@, idx) ELSE @]
  ELSE [s EXCEPT !.jb = IF s.inJson THEN Append(@, idx) ELSE @]
Scan0 == [inJson |-> FALSE, inQuote |-> FALSE, esc |-> FALSE, depth |-> 0, jb |-> <<>>, st |-> "more"]
RECURSIVE ScanOver(_, _, _)
ScanOver(s, idxs, chars) == IF idxs = <<>> THEN s ELSE ScanOver(ScanStep(s, chars[Head(idxs)], Head(idxs)), Tail(idxs), chars)
ScanOf(d) == ScanOver(Scan0, d, prof.chars)

(********************************* decoder **********************************)
DecState(d) == IF prof.mode = "xml"
               THEN (IF d # <<>> /\ (\E k \in 1..Len(prof.docs) : prof.docs[k].e = Last(d)) THEN "done" ELSE "more")
               ELSE ScanOf(d).st
\* end of input here is an error: a document has started and is not complete
MidDoc(d) == IF prof.mode = "xml" THEN \E i \in 1..Len(d) : d[i] \in prof.starts   \* starts: incl. the cut document's
             ELSE LET s == ScanOf(d) IN s.inJson /\ s.depth > 0
\* the bytes a Raw variant returns for the call
RawOf(d) == IF prof.mode = "xml" THEN d ELSE ScanOf(d).jb

(********************************* caller ***********************************)
\* the current call returns r having consumed d2, the source being at newpos
Return(r, d2, newpos) ==
  /\ calls' = Append(calls, [res |-> r, raw |-> RawOf(d2), pos |-> newpos])
  /\ cd' = <<>>
  /\ pend' = FALSE            \* the adaptor lives for one call
  /\ IF Caller = "single"
       THEN done' = (r \in {"EOF", "ERR", "BAD"}) /\ hret' = hret /\ wait' = FALSE
       ELSE \* bulk handler: EOF ends the loop; M and errors wait for a handler verdict
            done' = (r = "EOF") /\ hret' = (IF r = "EOF" THEN "nil" ELSE hret) /\ wait' = (r # "EOF")

\* the decoder receives byte index b
Deliver(b, newpos, pendAfter) ==
  LET d2 == Append(cd, b)
      st == DecState(d2) IN
  IF st = "done" THEN Return("M", d2, newpos)
  ELSE IF st = "bad" THEN Return("BAD", d2, newpos)
  ELSE cd' = d2 /\ pend' = pendAfter /\ UNCHANGED <<calls, done, hret, wait>>
\* the decoder sees the end of input
SeeEof == Return(IF MidDoc(cd) THEN "ERR" ELSE "EOF", cd, pos')

CanRead == ~done /\ ~wait /\ ~pend
(********************************* source ***********************************)
ReadData ==      \* (1, nil)
  /\ CanRead /\ pos < prof.total
  /\ sched' = Append(sched, "D")
  /\ IF Design = "readahead" /\ pos + 2 <= prof.total /\ DecState(Append(cd, pos + 1)) = "done"
       THEN pos' = pos + 2 /\ Deliver(pos + 1, pos + 2, FALSE)      \* wrong design: one byte too many taken from the source
       ELSE pos' = pos + 1 /\ Deliver(pos + 1, pos + 1, FALSE)
  /\ UNCHANGED <<prof, zeros>>
ReadDataEof ==   \* (1, EOF): only legal for the last byte
  /\ CanRead /\ pos = prof.total - 1
  /\ pos' = pos + 1 /\ sched' = Append(sched, "DE")
  /\ IF Design = "eofdrop"
       THEN SeeEof                                  \* wrong design: byte handed over together with the error is dropped
       ELSE Deliver(pos + 1, pos + 1, TRUE)         \* the error is held back until the byte has been delivered
  /\ UNCHANGED <<prof, zeros>>
ReadZero ==      \* (0, nil)
  /\ CanRead /\ pos < prof.total /\ zeros < MaxZero
  /\ zeros' = zeros + 1 /\ sched' = Append(sched, "Z")
  /\ IF Design = "stale" /\ cd # <<>>
       THEN Deliver(Last(cd), pos, FALSE)            \* wrong design: the stale buffer byte is delivered again
       ELSE UNCHANGED <<cd, calls, done, pend, hret, wait>>
  /\ UNCHANGED <<prof, pos>>
ReadEof ==       \* (0, EOF)
  /\ CanRead /\ pos = prof.total
  /\ sched' = Append(sched, "E")
  /\ pos' = pos /\ SeeEof
  /\ UNCHANGED <<prof, zeros>>
PendEof ==       \* the adaptor reports the held-back error on the next request
  /\ ~done /\ ~wait /\ pend
  /\ pos' = pos /\ SeeEof
  /\ UNCHANGED <<prof, zeros, sched>>
\* bulk handlers: the map handler (after M) or the error handler (after ERR/BAD) returns a verdict
Verdict(v) ==
  /\ wait /\ ~done
  /\ sched' = Append(sched, IF v THEN "T" ELSE "F")
  /\ wait' = FALSE
  /\ IF v THEN UNCHANGED <<done, hret>>
     ELSE done' = TRUE /\ hret' = (IF Last(calls).res = "M" THEN "nil" ELSE "err")
  /\ UNCHANGED <<prof, pos, zeros, pend, cd, calls>>

Init == /\ prof \in Profiles
        /\ pos = 0 /\ zeros = 0 /\ pend = FALSE /\ cd = <<>> /\ calls = <<>> /\ sched = <<>> /\ done = FALSE /\ hret = "" /\ wait = FALSE
Next == ReadData \/ ReadDataEof \/ ReadZero \/ ReadEof \/ PendEof \/ (\E v \in BOOLEAN : Verdict(v)) \/ (done /\ UNCHANGED vars)
Spec == Init /\ [][Next]_vars /\ WF_vars(Next)

(******************************** properties ********************************)
NDocs == Len(prof.docs)
Range(a, b) == [i \in 1..(b - a + 1) |-> a + i - 1]
PrevPos(i) == IF i = 1 THEN 0 ELSE calls[i-1].pos
\* every byte the source handed out is delivered to a decoder exactly once, in order (xml: raw = delivered)
NoLossNoDup == prof.mode = "xml" =>
   LET all == FlatS([i \in 1..Len(calls) |-> calls[i].raw]) \o cd IN all = Range(1, Len(all)) /\ Len(all) = pos
\* a successful call stops reading at the last byte of its document
NoOverRead == \A i \in 1..Len(calls) : calls[i].res = "M" => (i <= NDocs /\ calls[i].pos = prof.docs[i].e)
\* results: the documents in order, then EOF (or the error where the stream is cut), then only EOF
Expected(i) == IF i <= NDocs THEN "M" ELSE IF i = NDocs + 1 THEN prof.tail ELSE "EOF"
OutPrefix == \A i \in 1..Len(calls) : calls[i].res = Expected(i)
\* the Raw value of the k-th successful call: xml = every byte since the previous call up to the end of
\* document k; json = exactly the significant bytes of document k as constructed (scanner cut points are right)
RawExact == \A i \in 1..Len(calls) : (calls[i].res = "M" /\ i <= NDocs) =>
               IF prof.mode = "xml" THEN calls[i].raw = Range(PrevPos(i) + 1, prof.docs[i].e)
               ELSE calls[i].raw = prof.keep[i]
\* handlers are invoked once per document, in order, and never after a 'false'
HandlerOK == Caller = "handler" =>
   LET vs == SelectSeq(sched, LAMBDA x : x \in {"T", "F"}) IN
   /\ Len(vs) <= Len(calls)
   /\ \A i \in 1..(Len(vs) - 1) : vs[i] = "T"
   /\ ((done /\ hret = "err") => Last(calls).res \in {"ERR", "BAD"})
Safety == NoLossNoDup /\ NoOverRead /\ OutPrefix /\ RawExact /\ HandlerOK
Terminates == <>done
=============================================================================
