SPECIFICATION Spec
CONSTANTS
  AttrPrefixes = {"-"}
  KeyPrefixes = {"#"}
  FieldSeps = {":"}
  ArraySizes = {0}
  ActiveFns = {"DisableTrimWhiteSpace", "DecodeSimpleValuesAsMap"}
  ActiveOps = {"dec", "seq"}
  MaxHist = 4
INVARIANTS Functional OnlyRelevant Emit
CHECK_DEADLOCK FALSE
