SPECIFICATION Spec
CONSTANTS
  Profiles <- cJsonQuick
  MaxZero = 1
  Design = "ok"
  Caller = "single"
  DoEmit = TRUE
INVARIANTS Safety Emit
PROPERTIES Terminates
