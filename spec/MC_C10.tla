------------------------------- MODULE MC_C10 -------------------------------
(***************************************************************************)
(* C10: UpdateValuesForPath changes only the addressed values and reports  *)
(* how many.  Every Map x key x path x condition set; the operational      *)
(* UpdateOp must satisfy the declarative frame (ThmFrame) and the          *)
(* read-back clause; every transition is replayed on the real code.        *)
(***************************************************************************)
EXTENDS MxjMapGen, MxjMutate, Json
CONSTANTS UpdKeys, PathNames, MaxPath, NewVals, DoEmit
CondSets == {{}, {[k |-> "b", neg |-> FALSE, kind |-> "s", v |-> "x"]}, {[k |-> "a", neg |-> TRUE, kind |-> "star", v |-> "*"]},
             {[k |-> "b", neg |-> FALSE, kind |-> "b", v |-> "false"]}}       \* (a boolean condition holds for the boolean only, not for whatever else is not true)
            \cup (IF VF("1.6777217e+07") \in Scalars       \* (numbers that differ in double precision only: a numeric condition compares exactly)
                  THEN {{[k |-> "b", neg |-> FALSE, kind |-> "f", v |-> "1.6777217e+07"]}, {[k |-> "b", neg |-> TRUE, kind |-> "f", v |-> "1.6777216e+07"]}} ELSE {})
RECURSIVE NamePaths(_)
NamePaths(l) == IF l = 0 THEN {<<>>}
                ELSE LET P == NamePaths(l-1) IN P \cup {Append(p, s) : p \in {q \in P : Len(q) = l-1}, s \in PathNames}
Paths == NamePaths(MaxPath) \ {<<>>}
Trans == UpdKeys \X NewVals \X Paths \X CondSets
ThmFrame == \A t \in Trans : LET r == UpdateOp(m, t[1], t[2], t[3], t[4]) IN
               /\ UpdateFrame(m, r.n, r.c, t[1], t[2], t[3], t[4])
               /\ UpdateReadBack(r.n, r.c, t[1], t[2], t[3], t[4])
\* replayed as well: a new value that is NOT fresh (equal to a value some addressed entry may already hold); the
\* operational UpdateOp counts every addressed entry, changed or not -- the frame theorem above needs freshness
TransE == UpdKeys \X (NewVals \cup {VS("x")}) \X Paths \X CondSets
\* ... and container values (a map holding a list of records): stored at several nodes they must be independent copies
TransC == UpdKeys \X {VL(<<VM("n" :> VS("N"))>>), VM("n" :> VL(<<VM("q" :> VS("N")), VS("N")>>))} \X {p \in Paths : Len(p) <= 2} \X {{}}
TCase(t) == LET r == UpdateOp(m, t[1], t[2], t[3], t[4]) IN
            [key |-> t[1], val |-> t[2], p |-> DotJoin(t[3]), conds |-> SetToSeq(t[4]), post |-> r.n, c |-> r.c]
Emit == DoEmit => PrintT(ToJson([f |-> "upd", m |-> m, ts |-> SetToSeq({TCase(t) : t \in TransE \cup TransC})]))
Spec == GenSpec
cScalars == {VS("x"), VS("X")}      \* (values that differ in case only: a string condition compares exactly)
cConts == {EmptyMap, EmptyList}
cNewVals == {VS("N")}
cNewVals2 == {VS("N"), VM("n" :> VS("N")), VL(<<VS("N")>>)}
\* placeholder alphabets (check.py SUBST)
cScalarsLong == {VS("x"), VS("^")}
cNewValsLong == {VS("N^"), VM("~" :> VS("N"))}      \* (a new value is not one of the old ones: the frame counts replaced values by their difference)
cScalarsF32 == {VF("1.6777216e+07"), VF("1.6777217e+07")}      \* 2^24 and 2^24 + 1: one number in single precision, two in double

=============================================================================
