SPECIFICATION Spec
CONSTANTS
  Profiles <- cXmlHandler
  MaxZero = 1
  Design = "ok"
  Caller = "handler"
  DoEmit = TRUE
INVARIANTS Safety Emit
PROPERTIES Terminates
