SPECIFICATION Spec
CONSTANTS
  AttrPrefixes = {"-", "@"}
  KeyPrefixes = {"#"}
  FieldSeps = {":"}
  ArraySizes = {0}
  ActiveFns = {"CoerceKeysToLower", "CoerceKeysToSnakeCase", "SetAttrPrefix"}
  ActiveOps = {"dec"}
  MaxHist = 5
INVARIANTS Functional OnlyRelevant Emit
CHECK_DEADLOCK FALSE
