SPECIFICATION Spec
CONSTANTS
  Alpha <- cExtras
  MaxElems = 2
  MaxTextKids = 1
  MaxExtras = 2
  DoEmit = TRUE
INVARIANTS Check
CHECK_DEADLOCK FALSE
