------------------------------ MODULE MC_Stream ------------------------------
(***************************************************************************)
(* C13 / C19: model-checking and behaviour generation configs of MxjStream *)
(*  - XML profiles: documents given by their lengths, gaps of white space  *)
(*    (the harness owns the concrete bytes), optionally cut at a byte      *)
(*  - JSON profiles: streams CONSTRUCTED from abstract objects whose       *)
(*    string values are sequences of {a, blank, '{', '}', '\"', '\\'};     *)
(*    boundaries and significant bytes are known by construction.          *)
(***************************************************************************)
EXTENDS MxjStream, Json
CONSTANTS DoEmit

RECURSIVE SumTo(_, _)
SumTo(s, k) == IF k = 0 THEN 0 ELSE s[k] + SumTo(s, k-1)
DStart(dl, gl, k) == SumTo(dl, k-1) + SumTo(gl, k) + 1
DEnd(dl, gl, k)   == SumTo(dl, k) + SumTo(gl, k)
MkXml(dl, gl, cut) ==
  LET n == Len(dl)
      full == SumTo(dl, n) + SumTo(gl, n + 1)
      tot == IF cut > 0 THEN cut ELSE full
      whole == {k \in 1..n : DEnd(dl, gl, k) <= tot}
      nd == Cardinality(whole)
  IN [mode |-> "xml", total |-> tot,
      docs |-> [k \in 1..nd |-> [s |-> DStart(dl, gl, k), e |-> DEnd(dl, gl, k)]],
      starts |-> {DStart(dl, gl, k) : k \in {j \in 1..n : DStart(dl, gl, j) <= tot}},
      tail |-> IF \E k \in 1..n : DStart(dl, gl, k) <= tot /\ tot < DEnd(dl, gl, k) THEN "ERR" ELSE "EOF",
      chars |-> <<>>, keep |-> <<>>,
      id |-> [dl |-> dl, gl |-> gl, cut |-> cut, text |-> ""]]

Gaps(n) == [1..n -> {0, 1}]
XmlProfilesFor(dl) == {MkXml(dl, g, 0) : g \in Gaps(Len(dl) + 1)}
XmlCutProfilesFor(dl, gl) == {MkXml(dl, gl, c) : c \in 1..(SumTo(dl, Len(dl)) + SumTo(gl, Len(dl) + 1))}
cXmlQuick == XmlProfilesFor(<<4>>) \cup XmlProfilesFor(<<4, 5>>) \cup {MkXml(<<8>>, <<0, 0>>, 0), MkXml(<<8>>, <<1, 1>>, 0)}     \* (8 bytes: <b>1</b>, a value the cast forms turn into a number)
cXmlThorough == XmlProfilesFor(<<4>>) \cup XmlProfilesFor(<<4, 5>>) \cup XmlProfilesFor(<<4, 4, 5>>) \cup {MkXml(<<7, 4>>, <<2, 2, 0>>, 0)}
cXmlHandler == {MkXml(<<4, 5>>, <<0, 1, 0>>, 0), MkXml(<<4, 5>>, <<1, 0, 1>>, 0), MkXml(<<4>>, <<0, 0>>, 0)}
cXmlNeg == {MkXml(<<4, 5>>, <<0, 1, 0>>, 0)}
cXmlCutSmall == {MkXml(<<4, 5>>, <<0, 1, 0>>, 7), MkXml(<<4, 5>>, <<0, 1, 0>>, 3)}
cXmlCut == XmlCutProfilesFor(<<4, 5>>, <<0, 1, 0>>) \cup XmlCutProfilesFor(<<4, 5>>, <<1, 0, 1>>)
cXmlCutThorough == cXmlCut \cup XmlCutProfilesFor(<<4, 4, 5>>, <<0, 1, 0, 1>>)

(* ---------------------------- JSON by construction ---------------------------- *)
Tok(t) == CASE t = "a" -> <<"a">> [] t = "sp" -> <<" ">> [] t = "lb" -> <<"{">> [] t = "rb" -> <<"}">>
            [] t = "eq" -> <<"\\", "\"">> [] t = "eb" -> <<"\\", "\\">> [] t = "hb" -> <<"~">>       \* (~: one byte above 0x7f)
Toks == {"a", "sp", "lb", "rb", "eq", "eb"}
RECURSIVE FlatT(_)
FlatT(ts) == IF ts = <<>> THEN <<>> ELSE Tok(Head(ts)) \o FlatT(Tail(ts))
\* object {"k":"<content>"}; loose = with insignificant blanks around the colon and braces
ObjChars(c, loose) == IF loose THEN <<"{", " ", "\"", "k", "\"", " ", ":", "\"">> \o FlatT(c) \o <<"\"", " ", "}">>
                      ELSE <<"{", "\"", "k", "\"", ":", "\"">> \o FlatT(c) \o <<"\"", "}">>
\* nested object {"k":{"j":"<content>"}}
ObjNested(c) == <<"{", "\"", "k", "\"", ":", "{", "\"", "j", "\"", ":", "\"">> \o FlatT(c) \o <<"\"", "}", "}">>
RECURSIVE CatS(_)
CatS(cs) == IF cs = <<>> THEN "" ELSE Head(cs) \o CatS(Tail(cs))
\* significant indexes of an object placed at offset off: every char except blanks outside strings.
\* By construction blanks outside strings only occur in the `loose` form at fixed places.
SigIdx(chars, off, loose) ==
  LET n == Len(chars)
      drop == IF loose THEN {2, 6, n - 1} ELSE {} IN
  SelectSeq([i \in 1..n |-> i], LAMBDA i : i \notin drop)
MkJsonCut(objs, gaps, cut) ==   \* objs: sequence of [chars, loose]; gaps: sequence (Len+1) of char sequences; cut: 0 or byte count
  LET n == Len(objs)
      RECURSIVE Off(_)
      Off(k) == IF k = 0 THEN 0 ELSE Off(k-1) + Len(gaps[k]) + Len(objs[k].chars)
      st(k) == Off(k-1) + Len(gaps[k]) + 1
      en(k) == Off(k)
      RECURSIVE Cat(_)
      Cat(k) == IF k = 0 THEN <<>> ELSE Cat(k-1) \o gaps[k] \o objs[k].chars
      full == Cat(n) \o gaps[n+1]
      all == IF cut > 0 THEN SubSeq(full, 1, cut) ELSE full
      nd == Cardinality({k \in 1..n : en(k) <= Len(all)})
  IN [mode |-> "json", total |-> Len(all),
      docs |-> [k \in 1..nd |-> [s |-> st(k), e |-> en(k)]],
      starts |-> {st(k) : k \in {j \in 1..n : st(j) <= Len(all)}},
      tail |-> IF \E k \in 1..n : st(k) <= Len(all) /\ Len(all) < en(k) THEN "ERR" ELSE "EOF",
      chars |-> all,
      keep |-> [k \in 1..nd |-> LET sig == SigIdx(objs[k].chars, 0, objs[k].loose) IN [i \in 1..Len(sig) |-> st(k) - 1 + sig[i]]],
      id |-> [dl |-> [k \in 1..n |-> Len(objs[k].chars)], gl |-> [k \in 1..(n+1) |-> Len(gaps[k])], cut |-> cut, text |-> CatS(all)]]
MkJson(objs, gaps) == MkJsonCut(objs, gaps, 0)
Contents(l) == UNION {[1..k -> Toks] : k \in 0..l}
O(c, loose) == [chars |-> ObjChars(c, loose), loose |-> loose]
ON(c) == [chars |-> ObjNested(c), loose |-> FALSE]
OE == [chars |-> <<"{", "}">>, loose |-> FALSE]          \* the empty object: a document like any other (its Map is empty)
JGaps == {<<>>, <<"\n">>}
\* one object with every content of <= 2 tokens, tight and loose, with all leading/trailing gap choices
cJsonOne == {MkJson(<<O(c, lo)>>, <<g1, g2>>) : c \in Contents(2), lo \in BOOLEAN, g1 \in JGaps, g2 \in JGaps}
\* two objects: contents of <= 1 token each; the interesting ones end in an escaped backslash or hold braces
cJsonTwo == {MkJson(<<O(c1, FALSE), O(c2, FALSE)>>, <<<<>>, g, <<>>>>) : c1 \in Contents(1) \cup {<<"a", "eb">>, <<"eb", "eq">>, <<"rb", "eb">>}, c2 \in {<<>>, <<"lb">>, <<"eb">>}, g \in JGaps}
             \cup {MkJson(<<ON(c1), O(c2, TRUE)>>, <<<<"\n">>, <<>>, <<"\n">>>>) : c1 \in {<<"eb">>, <<"rb">>, <<"eq", "rb">>}, c2 \in {<<"a">>, <<"eb">>}}
\* streams in which an empty object is NOT the last document
cJsonEmpty == {MkJson(<<OE, O(<<"a">>, FALSE)>>, <<<<>>, g, <<>>>>) : g \in JGaps}
              \cup {MkJson(<<O(<<"a">>, FALSE), OE, O(<<"lb">>, FALSE)>>, <<<<>>, <<"\n">>, <<>>, <<"\n">>>>)}
\* three-token contents, tight form, no gaps: e.g. an escaped backslash, an escaped quote, then a brace
cJsonThree == {MkJson(<<O(c, FALSE)>>, <<<<>>, <<>>>>) : c \in [1..3 -> Toks]}
\* content with a byte above 0x7f (alone, before a closing quote, after an escaped backslash)
cJsonHigh == {MkJson(<<O(c, FALSE)>>, <<<<>>, <<"\n">>>>) : c \in {<<"hb">>, <<"a", "hb">>, <<"eb", "hb">>}}
             \cup {MkJson(<<O(<<"hb">>, FALSE), O(<<"hb", "a">>, FALSE)>>, <<<<>>, <<"\n">>, <<>>>>)}
cJsonQuick == cJsonHigh \cup {p \in cJsonOne : p.total <= 13} \cup {p \in cJsonTwo : p.total <= 22 /\ p.id.gl[2] = 0} \cup {p \in cJsonEmpty : p.total <= 12}
              \cup {p \in cJsonThree : \E i \in 1..(p.total - 1) : p.chars[i] = "\\" /\ p.chars[i+1] = "\\"}
cJsonHandler == {p \in cJsonTwo : p.total <= 20 /\ p.id.gl[2] = 1} \cup {p \in cJsonEmpty : p.total <= 12} \cup {p \in cJsonHigh : Len(p.docs) = 2}
JsonCuts(objs, gaps) == {MkJsonCut(objs, gaps, c) : c \in 1..(Len(gaps[1]) + Len(objs[1].chars) + Len(gaps[2]) + Len(objs[2].chars) + Len(gaps[3]))}
cJsonCut == JsonCuts(<<O(<<"a">>, FALSE), O(<<"eb">>, FALSE)>>, <<<<>>, <<"\n">>, <<>>>>)
            \cup JsonCuts(<<O(<<"rb">>, TRUE), ON(<<"eq">>)>>, <<<<"\n">>, <<>>, <<"\n">>>>)
cFileProfiles == cXmlCutThorough \cup cJsonCut \cup cXmlThorough \cup {p \in cJsonTwo : p.total <= 22} \cup cJsonEmpty \cup cJsonHigh
cJsonThorough == cJsonOne \cup cJsonTwo \cup cJsonThree \cup cJsonEmpty

\* the profiles alone (files: the schedule is the operating system's)
ProfSpec == Init /\ [][UNCHANGED vars]_vars
EmitProf == PrintT(ToJson([f |-> "file", mode |-> prof.mode, id |-> prof.id, docs |-> prof.docs, tail |-> prof.tail]))
Emit == (DoEmit /\ done) => PrintT(ToJson([f |-> "stream", mode |-> prof.mode, caller |-> Caller, id |-> prof.id,
            docs |-> prof.docs, sched |-> sched, hret |-> hret,
            calls |-> [i \in 1..Len(calls) |-> [res |-> calls[i].res, raw |-> calls[i].raw, pos |-> calls[i].pos]]]))
=============================================================================
