SPECIFICATION Spec
CONSTANTS
  Profiles <- cJsonQuick
  MaxZero = 1
  Design = "ok"
  Caller = "handler"
  DoEmit = TRUE
INVARIANTS Safety Emit
PROPERTIES Terminates
