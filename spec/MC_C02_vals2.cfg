SPECIFICATION Spec
CONSTANTS
  Alpha <- cVals2
  MaxElems = 2
  MaxTextKids = 1
  MaxComments = 0
  APfx = {"-", "@"}
  KPfx = {"#", "_"}
  Casts = {FALSE, TRUE}
  DoEmit = TRUE
INVARIANTS Check2
CHECK_DEADLOCK FALSE
