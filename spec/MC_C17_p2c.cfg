SPECIFICATION Spec
CONSTANTS
  NProcs = 2
  Progs <- cProgs2c
  Segs <- cSegs
  Design = "ok"
  DoEmit = TRUE
INVARIANTS SharedUnchanged SequentialResults Emit
PROPERTIES Terminates
