------------------------------- MODULE MC_C17 -------------------------------
EXTENDS MxjConc, Json
CONSTANTS DoEmit
\* programs over abstract operation names; the harness binds each name to a concrete call and measures its
\* gate hits, capped to Segs - 1 scheduled gates (further hits run free)
cProgs2 == << <<"encShared", "qryShared">>, <<"qryShared", "decPriv">> >>
cProgs2b == << <<"encShared">>, <<"encShared">> >>
cProgs2c == << <<"leafShared">>, <<"leafShared", "encShared">> >>      \* (leaf nodes, Copy and the pretty-printers of shared Maps)
cProgs3 == << <<"encShared">>, <<"qryShared">>, <<"encPriv">> >>
cSegs == [encShared |-> 3, qryShared |-> 3, decPriv |-> 3, encPriv |-> 3, leafShared |-> 3]
cSegs2 == [encShared |-> 2, qryShared |-> 2, decPriv |-> 2, encPriv |-> 2, leafShared |-> 2]
cSegs5 == [encShared |-> 5, qryShared |-> 5, decPriv |-> 5, encPriv |-> 5, leafShared |-> 5]
Emit == (DoEmit /\ AllDone) => PrintT(ToJson([f |-> "conc", progs |-> Progs, segs |-> Segs, sched |-> sched]))
=============================================================================
