SPECIFICATION Spec
CONSTANTS
  Keys = {"a", "b"}
  Scalars <- cScalars
  Conts <- cConts
  MaxList = 2
  MaxNodes = 3
  PairNodes = 0
  OldPaths <- cOldPaths3
  NewPaths <- cNewPaths3
  MaxPairs = 3
  DoEmit = TRUE
INVARIANTS ThmContent Emit
CHECK_DEADLOCK FALSE
