SPECIFICATION Spec
CONSTANTS
  AttrPrefixes = {"-"}
  KeyPrefixes = {"#"}
  FieldSeps = {":", "|", "::"}
  ArraySizes = {0}
  ActiveFns = {"SetFieldSeparator"}
  ActiveOps = {"query", "upd"}
  MaxHist = 4
INVARIANTS Functional OnlyRelevant Emit
CHECK_DEADLOCK FALSE
