SPECIFICATION Spec
CONSTANTS
  AttrPrefixes = {"-"}
  KeyPrefixes = {"#"}
  FieldSeps = {":", "|"}
  ArraySizes = {0}
  ActiveFns = {"SetFieldSeparator"}
  ActiveOps = {"query"}
  MaxHist = 5
INVARIANTS Functional OnlyRelevant Emit
CHECK_DEADLOCK FALSE
