SPECIFICATION Spec
CONSTANTS
  AttrPrefixes = {"-"}
  KeyPrefixes = {"#"}
  FieldSeps = {":"}
  ArraySizes = {0}
  ActiveFns = {"CastValuesToInt", "CastValuesToFloat", "CastValuesToBool", "CastNanInf"}
  ActiveOps = {"cast"}
  MaxHist = 4
INVARIANTS Functional OnlyRelevant Emit
CHECK_DEADLOCK FALSE
