SPECIFICATION ProfSpec
CONSTANTS
  Profiles <- cFileProfiles
  MaxZero = 0
  Design = "ok"
  Caller = "single"
  DoEmit = FALSE
INVARIANTS EmitProf
CHECK_DEADLOCK FALSE
