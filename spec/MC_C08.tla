------------------------------- MODULE MC_C08 -------------------------------
(***************************************************************************)
(* C08: key search and sub-key filters are complete, exact and mutually    *)
(* consistent.  Every Map x every key x every set of <= MaxConds sub-key   *)
(* conditions (string / bool / number typed, '*', negated).                *)
(***************************************************************************)
EXTENDS MxjMapGen, MxjPath, Json
CONSTANTS SearchKeys, CondKeys, MaxConds, PathNames, MaxPath, DoEmit

CondVals == {[kind |-> "s", v |-> "x"], [kind |-> "star", v |-> "*"], [kind |-> "b", v |-> "true"], [kind |-> "f", v |-> "0.1"]}
            \cup (IF VF("1e-10") \in Scalars THEN {[kind |-> "f", v |-> "1e-10"], [kind |-> "f", v |-> "0"], [kind |-> "f", v |-> "1.6777217e+07"]} ELSE {})       \* (numbers are compared exactly, however close)
            \cup (IF VS("^") \in Scalars THEN {[kind |-> "s", v |-> "^"]} ELSE {})       \* (the long value of the placeholder alphabets, as a condition too)       \* (0.1: not exact in single precision)
AllConds == {[k |-> k, neg |-> n, kind |-> cv.kind, v |-> cv.v] : k \in CondKeys, n \in BOOLEAN, cv \in CondVals}
CondSets == {{}} \cup (IF MaxConds >= 1 THEN {{c} : c \in AllConds} ELSE {})
            \cup (IF MaxConds >= 2 THEN UNION {{{c, d} : d \in {e \in AllConds : <<e.neg, e.k>> # <<c.neg, c.k>>}} : c \in AllConds} ELSE {})
SmallCondSets == {{}} \cup (IF MaxConds >= 1 THEN {{c} : c \in AllConds} ELSE {})
RECURSIVE NamePaths(_)
NamePaths(l) == IF l = 0 THEN {<<>>}
                ELSE LET P == NamePaths(l-1) IN P \cup {Append(p, s) : p \in {q \in P : Len(q) = l-1}, s \in PathNames}
Paths == NamePaths(MaxPath) \ {<<>>}

ThmKeySearch == \A key \in SearchKeys : KeySearchThm(m, key)
ThmFilter    == \A key \in SearchKeys, cs \in CondSets : FilterThm(m, key, cs)
ThmShortest  == \A key \in SearchKeys : LET ps == PFK(m, key, <<>>) IN
                   ps # {} => \E p \in ps : Len(p) = ShortestLen(ps) /\ \A q \in ps : Len(p) <= Len(q)

KCase(key, cs) == [key |-> key, conds |-> SetToSeq(cs), r |-> VFK(m, key, cs)]
PCase(key) == LET ps == PFK(m, key, <<>>) IN [key |-> key, paths |-> SetToSeq({DotJoin(p) : p \in ps}), sl |-> ShortestLen(ps)]
VCase(p, cs) == [p |-> DotJoin(p), w |-> IF HasStar(p) THEN "1" ELSE "0", conds |-> SetToSeq(cs),
                 r |-> VFP(m, [i \in 1..Len(p) |-> PK(p[i], -1)], cs)]
Emit == DoEmit => PrintT(ToJson([f |-> "vfk", m |-> m,
           ks |-> SetToSeq({KCase(key, cs) : key \in SearchKeys, cs \in CondSets}),
           pf |-> SetToSeq({PCase(key) : key \in SearchKeys}),
           vp |-> SetToSeq({VCase(p, cs) : p \in Paths, cs \in SmallCondSets})]))
Spec == GenSpec
cScalars == {VS("x"), VS("y"), VB("true"), VF("0.1")}
cScalarsSmall == {VS("x"), VB("true"), VF("0.1")}
cScalarsNil == {VS("x"), VS("X"), VNil}        \* a member that is present with a null value is PRESENT (wildcard and negated conditions)
cConts == {EmptyMap, EmptyList}
cScalars1 == {VS("x")}
\* placeholder alphabets (check.py SUBST): "~" becomes a 36-byte key that begins with a two-byte character, "^" a 4.2 KiB value
cScalarsLong == {VS("x"), VS("^"), VB("true")}
\* numbers of very small magnitude, closer to each other and to zero than any tolerance one might think of
cScalarsTiny == {VF("1e-10"), VF("3e-10"), VF("0"), VF("-2.5e-12"), VF("1.6777216e+07"), VF("1.6777217e+07")}      \* (... and 2^24, 2^24 + 1: one number in single precision)

=============================================================================
