SPECIFICATION SpecRich
CONSTANTS
  Keys = {"a", "b", "-x", "#text"}
  Scalars <- cScalars
  Conts <- cConts
  MaxList = 2
  MaxNodes = 4
  PairNodes = 0
INVARIANTS Emit
CHECK_DEADLOCK FALSE
