------------------------------ MODULE MxjCast ------------------------------
(***************************************************************************)
(* C14: the cast decision chain.  What a text DENOTES (int64, uint64,      *)
(* float64, NaN/Inf, bool) is given by the generated module CastCatalogue  *)
(* (strconv is the ground truth); the chain decides, from the options,     *)
(* which of the denotations is used.                                       *)
(***************************************************************************)
EXTENDS Integers, Sequences, FiniteSets, TLC, CastCatalogue
\* o: [cast, toInt, toFloat, toBool, nanInf : BOOLEAN, skipTag : "0" (no function) | "A" | "B" (two different registered functions)];
\* skipped: the CURRENTLY registered function says yes for this key
CastKind(c, o, skipped) ==
  IF o.skipTag # "0" /\ skipped THEN "string"
  ELSE IF ~o.cast THEN "string"
  ELSE IF c.naninf /\ ~o.nanInf /\ ~(o.toInt /\ (c.int \/ c.uint)) THEN "string"      \* no spelling of NaN / infinity is cast unless asked
  ELSE IF o.toInt /\ c.int THEN "int64"
  ELSE IF o.toInt /\ c.uint THEN "uint64"
  ELSE IF o.toFloat /\ c.float THEN "float64"
  ELSE IF o.toBool /\ c.bool THEN "bool"
  ELSE "string"
CastTok(c, k) == CASE k = "int64" -> c.iv [] k = "uint64" -> c.uv [] k = "float64" -> c.fv [] k = "bool" -> c.bv [] OTHER -> c.s
CastOf(c, o, skipped) == LET k == CastKind(c, o, skipped) IN <<k, CastTok(c, k)>>
\* properties of the chain
NoCastWithoutFlag(c, o) == ~o.cast => CastKind(c, o, FALSE) = "string"
NeverNanInf(c, o) == (~o.nanInf /\ CastKind(c, o, FALSE) = "float64") => ~c.naninf
Denotes(c, o) == LET k == CastKind(c, o, FALSE) IN
                 /\ (k = "int64" => c.int) /\ (k = "uint64" => c.uint /\ ~c.int) /\ (k = "float64" => c.float) /\ (k = "bool" => c.bool)
                 /\ (k = "string" /\ o.cast /\ ~c.naninf) => ~((o.toInt /\ (c.int \/ c.uint)) \/ (o.toFloat /\ c.float) \/ (o.toBool /\ c.bool))
=============================================================================
