------------------------------- MODULE MxjSeq -------------------------------
(***************************************************************************)
(* The sequence preserving codec (NewMapXmlSeq / MapSeq.Xml), C04.         *)
(* Documents are MxjXml nodes plus two more kinds:                         *)
(*   directive [k |-> "d", tx |-> chars]   <!chars>                        *)
(*   procinst  [k |-> "p", nm.l |-> target chars, tx |-> inst chars]  <?target inst?>  *)
(* DecodeSeq: a counter per parent over children, text, comments,          *)
(* directives and processing instructions; attributes under the attr key   *)
(* with their own positions; every child value gets the seq key; simple    *)
(* and empty elements are wrapped; names keep their namespace prefix.      *)
(* EncodeSeq: attributes by position, text first, then everything else by  *)
(* sequence number with lists unrolled.                                    *)
(***************************************************************************)
EXTENDS MxjXmlEncode

XD(cs) == [k |-> "d", nm |-> NoName, at |-> <<>>, ch |-> <<>>, tx |-> cs]
XP(target, inst) == [k |-> "p", nm |-> NM("", target), at |-> <<>>, ch |-> <<>>, tx |-> inst]

\* so: [snake, keep, escdec, cast : BOOLEAN, kpfx : STRING]
SK(so, tail) == Cs1(so.kpfx) \o tail
STextK(so) == SK(so, <<"t", "e", "x", "t">>)
SSeqK(so) == SK(so, <<"s", "e", "q">>)
SAttrK(so) == SK(so, <<"a", "t", "t", "r">>)
SCommentK(so) == SK(so, <<"c", "o", "m", "m", "e", "n", "t">>)
SDirectiveK(so) == SK(so, <<"d", "i", "r", "e", "c", "t", "i", "v", "e">>)
SProcinstK(so) == SK(so, <<"p", "r", "o", "c", "i", "n", "s", "t">>)
STargetK(so) == SK(so, <<"t", "a", "r", "g", "e", "t">>)
SInstK(so) == SK(so, <<"i", "n", "s", "t">>)

FullName(so, nm) == LET l == IF so.snake THEN Snake(nm.l) ELSE nm.l IN
                    IF nm.p = "" THEN l ELSE (IF so.snake THEN Snake(<<nm.p>>) ELSE <<nm.p>>) \o <<":">> \o l
\* element names: the whole "prefix:local" string is snake-cased; attribute names: only the local part
ElemNameS(so, nm) == IF nm.p = "" THEN (IF so.snake THEN Snake(nm.l) ELSE nm.l)
                     ELSE (IF so.snake THEN Snake(CharsOf(nm.p) \o <<":">> \o nm.l) ELSE <<nm.p>> \o <<":">> \o nm.l)   \* (a hyphen in the PREFIX is folded, too)
AttrNameS(so, nm) == LET l == IF so.snake THEN Snake(nm.l) ELSE nm.l IN IF nm.p = "" THEN l ELSE <<nm.p>> \o <<":">> \o l
SScalar(so, cs) == LET s == IF so.escdec THEN XmlEscape(cs) ELSE cs IN IF so.cast THEN CastDefault(s) ELSE VS(s)
SeqV(i) == [t |-> "i", v |-> Digits(i)]
PutF(f, k, v) == [x \in (DOMAIN f) \cup {k} |-> IF x = k THEN v ELSE f[x]]
GroupPut(f, k, v) == IF k \in DOMAIN f THEN [f EXCEPT ![k] = IF IsList(@) THEN VL(Append(@.it, v)) ELSE VL(<<@, v>>)]
                     ELSE PutF(f, k, v)

RECURSIVE SeqElemVal(_, _)
RECURSIVE SeqKids(_, _, _, _)
\* fold over the kids of an element: acc = [na, seq]
SeqKids(kids, so, na, seq) ==
  IF kids = <<>> THEN na
  ELSE LET n == Head(kids) IN
    IF n.k = "e" THEN
       LET v == SeqElemVal(n, so)
           w == IF IsMap(v) THEN VM(PutF(v.kv, SSeqK(so), SeqV(seq))) ELSE VM((STextK(so) :> v) @@ (SSeqK(so) :> SeqV(seq)))
       IN SeqKids(Tail(kids), so, GroupPut(na, ElemNameS(so, n.nm), w), seq + 1)
    ELSE IF n.k = "t" THEN
       LET tt == Trim(n.tx, TrimSet([keep |-> so.keep])) IN
       IF tt = <<>> THEN SeqKids(Tail(kids), so, na, seq)
       ELSE SeqKids(Tail(kids), so, PutF(PutF(na, STextK(so), SScalar(so, tt)), SSeqK(so), SeqV(seq)), seq + 1)
    ELSE IF n.k = "c" THEN SeqKids(Tail(kids), so, PutF(na, SCommentK(so), VM((STextK(so) :> VS(n.tx)) @@ (SSeqK(so) :> SeqV(seq)))), seq + 1)
    ELSE IF n.k = "d" THEN SeqKids(Tail(kids), so, PutF(na, SDirectiveK(so), VM((STextK(so) :> VS(n.tx)) @@ (SSeqK(so) :> SeqV(seq)))), seq + 1)
    ELSE SeqKids(Tail(kids), so, PutF(na, SProcinstK(so), VM((STargetK(so) :> VS(n.nm.l)) @@ (SInstK(so) :> VS(n.tx)) @@ (SSeqK(so) :> SeqV(seq)))), seq + 1)
SeqElemVal(e, so) ==
  LET am == IF e.at = <<>> THEN EmptyFn
            ELSE (SAttrK(so) :> VM([a \in {AttrNameS(so, e.at[i].nm) : i \in 1..Len(e.at)} |->
                     LET i == CHOOSE i \in 1..Len(e.at) : AttrNameS(so, e.at[i].nm) = a IN
                     VM((STextK(so) :> SScalar(so, e.at[i].v)) @@ (SSeqK(so) :> SeqV(i - 1)))]))
      na == SeqKids(e.ch, so, am, 0)
  IN IF DOMAIN na = {} THEN VS(<<>>) ELSE VM(na)
DecodeSeq(d, so) == VM(ElemNameS(so, d.nm) :> SeqElemVal(d, so))

(********************************* encode ***********************************)
DigitValOf(c) == CHOOSE i \in 0..9 : Digit(i) = c
RECURSIVE NumOfDigits(_, _)
NumOfDigits(ds, acc) == IF ds = <<>> THEN acc ELSE NumOfDigits(Tail(ds), acc * 10 + DigitValOf(Head(ds)))
SeqNum(v, so) == IF IsMap(v) /\ SSeqK(so) \in DOMAIN v.kv THEN NumOfDigits(v.kv[SSeqK(so)].v, 0)
                 ELSE 9999999
RECURSIVE EncSeqVal(_, _, _)
EncSeqVal(key, v, so) ==
  IF IsList(v) THEN FlatSeq([i \in 1..Len(v.it) |-> EncSeqVal(key, v.it[i], so)])
  ELSE IF ~IsMap(v) THEN (IF ScalarText(v) = <<>> THEN <<XE(NM("", key), <<>>, <<>>)>> ELSE <<XE(NM("", key), <<>>, <<XT(ScalarText(v))>>)>>)
  ELSE IF key = SCommentK(so) THEN <<XC(v.kv[STextK(so)].v)>>
  ELSE IF key = SDirectiveK(so) THEN <<XD(v.kv[STextK(so)].v)>>
  ELSE IF key = SProcinstK(so) THEN <<XP(v.kv[STargetK(so)].v, v.kv[SInstK(so)].v)>>
  ELSE
    LET dom == DOMAIN v.kv
        hasA == SAttrK(so) \in dom
        am == IF hasA THEN v.kv[SAttrK(so)].kv ELSE EmptyFn
        aks == SortSeq(SetToSeq(DOMAIN am), LAMBDA x, y : SeqNum(am[x], so) < SeqNum(am[y], so))
        attrs == [i \in 1..Len(aks) |-> [nm |-> NM("", aks[i]), v |-> ScalarText(am[aks[i]].kv[STextK(so)])]]
        hasT == STextK(so) \in dom
        hasS == SSeqK(so) \in dom
        rest == dom \ {SAttrK(so), SSeqK(so), STextK(so)}
    IN IF rest = {} /\ hasS THEN
          \* simple element (text, or nothing) with its sequence number
          (IF hasT /\ ScalarText(v.kv[STextK(so)]) # <<>> THEN <<XE(NM("", key), attrs, <<XT(ScalarText(v.kv[STextK(so)]))>>)>>
           ELSE <<XE(NM("", key), attrs, <<>>)>>)
       ELSE
          \* complex: text first, then every other entry by sequence number, lists unrolled
          LET ents == FlatSeq([i \in 1..Len(SetToSeq(rest)) |-> LET k == SetToSeq(rest)[i] x == v.kv[k] IN
                                  IF IsList(x) THEN [j \in 1..Len(x.it) |-> <<k, x.it[j]>>] ELSE <<<<k, x>>>>])
              sorted == SortSeq(ents, LAMBDA x, y : SeqNum(x[2], so) < SeqNum(y[2], so))
              txt == IF hasT THEN <<XT(ScalarText(v.kv[STextK(so)]))>> ELSE <<XT(<<>>)>>     \* (empty run: start and end tag are written)
          IN <<XE(NM("", key), attrs, txt \o FlatSeq([i \in 1..Len(sorted) |-> EncSeqVal(sorted[i][1], sorted[i][2], so)]))>>
EncodeSeqRoot(m, so) == LET k == CHOOSE k \in DOMAIN m.kv : TRUE IN EncSeqVal(k, m.kv[k], so)

RECURSIVE RenderSeqNode(_, _)
RenderSeqNode(n, eo) ==
  IF n.k = "c" THEN <<"<", "!", "-", "-">> \o n.tx \o <<"-", "-", ">">>
  ELSE IF n.k = "d" THEN <<"<", "!">> \o n.tx \o <<">">>
  ELSE IF n.k = "p" THEN <<"<", "?">> \o n.nm.l \o <<" ">> \o n.tx \o <<"?", ">">>
  ELSE IF n.k = "t" THEN Esc(eo, n.tx)
  ELSE LET name == n.nm.l
           attrs == FlatC([i \in 1..Len(n.at) |-> <<" ">> \o n.at[i].nm.l \o <<"=", "\"">> \o Esc(eo, n.at[i].v) \o <<"\"">>])
       IN IF n.ch = <<>> THEN
             (IF eo.goempty THEN <<"<">> \o name \o attrs \o <<">", "<", "/">> \o name \o <<">">> ELSE <<"<">> \o name \o attrs \o <<"/", ">">>)
          ELSE <<"<">> \o name \o attrs \o <<">">> \o FlatC([i \in 1..Len(n.ch) |-> RenderSeqNode(n.ch[i], eo)]) \o <<"<", "/">> \o name \o <<">">>
RenderSeq(ns, eo) == FlatC([i \in 1..Len(ns) |-> RenderSeqNode(ns[i], eo)])

(************************* round trip on documents **************************)
\* the document as the codec is documented to preserve it: names with their prefix, text trimmed,
\* blank runs dropped
RECURSIVE Canon(_, _)
Canon(n, so) ==
  IF n.k = "e" THEN
     LET kids == SelectSeq([i \in 1..Len(n.ch) |-> Canon(n.ch[i], so)], LAMBDA x : ~(x.k = "t" /\ x.tx = <<>>)) IN
     XE(NM("", ElemNameS(so, n.nm)), [i \in 1..Len(n.at) |-> [nm |-> NM("", AttrNameS(so, n.at[i].nm)), v |-> n.at[i].v]], kids)
  ELSE IF n.k = "t" THEN XT(Trim(n.tx, TrimSet([keep |-> so.keep])))
  ELSE n
RECURSIVE DropEmptyRuns(_)
DropEmptyRuns(n) == IF n.k = "e" THEN [n EXCEPT !.ch = SelectSeq([i \in 1..Len(n.ch) |-> DropEmptyRuns(n.ch[i])], LAMBDA x : ~(x.k = "t" /\ x.tx = <<>>))] ELSE n
\* C04 domain: text alone or before the child elements; at most one comment / directive / procinst per element
RECURSIVE SeqDomain(_)
SeqDomain(e) ==
  LET kids == e.ch
      nb == {i \in 1..Len(kids) : kids[i].k = "t" /\ NonBlank(kids[i].tx)}
  IN /\ Cardinality(nb) <= 1
     /\ \A i \in nb : \A j \in 1..(i-1) : kids[j].k = "t"          \* the text comes first (only blank runs before it)
     /\ \A kd \in {"c", "d", "p"} : Cardinality({i \in 1..Len(kids) : kids[i].k = kd}) <= 1
     /\ \A i \in 1..Len(kids) : kids[i].k = "e" => SeqDomain(kids[i])
SeqRoundTrip(d, so) ==
  SeqDomain(d) =>
     LET ns == EncodeSeqRoot(DecodeSeq(d, so), so) IN
     Len(ns) = 1 /\ DropEmptyRuns(ns[1]) = Canon(d, so)

(********************************* builder **********************************)
RECURSIVE GrowSeq(_, _)
GrowSeq(e, A) ==   \* A: [names, anames, avals, texts, maxattrs, extras]
  LET lastIsText == e.ch # <<>> /\ e.ch[Len(e.ch)].k = "t" IN
     {[e EXCEPT !.ch = Append(@, XE(n, <<>>, <<>>))] : n \in A.names}
  \cup (IF Len(e.at) < A.maxattrs
        THEN {[e EXCEPT !.at = Append(@, [nm |-> n, v |-> v])] : n \in {x \in A.anames : \A i \in 1..Len(e.at) : e.at[i].nm # x}, v \in A.avals}
        ELSE {})
  \cup (IF lastIsText THEN {}
        ELSE {[e EXCEPT !.ch = Append(@, XT(t))] : t \in {x \in A.texts : ~(NonBlank(x) /\ HasNonBlankText(e))}})
  \cup {[e EXCEPT !.ch = Append(@, x)] : x \in {y \in A.extras : \A i \in 1..Len(e.ch) : e.ch[i].k # y.k}}
  \cup UNION {{[e EXCEPT !.ch[i] = g] : g \in GrowSeq(e.ch[i], A)} : i \in {j \in 1..Len(e.ch) : IsElem(e.ch[j])}}
RECURSIVE NExtras(_)
NExtras(e) == Len(SelectSeq(e.ch, LAMBDA x : x.k \in {"c", "d", "p"})) + SumSeq([i \in 1..Len(ElemKids(e)) |-> NExtras(ElemKids(e)[i])])
=============================================================================
