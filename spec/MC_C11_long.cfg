SPECIFICATION Spec
CONSTANTS
  Keys = {"a", "~"}
  Scalars <- cScalarsLong
  Conts <- cConts
  MaxList = 2
  MaxNodes = 4
  PairNodes = 0
  PathNames = {"a", "~", "z"}
  NewNames = {"a", "~", "c"}
  MaxPath = 3
  NewVals <- cNewValsLong
  DoEmit = TRUE
INVARIANTS ThmSet ThmRemove ThmRename Emit
CHECK_DEADLOCK FALSE
