SPECIFICATION Spec
CONSTANTS
  AttrPrefixes = {"-"}
  KeyPrefixes = {"#"}
  FieldSeps = {":", "|", "::"}
  ArraySizes = {0, 64}
  ActiveFns = {"SetFieldSeparator", "SetArraySize"}
  ActiveOps = {"newmap"}
  MaxHist = 3
INVARIANTS Functional OnlyRelevant Emit
CHECK_DEADLOCK FALSE
