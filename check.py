#!/usr/bin/env python3
"""check.py <Cxx> [--tier quick|thorough]   -- the single entry point registered in MANIFEST.json.

For one property it
  1. builds the Go conformance harness against /repo's *current working tree* (-tags verif),
  2. runs TLC on the property's TLA+ specification (theorem invariants = the property on the
     specification) and, in the same run or a second one, lets TLC print every behaviour of the
     bounded space together with the specification's expected results,
  3. spec -> code: replays those behaviours on the real package (mxjconf replay),
  4. code -> spec: records calls of the real package (mxjconf record) and validates the
     trace with a TLA+ trace specification (TLC, POSTCONDITION on the high-water mark),
  5. classifies disagreements against known_findings.txt, re-executes unlisted ones in isolation,
  6. writes evidence/<id>.json.

exit 0: property held on everything explored (KNOWN-FINDING lines possible)
exit 1: VIOLATION property=<id> replay=<path>
exit 2: the machinery itself failed (spec error, timeout, build failure, unreproducible candidate)
"""
import hashlib
import json
import os
import re
import shutil
import subprocess
import sys
import tempfile
import time

VERIF = os.path.dirname(os.path.abspath(__file__))
REPO = os.environ.get("VERIF_REPO", "/repo")
sys.path.insert(0, VERIF)

GOENV = dict(os.environ, GOFLAGS="-mod=mod", GOPROXY="off", GOSUMDB="off", GOTOOLCHAIN="local")
NCPU = os.cpu_count() or 4


class MachineryError(Exception):
    pass


def log(*a):
    print(*a, flush=True)


def run(cmd, **kw):
    return subprocess.run(cmd, **kw)


# ----------------------------------------------------------------------------- harness build
def build_harness(scratch, race=False):
    hdir = os.path.join(scratch, "harness")
    shutil.copytree(os.path.join(VERIF, "harness"), hdir)
    # module plumbing: replace => REPO, go.sum copied from the repository
    gomod = open(os.path.join(hdir, "go.mod")).read()
    gomod = re.sub(r"=> /repo\b", "=> " + REPO, gomod)
    open(os.path.join(hdir, "go.mod"), "w").write(gomod)
    shutil.copy(os.path.join(REPO, "go.sum"), os.path.join(hdir, "go.sum"))
    out = os.path.join(scratch, "mxjconf-race" if race else "mxjconf")
    cmd = ["go", "build", "-tags", "verif"] + (["-race"] if race else []) + ["-o", out, "./cmd/mxjconf"]
    r = run(cmd, cwd=hdir, env=GOENV, stdout=subprocess.PIPE, stderr=subprocess.STDOUT, text=True)
    if r.returncode != 0:
        raise MachineryError("harness build failed (does /repo still compile with -tags verif?):\n" + r.stdout)
    return out


# ----------------------------------------------------------------------------- TLC
TLC_JAR = "/opt/veriftools/tla/tla2tools.jar:/opt/veriftools/tla/CommunityModules-deps.jar"


def tlc_cmd(spec, cfg, metadir, workers, extra=(), heap=None):
    # a small fixed heap: with the default 25%-of-RAM heap the JVM spends most of its time in
    # page faults (measured: 25 s -> 10 s for the same run with -Xmx3g)
    # (java.io.tmpdir inside the scratch area: SANY / TLC unpack their standard modules into a fresh temp directory per run)
    java = ["java", "-XX:+UseParallelGC", "-XX:ParallelGCThreads=4", "-Xss512m", "-Xmx" + (heap or os.environ.get("VERIF_TLC_HEAP", "4g")),
            "-Djava.io.tmpdir=" + os.path.dirname(os.path.abspath(metadir))]
    return java + ["-cp", TLC_JAR, "tlc2.TLC", "-workers", str(workers), "-metadir", metadir,
                   "-config", cfg] + list(extra) + [spec]


RE_STATES = re.compile(r"(\d+) states generated, (\d+) distinct states found")


def parse_tlc_log(text):
    info = {"generated": 0, "distinct": 0, "ok": False, "error": None}
    for mm in RE_STATES.finditer(text):
        info["generated"], info["distinct"] = int(mm.group(1)), int(mm.group(2))
    sm = re.search(r"The number of states generated: (\d+)", text)
    if sm and not info["generated"]:      # -simulate: random behaviours, states not deduplicated by TLC
        info["generated"] = int(sm.group(1))
        info["distinct"] = 0
        info["simulated"] = True
    if "Model checking completed. No error has been found." in text or "Finished in" in text and "Error:" not in text:
        info["ok"] = True
    em = re.search(r"^Error: .*$", text, re.M)
    if em:
        info["ok"] = False
        # keep the message and what follows (counter-example head)
        i = em.start()
        info["error"] = text[i:i + 3000]
    return info


def prepare_spec_dir(scratch):
    d = os.path.join(scratch, "spec")
    if not os.path.isdir(d):
        shutil.copytree(os.path.join(VERIF, "spec"), d)
    return d


def tlc_check(scratch, spec, cfg, timeout_s, workers=None, extra=()):
    """plain model-checking run; returns info. TLC error => MachineryError (a spec defect, never a VIOLATION)."""
    sd = prepare_spec_dir(scratch)
    meta = tempfile.mkdtemp(prefix="meta_", dir=scratch)
    cmd = ["timeout", str(timeout_s)] + tlc_cmd(spec, cfg, meta, workers or NCPU, extra)
    t0 = time.time()
    r = run(cmd, cwd=sd, stdout=subprocess.PIPE, stderr=subprocess.STDOUT, text=True)
    info = parse_tlc_log(r.stdout)
    info["wall_s"] = round(time.time() - t0, 1)
    info["cmd"] = "tlc -config %s %s" % (cfg, spec)
    shutil.rmtree(meta, ignore_errors=True)
    if r.returncode == 124:
        raise MachineryError("TLC timed out after %ds on %s/%s" % (timeout_s, spec, cfg))
    if not info["ok"]:
        path = os.path.join(VERIF, "replays", "tlc-error-%s.txt" % cfg.replace(".cfg", ""))
        os.makedirs(os.path.dirname(path), exist_ok=True)
        open(path, "w").write(r.stdout[-20000:])
        raise MachineryError("TLC reported an error on the specification itself (%s/%s), see %s:\n%s"
                             % (spec, cfg, path, (info["error"] or r.stdout[-1500:])))
    return info


FATAL_MARKS = ("fatal error:", "goroutine stack exceeds", "concurrent map")


def crash_violation(scratch, harness, family, summ, hout):
    """the lines that were being replayed when a harness process died: each is re-executed alone in a fresh process; one that dies
    again with a fatal runtime error is returned as a one-mismatch summary (sig crash:<family>), else None."""
    import glob, struct
    if not any(m in hout for m in FATAL_MARKS):
        return None
    cands = []
    for f in sorted(glob.glob(summ + ".cur*")):
        try:
            b = open(f, "rb").read()
            n = struct.unpack("<Q", b[:8])[0]
            line = b[8:8 + n].decode("utf-8")
            case = json.loads(line)
        except Exception:
            continue
        finally:
            try:
                os.remove(f)
            except OSError:
                pass
        if case not in cands:
            cands.append(case)
    for i, case in enumerate(cands[:64]):
        path = os.path.join(scratch, "crash-candidate-%d.json" % i)
        json.dump({"family": family, "sig": "crash:" + family, "case": case}, open(path, "w"))
        try:
            r = subprocess.run([harness, "one", path], stdout=subprocess.PIPE, stderr=subprocess.STDOUT, text=True, timeout=300)
        except subprocess.TimeoutExpired:
            continue
        if r.returncode not in (0, 1) and any(m in r.stdout for m in FATAL_MARKS):
            head = "\n".join(l for l in r.stdout.splitlines() if "clbanning/mxj" in l or l.startswith("fatal error") or "stack overflow" in l)[:1500]
            mm = {"sig": "crash:" + family, "case": case, "noreplay": True,
                  "detail": "replaying this line kills the process with a fatal runtime error (not a recoverable panic), again when it is replayed alone in a fresh process:\n" + head}
            return {"lines": 1, "cases": 1, "distinct_nontrivial": 1, "mismatch_count": 1, "mismatches": [mm], "sig_counts": {mm["sig"]: 1}}
    return None


def tlc_gen_replay(scratch, harness, family, spec, cfg, timeout_s, workers=None, jobs=None, extra=(), procs=None, race=False, subst=None):
    """spec -> code: TLC prints behaviours, the harness replays them. Returns (tlcinfo, summary)."""
    sd = prepare_spec_dir(scratch)
    meta = tempfile.mkdtemp(prefix="meta_", dir=scratch)
    tag = "%s_%s" % (family, cfg.replace(".cfg", ""))
    tlclog = os.path.join(scratch, tag + ".tlc.log")
    summ = os.path.join(scratch, tag + ".summary.json")
    tcmd = ["timeout", str(timeout_s)] + tlc_cmd(spec, cfg, meta, workers or NCPU, extra)
    hcmd = [harness, "replay", family, "-j", str(jobs or NCPU), "-procs", str(procs or 1), "-out", summ, "-tlclog", tlclog]
    t0 = time.time()
    p1 = subprocess.Popen(tcmd, cwd=sd, stdout=subprocess.PIPE, stderr=subprocess.STDOUT)
    henv = dict(os.environ)
    if os.path.isdir("/dev/shm") and os.access("/dev/shm", os.W_OK):
        henv["TMPDIR"] = "/dev/shm"      # the harness's temporary files (file readers/writers): tmpfs is 3x faster
    if subst:
        henv["MXJ_SUBST"] = subst
    racelog = os.path.join(scratch, tag + ".race")
    if race:
        # collect race reports without aborting the replay; they are turned into violations below
        henv["GORACE"] = "exitcode=0 log_path=%s" % racelog
    p2 = subprocess.Popen(hcmd, cwd=scratch, stdin=p1.stdout, stdout=subprocess.PIPE, stderr=subprocess.STDOUT, text=True, env=henv)
    p1.stdout.close()
    hout, _ = p2.communicate()
    rc1 = p1.wait()
    shutil.rmtree(meta, ignore_errors=True)
    text = open(tlclog).read() if os.path.exists(tlclog) else ""
    info = parse_tlc_log(text)
    info["wall_s"] = round(time.time() - t0, 1)
    info["cmd"] = "tlc -config %s %s | mxjconf replay %s" % (cfg, spec, family)
    if rc1 == 124:
        raise MachineryError("TLC timed out after %ds on %s/%s" % (timeout_s, spec, cfg))
    if p2.returncode != 0:
        # did a replay process die of a FATAL runtime error inside the package (stack overflow, concurrent map writes)?  every worker
        # keeps the line it is replaying in a file; a line that kills a fresh process again is a violation, not a machinery error
        crash = crash_violation(scratch, harness, family, summ, hout)
        if crash is not None:
            info["ok"] = True
            return info, crash
    if p2.returncode != 0 and not os.path.exists(summ):
        # the harness process died (TLC then dies of the closed pipe, its log is incomplete)
        raise MachineryError("replay harness for %s crashed (rc=%s): %s" % (family, p2.returncode, hout[-3000:]))
    if not info["ok"]:
        path = os.path.join(VERIF, "replays", "tlc-error-%s.txt" % cfg.replace(".cfg", ""))
        os.makedirs(os.path.dirname(path), exist_ok=True)
        open(path, "w").write(text[-20000:])
        raise MachineryError("TLC reported an error on the specification itself (%s/%s), see %s:\n%s"
                             % (spec, cfg, path, (info["error"] or text[-1500:])))
    if p2.returncode != 0 or not os.path.exists(summ):
        raise MachineryError("replay harness failed (rc=%s): %s" % (p2.returncode, hout[-2000:]))
    summary = json.load(open(summ))
    if summary.get("fatal"):
        raise MachineryError("replay harness: " + summary["fatal"])
    if summary["lines"] == 0:
        raise MachineryError("TLC produced no behaviours for %s/%s (dead generator)" % (spec, cfg))
    if race:
        import glob
        reports = []
        for f in glob.glob(racelog + ".*"):
            reports.append(open(f).read())
        nrep = sum(r.count("WARNING: DATA RACE") for r in reports)
        summary.setdefault("extra", {})["race_reports"] = nrep
        if nrep:
            first = "\n".join(reports)[:3000]
            mm = {"sig": "conc:data-race", "detail": "the Go race detector reported %d data race(s) while the schedules were replayed:\n%s" % (nrep, first),
                  "case": {"race_report": first}, "noreplay": True}
            summary["mismatches"] = [mm] + (summary.get("mismatches") or [])
            summary["mismatch_count"] = summary.get("mismatch_count", 0) + nrep
            summary.setdefault("sig_counts", {})["conc:data-race"] = nrep
    return info, summary


def record_trace_validate(scratch, harness, family, trace_spec, trace_cfg, seed, n, timeout_s, extra_args=()):
    """code -> spec: record events on the real code, validate with the TLA+ trace spec.
    Returns (tlcinfo, summary, rejected_index or None)."""
    sd = prepare_spec_dir(scratch)
    trace = os.path.join(sd, "trace_%s.ndjson" % family)
    summ = os.path.join(scratch, "record_%s.summary.json" % family)
    r = run([harness, "record", family, "-seed", str(seed), "-n", str(n), "-trace", trace, "-out", summ] + list(extra_args),
            cwd=scratch, stdout=subprocess.PIPE, stderr=subprocess.STDOUT, text=True)
    if r.returncode != 0 or not os.path.exists(summ):
        raise MachineryError("recorder failed: " + r.stdout[-2000:])
    summary = json.load(open(summ))
    nev = sum(1 for _ in open(trace))
    if nev == 0:
        raise MachineryError("recorder produced an empty trace for " + family)
    meta = tempfile.mkdtemp(prefix="meta_", dir=scratch)
    cmd = ["timeout", str(timeout_s)] + tlc_cmd(trace_spec, trace_cfg, meta, 1)
    t0 = time.time()
    r = run(cmd, cwd=sd, stdout=subprocess.PIPE, stderr=subprocess.STDOUT, text=True, env=dict(os.environ, TRACE_FILE=trace))
    shutil.rmtree(meta, ignore_errors=True)
    info = parse_tlc_log(r.stdout)
    info["wall_s"] = round(time.time() - t0, 1)
    info["events"] = nev
    info["cmd"] = "mxjconf record %s | tlc -config %s %s" % (family, trace_cfg, trace_spec)
    if r.returncode == 124:
        raise MachineryError("trace validation timed out")
    rejected = None
    hw = re.search(r"TRACE-HIGHWATER (\d+)", r.stdout)
    if "TRACE-ACCEPTED" in r.stdout and info["ok"]:
        rejected = None
    elif hw:
        rejected = int(hw.group(1))
    else:
        path = os.path.join(VERIF, "replays", "tlc-error-%s.txt" % trace_cfg.replace(".cfg", ""))
        os.makedirs(os.path.dirname(path), exist_ok=True)
        open(path, "w").write(r.stdout[-20000:])
        raise MachineryError("trace specification failed to run (%s), see %s:\n%s" % (trace_cfg, path, r.stdout[-1500:]))
    info["trace_file"] = trace
    return info, summary, rejected


def validate_trace_only(scratch, trace_spec, trace_cfg, timeout_s):
    sd = prepare_spec_dir(scratch)
    meta = tempfile.mkdtemp(prefix="meta_", dir=scratch)
    cmd = ["timeout", str(timeout_s)] + tlc_cmd(trace_spec, trace_cfg, meta, 1)
    t0 = time.time()
    r = run(cmd, cwd=sd, stdout=subprocess.PIPE, stderr=subprocess.STDOUT, text=True)
    shutil.rmtree(meta, ignore_errors=True)
    info = parse_tlc_log(r.stdout)
    info["wall_s"] = round(time.time() - t0, 1)
    info["cmd"] = "tlc -config %s %s (re-validation after a rejected session)" % (trace_cfg, trace_spec)
    hw = re.search(r"TRACE-HIGHWATER (\d+)", r.stdout)
    if "TRACE-ACCEPTED" in r.stdout and info["ok"]:
        return info, None
    if hw:
        return info, int(hw.group(1))
    raise MachineryError("trace specification failed to run (%s): %s" % (trace_cfg, r.stdout[-1500:]))


# ----------------------------------------------------------------------------- findings
def load_known():
    fixed, findings = [], []
    p = os.path.join(VERIF, "known_findings.txt")
    if os.path.exists(p):
        for line in open(p):
            line = line.strip()
            if not line or line.startswith("#"):
                continue
            mm = re.match(r"finding:\s+property=(C\d+)\s+sig=(\S+)\s+::\s+(.*)$", line)
            if mm:
                findings.append({"prop": mm.group(1), "sig": re.compile(mm.group(2)), "what": mm.group(3)})
                continue
            mm = re.match(r"fixed:\s+property=(C\d+)\s+(\S+)\s+(.*)$", line)
            if mm:
                fixed.append({"prop": mm.group(1), "commit": mm.group(2), "what": mm.group(3)})
    return fixed, findings


class Result:
    def __init__(self, pid, tier, seed):
        self.pid, self.tier, self.seed = pid, tier, seed
        self.states = 0
        self.transitions = 0
        self.traces = 0
        self.evaluations = 0
        self.nontrivial = 0
        self.rules = []
        self.samples = []
        self.stages = []
        self.mismatches = []   # (family, mismatch dict)
        self.extra = {}
        self.assumptions = []
        self.exhaustive = True

    def add_tlc(self, info):
        self.states += info.get("distinct", 0)
        self.transitions += info.get("generated", 0)
        self.stages.append({k: info[k] for k in ("cmd", "generated", "distinct", "wall_s") if k in info})

    def add_summary(self, fam, s, count_as_traces=True):
        self.evaluations += s.get("cases", 0)
        self.nontrivial += s.get("distinct_nontrivial", 0)
        if count_as_traces:
            self.traces += s.get("cases", 0)
        if s.get("rule") and s["rule"] not in self.rules:
            self.rules.append(s["rule"])
        for x in (s.get("samples") or [])[:3]:
            self.samples.append(x)
        for k, v in (s.get("extra") or {}).items():
            self.extra[fam + "." + k] = self.extra.get(fam + "." + k, 0) + v
        st = {"family": fam, "cases": s.get("cases", 0), "distinct_nontrivial": s.get("distinct_nontrivial", 0),
              "mismatch_count": s.get("mismatch_count", 0), "sig_counts": s.get("sig_counts", {})}
        self.stages.append(st)
        for mm in s.get("mismatches") or []:
            self.mismatches.append((fam, mm, s.get("sig_counts", {}).get(mm["sig"], 1)))


def finish(res, harness, t0, level="model_checking"):
    """classify mismatches, re-execute, print verdict lines, write evidence, return exit code."""
    fixed, findings = load_known()
    known_lines, violations = [], []
    seen = set()
    for fam, mm, cnt in res.mismatches:
        sig = mm["sig"]
        kf = next((f for f in findings if f["prop"] == res.pid and f["sig"].fullmatch(sig)), None)
        if kf:
            if ("K", kf["what"]) not in seen:
                seen.add(("K", kf["what"]))
                known_lines.append("KNOWN-FINDING: property=%s %s" % (res.pid, kf["what"]))
            continue
        if sig in seen:
            continue
        seen.add(sig)
        h = hashlib.sha1((sig + json.dumps(mm["case"], sort_keys=True)).encode()).hexdigest()[:10]
        path = os.path.join(VERIF, "replays", "%s-%s.json" % (res.pid, h))
        os.makedirs(os.path.dirname(path), exist_ok=True)
        rec = {"property": res.pid, "family": fam, "sig": sig, "count": cnt, "detail": mm["detail"], "case": mm["case"]}
        if mm.get("ctx"):
            rec["ctx"] = mm["ctx"]
        json.dump(rec, open(path, "w"), indent=1)
        # isolation re-check on the real code
        if mm.get("noreplay"):
            reproduced = True
        else:
            r = run([harness, "one", path], stdout=subprocess.PIPE, stderr=subprocess.STDOUT, text=True)
            reproduced = r.returncode == 1
            if r.returncode not in (0, 1):
                reproduced = None
            if r.returncode == 0 and mm.get("ctx"):
                # the case alone passes: state carried between calls?  replay the lines that preceded it in its process
                r = run([harness, "one", "-ctx", path], stdout=subprocess.PIPE, stderr=subprocess.STDOUT, text=True)
                reproduced = True if r.returncode == 1 else (False if r.returncode == 0 else None)
                if reproduced:
                    mm["detail"] = "[reproduced only with the preceding calls of its process: state carried between calls] " + mm["detail"]
            if reproduced is False and not mm.get("respec"):
                # sequential replays pass: did it come from calls overlapping in time (families replayed by concurrent workers on
                # private inputs)?  replay the case and its context in 8 goroutines at once
                r = run([harness, "one", "-par", path], stdout=subprocess.PIPE, stderr=subprocess.STDOUT, text=True)
                if r.returncode == 1:
                    reproduced = True
                    mm["detail"] = "[reproduced only when several goroutines make these calls at the same time on private inputs: shared state between concurrent calls] " + mm["detail"]
            if reproduced is False and mm.get("respec"):
                # the same wrong answer did not come back (e.g. it depends on hash iteration order): execute the session again,
                # several times, and let the TRACE SPECIFICATION judge the fresh observations
                rs = mm["respec"]
                scratch = os.path.dirname(harness)
                sd = prepare_spec_dir(scratch)
                for attempt in range(5):
                    rr = run([harness, rs["cmd"], path, os.path.join(sd, rs["trace"])], stdout=subprocess.PIPE, stderr=subprocess.STDOUT, text=True)
                    if rr.returncode != 0:
                        break
                    try:
                        _, rej = validate_trace_only(scratch, rs["spec"], rs["cfg"], 300)
                    except MachineryError:
                        break
                    if rej is not None:
                        reproduced = True
                        mm["detail"] = "[not the same wrong answer twice; re-executed session %d rejected again by the trace specification at event %d] %s" % (attempt + 1, rej, mm["detail"])
                        break
        violations.append((sig, cnt, mm["detail"], path, reproduced))
    rc = 0
    for l in known_lines:
        log(l)
    unrepro = [v for v in violations if v[4] is not True]
    real = [v for v in violations if v[4] is True]
    for sig, cnt, detail, path, _ in real:
        log("VIOLATION property=%s replay=%s" % (res.pid, path))
        log("   [%s x%d] %s" % (sig, cnt, detail[:600]))
    if real:
        rc = 1
    elif unrepro:
        for sig, cnt, detail, path, _ in unrepro:
            log("UNREPRODUCED candidate (not reported as violation): %s %s" % (sig, path))
        rc = 2
    ev = {
        "property_id": res.pid, "tier": res.tier, "seed": res.seed, "level": level,
        "coverage": {
            "states": res.states, "transitions": res.transitions,
            "traces_validated_against_impl": res.traces,
            "evaluations": res.evaluations, "distinct_nontrivial": res.nontrivial,
            "rule": " || ".join(res.rules), "samples": res.samples[:6] or ["(none)"],
            "exhaustive": res.exhaustive, "stages": res.stages, "counters": res.extra,
        },
        "assumptions": res.assumptions,
        "wall_s": round(time.time() - t0, 1),
        "violations": len(real),
        "known_findings_reported": len(known_lines),
    }
    os.makedirs(os.path.join(VERIF, "evidence"), exist_ok=True)
    json.dump(ev, open(os.path.join(VERIF, "evidence", res.pid + ".json"), "w"), indent=1)
    log("%s %s: states=%d transitions=%d replayed=%d nontrivial=%d mismatches=%d wall=%.0fs -> exit %d"
        % (res.pid, res.tier, res.states, res.transitions, res.traces, res.nontrivial, len(res.mismatches), time.time() - t0, rc))
    return rc


# ----------------------------------------------------------------------------- main
def main():
    import props
    args = sys.argv[1:]
    if not args:
        print(__doc__)
        return 2
    pid = args[0]
    tier = os.environ.get("VERIF_TIER", "quick")
    if "--tier" in args:
        tier = args[args.index("--tier") + 1]
    seed = int(os.environ.get("VERIF_SEED", "1") or "1")
    if pid == "selftest":
        import selftest
        return selftest.main(args[1:])
    if pid not in props.PROPS:
        print("unknown property", pid)
        return 2
    t0 = time.time()
    scratch = tempfile.mkdtemp(prefix="mxjverif-%s-" % pid)
    try:
        ctx = Ctx(pid, tier, seed, scratch)
        res = Result(pid, tier, seed)
        try:
            props.PROPS[pid](ctx, res)
            return finish(res, ctx.harness(), t0)
        except MachineryError as e:
            log("MACHINERY-ERROR %s: %s" % (pid, e))
            return 2
    finally:
        shutil.rmtree(scratch, ignore_errors=True)


class Ctx:
    def __init__(self, pid, tier, seed, scratch):
        self.pid, self.tier, self.seed, self.scratch = pid, tier, seed, scratch
        self._h = {}

    @property
    def quick(self):
        return self.tier != "thorough"

    def harness(self, race=False):
        if race not in self._h:
            self._h[race] = build_harness(self.scratch, race) if not self._h else self._build_more(race)
        return self._h[race]

    def _build_more(self, race):
        # second build reuses the copied harness dir
        hdir = os.path.join(self.scratch, "harness")
        out = os.path.join(self.scratch, "mxjconf-race" if race else "mxjconf")
        cmd = ["go", "build", "-tags", "verif"] + (["-race"] if race else []) + ["-o", out, "./cmd/mxjconf"]
        r = run(cmd, cwd=hdir, env=GOENV, stdout=subprocess.PIPE, stderr=subprocess.STDOUT, text=True)
        if r.returncode != 0:
            raise MachineryError("harness build failed:\n" + r.stdout)
        return out

    def gen_replay(self, res, family, spec, cfg, timeout_s=None, **kw):
        timeout_s = timeout_s or (600 if self.quick else 3600)
        info, summ = tlc_gen_replay(self.scratch, self.harness(race=kw.get("race", False)), family, spec, cfg, timeout_s, **kw)
        res.add_tlc(info)
        res.add_summary(family, summ)
        return info, summ

    def trace(self, res, family, trace_spec, trace_cfg, n, timeout_s=600, max_rejects=3, extra_args=(), chunk=None):
        """code -> spec: record n events, validate; on rejection report the session and continue with the rest.
        With chunk set, the n events are recorded and validated as independent traces of that size (the trace is a
        TLC constant: its memory footprint grows with the number of events)."""
        if chunk and n > chunk:
            k = (n + chunk - 1) // chunk
            for i in range(k):
                self._trace1(res, family, trace_spec, trace_cfg, chunk, timeout_s, max_rejects, extra_args, self.seed * 1000 + i)
            return
        self._trace1(res, family, trace_spec, trace_cfg, n, timeout_s, max_rejects, extra_args, self.seed)

    def _trace1(self, res, family, trace_spec, trace_cfg, n, timeout_s, max_rejects, extra_args, seed):
        info, summ, rejected = record_trace_validate(self.scratch, self.harness(), family, trace_spec, trace_cfg, seed, n, timeout_s, extra_args)
        res.add_tlc(info)
        res.add_summary(family + "-trace", summ, count_as_traces=True)
        tries = 0
        trace = info["trace_file"]
        while rejected is not None and tries < max_rejects:
            tries += 1
            lines = open(trace).read().splitlines()
            idx = rejected - 1          # 0-based index of the rejected event
            start = idx
            while start > 0 and json.loads(lines[start]).get("op") != "reset":
                start -= 1
            session = [json.loads(x) for x in lines[start:idx + 1]]
            ev = session[-1]
            # context: the sessions recorded before it in the same process (used when the session alone does not
            # reproduce: state carried from one call to a later one)
            ctx, cur = [], []
            for x in lines[:start]:
                e = json.loads(x)
                if e.get("op") == "reset" and cur:
                    ctx.append(json.dumps({"session": cur}))
                    cur = []
                cur.append(e)
            if cur:
                ctx.append(json.dumps({"session": cur}))
            ctx = ctx[-400:] + [json.dumps({"session": session})]
            res.mismatches.append((family, {"sig": "trace:%s:%s" % (family, ev.get("op")),
                                            "detail": "trace event %d (%s) rejected by %s: %s" % (rejected, ev.get("op"), trace_spec, json.dumps(ev)[:600]),
                                            "case": {"session": session}, "ctx": ctx,
                                            "respec": ({"cmd": "rerunxml", "spec": trace_spec, "cfg": trace_cfg, "trace": "trace_xml.ndjson"} if family == "xml" else None)}, 1))
            # drop the whole session and validate the rest
            end = idx + 1
            while end < len(lines) and json.loads(lines[end]).get("op") != "reset":
                end += 1
            rest = lines[:start] + lines[end:]
            if not rest:
                break
            open(trace, "w").write("\n".join(rest) + "\n")
            info2, rejected = validate_trace_only(self.scratch, trace_spec, trace_cfg, timeout_s)
            res.add_tlc(info2)
        return info

    def repo_tests_trace(self, res, timeout_s=900):
        """code -> spec through the repository's OWN tests: a scratch copy of the working tree gets the observation
        hook installed (harness/repotrace), its test suite runs with -tags verif, and every NewMapXml call it makes is
        validated against the decode specification (Trace_Xml.tla, event decx)."""
        repo = os.environ.get("VERIF_REPO", "/repo")
        work = tempfile.mkdtemp(prefix="repocopy_", dir=self.scratch)
        r = run(["rsync", "-a", "--exclude", ".git", repo + "/", work + "/"], stdout=subprocess.PIPE, stderr=subprocess.STDOUT, text=True)
        if r.returncode != 0:
            raise MachineryError("cannot copy the repository: " + r.stdout[-500:])
        shutil.copy(os.path.join(VERIF, "harness", "repotrace", "zz_verif_trace_test.go.txt"), os.path.join(work, "zz_verif_trace_test.go"))
        raw = os.path.join(self.scratch, "repo_raw.ndjson")
        t0 = time.time()
        r = run(["timeout", str(timeout_s), "go", "test", "-tags", "verif", "-vet=off", "-count=1", "."], cwd=work,
                env=dict(GOENV, MXJ_VERIF_TRACE=raw), stdout=subprocess.PIPE, stderr=subprocess.STDOUT, text=True)
        shutil.rmtree(work, ignore_errors=True)
        if not os.path.exists(raw) or os.path.getsize(raw) == 0:
            raise MachineryError("the repository's tests logged no NewMapXml call (go test rc=%s): %s" % (r.returncode, r.stdout[-1500:]))
        sd = prepare_spec_dir(self.scratch)
        trace = os.path.join(sd, "trace_xml.ndjson")
        summ = os.path.join(self.scratch, "xmlevents.summary.json")
        r2 = run([self.harness(), "xmlevents", raw, trace, summ], stdout=subprocess.PIPE, stderr=subprocess.STDOUT, text=True)
        if r2.returncode != 0 or not os.path.exists(summ):
            raise MachineryError("xmlevents failed: " + r2.stdout[-1500:])
        summary = json.load(open(summ))
        if summary.get("cases", 0) == 0:
            raise MachineryError("no observation of the repository's tests is in the specification's domain")
        summary.setdefault("extra", {})["go_test_rc"] = r.returncode
        res.add_summary("xmlrepo-trace", summary, count_as_traces=True)
        tries = 0
        while True:
            info, rejected = validate_trace_only(self.scratch, "Trace_Xml.tla", "Trace_Xml.cfg", 600)
            info["cmd"] = "go test -tags verif (repository's tests, hook VerifOnDecode) | mxjconf xmlevents | tlc -config Trace_Xml.cfg Trace_Xml.tla"
            res.add_tlc(info)
            if rejected is None or tries >= 3:
                break
            tries += 1
            lines = open(trace).read().splitlines()
            ev = json.loads(lines[rejected - 1])
            res.mismatches.append(("xml", {"sig": "trace:xmlrepo:decx", "detail": "NewMapXml call of the repository's tests rejected by Trace_Xml.tla: options %s, result %s"
                                           % (json.dumps(ev.get("o")), json.dumps(ev.get("r"))[:500]),
                                           "case": {"session": [{"op": "reset"}, ev]}}, 1))
            rest = lines[:rejected - 1] + lines[rejected:]
            if not rest:
                break
            open(trace, "w").write("\n".join(rest) + "\n")

    WRAPPED = ["ValuesForPath", "ValuesForKey", "PathsForKey", "PathForKeyShortest", "UpdateValuesForPath", "SetValueForPath",
               "Remove", "RenameKey", "LeafNodes", "NewMap", "Xml"]

    def _wrapped_repo_run(self, timeout_s=900):
        """the repository's own test suite in a scratch copy of the working tree whose methods WRAPPED have been renamed
        mechanically, with logging wrappers of the original names (harness/repotrace/zz_verif_wrap.go.txt) in their place:
        no hook in the repository is needed.  Returns (raw log, go test rc); run once per check process."""
        if getattr(self, "_wrapped", None):
            return self._wrapped
        repo = os.environ.get("VERIF_REPO", "/repo")
        work = tempfile.mkdtemp(prefix="repocopy_", dir=self.scratch)
        r = run(["rsync", "-a", "--exclude", ".git", repo + "/", work + "/"], stdout=subprocess.PIPE, stderr=subprocess.STDOUT, text=True)
        if r.returncode != 0:
            raise MachineryError("cannot copy the repository: " + r.stdout[-500:])
        import glob as _glob
        srcs = {f: open(f).read() for f in _glob.glob(os.path.join(work, "*.go")) if not f.endswith("_test.go")}
        for t in self.WRAPPED:
            pat = re.compile(r"^func \(mv Map\) %s\(" % t, re.M)
            hits = [f for f, src in srcs.items() if pat.search(src)]
            if len(hits) != 1 or len(pat.findall(srcs[hits[0]])) != 1:
                shutil.rmtree(work, ignore_errors=True)
                raise MachineryError("cannot wrap Map.%s: %d definitions found in the working tree" % (t, len(hits)))
            srcs[hits[0]] = pat.sub("func (mv Map) verifInner%s(" % t, srcs[hits[0]])
            open(hits[0], "w").write(srcs[hits[0]])
        for n in ("zz_verif_wrap.go", "zz_verif_trace_test.go"):
            shutil.copy(os.path.join(VERIF, "harness", "repotrace", n + ".txt"), os.path.join(work, n))
        raw = os.path.join(self.scratch, "repo_praw.ndjson")
        r = run(["timeout", str(timeout_s), "go", "test", "-tags", "verif", "-vet=off", "-count=1", ".", "./j2x", "./x2j-wrapper"], cwd=work,
                env=dict(GOENV, MXJ_VERIF_PTRACE=raw), stdout=subprocess.PIPE, stderr=subprocess.STDOUT, text=True)
        shutil.rmtree(work, ignore_errors=True)
        if "[build failed]" in r.stdout or "[setup failed]" in r.stdout:
            raise MachineryError("the wrapped copy of the repository does not build: " + r.stdout[-1500:])
        if not os.path.exists(raw) or os.path.getsize(raw) == 0:
            raise MachineryError("the repository's tests logged no wrapped call (go test rc=%s): %s" % (r.returncode, r.stdout[-1500:]))
        self._wrapped = (raw, r.returncode)
        return self._wrapped

    def repo_tests_enc_trace(self, res):
        """code -> spec through the repository's OWN tests, encoder side: every Map.Xml(rootTag...) call made while the
        suite runs (wrapped method, see _wrapped_repo_run) as an event encx of Trace_Xml.tla -- exact bytes under the
        registers logged with the call."""
        raw, rc = self._wrapped_repo_run()
        sd = prepare_spec_dir(self.scratch)
        trace = os.path.join(sd, "trace_xml.ndjson")
        summ = os.path.join(self.scratch, "xmlevents-enc.summary.json")
        r2 = run([self.harness(), "xmlevents", raw, trace, summ], stdout=subprocess.PIPE, stderr=subprocess.STDOUT, text=True)
        if r2.returncode != 0 or not os.path.exists(summ):
            raise MachineryError("xmlevents failed: " + r2.stdout[-1500:])
        summary = json.load(open(summ))
        if summary.get("cases", 0) == 0:
            raise MachineryError("no Map.Xml call of the repository's tests is in the specification's domain")
        summary.setdefault("extra", {})["go_test_rc"] = rc
        res.add_summary("xmlrepo-enc-trace", summary, count_as_traces=True)
        tries = 0
        while True:
            info, rejected = validate_trace_only(self.scratch, "Trace_Xml.tla", "Trace_Xml.cfg", 600)
            info["cmd"] = "go test -tags verif (repository's tests, wrapped Map.Xml) | mxjconf xmlevents | tlc -config Trace_Xml.cfg Trace_Xml.tla"
            res.add_tlc(info)
            if rejected is None or tries >= 3:
                break
            tries += 1
            lines = open(trace).read().splitlines()
            ev = json.loads(lines[rejected - 1])
            res.mismatches.append(("xml", {"sig": "trace:xmlrepo:encx", "detail": "Map.Xml call of the repository's tests rejected by Trace_Xml.tla: options %s, Map %s, bytes %s"
                                           % (json.dumps(ev.get("o")), json.dumps(ev.get("m"))[:400], json.dumps(ev.get("x"))[:300]),
                                           "case": {"session": [{"op": "reset"}, ev]}}, 1))
            rest = lines[:rejected - 1] + lines[rejected:]
            if not rest:
                break
            open(trace, "w").write("\n".join(rest) + "\n")

    def repo_tests_path_trace(self, res, ops):
        """code -> spec through the repository's OWN tests, query / update side (wrapped methods, see _wrapped_repo_run).
        `mxjconf pathevents` parses the argument strings (independently of the package, plainly well-formed subset) into
        sessions of Trace_Path.tla; `ops` selects the event kinds this property validates."""
        raw, rc = self._wrapped_repo_run()
        sd = prepare_spec_dir(self.scratch)
        trace = os.path.join(sd, "trace_path.ndjson")
        allev = os.path.join(self.scratch, "repo_pall.ndjson")
        summ = os.path.join(self.scratch, "pathevents.summary.json")
        r2 = run([self.harness(), "pathevents", raw, allev, summ], stdout=subprocess.PIPE, stderr=subprocess.STDOUT, text=True)
        if r2.returncode != 0 or not os.path.exists(summ):
            raise MachineryError("pathevents failed: " + r2.stdout[-1500:])
        # sessions are [reset, call]: keep those whose call is one of `ops`
        lines = open(allev).read().splitlines()
        keep, kept_by_op = [], {}
        for i in range(0, len(lines) - 1, 2):
            op = json.loads(lines[i + 1]).get("op")
            if op in ops:
                keep += [lines[i], lines[i + 1]]
                kept_by_op[op] = kept_by_op.get(op, 0) + 1
        if not keep:
            raise MachineryError("no %s call of the repository's tests is in the specification's domain" % "/".join(ops))
        open(trace, "w").write("\n".join(keep) + "\n")
        summary = json.load(open(summ))
        summary["cases"] = len(keep) // 2
        summary["distinct_nontrivial"] = min(summary.get("distinct_nontrivial", 0), summary["cases"])
        summary.setdefault("extra", {})["go_test_rc"] = rc
        for op, cnt in kept_by_op.items():
            summary["extra"]["validated_here:" + op] = cnt
        res.add_summary("pathrepo-trace", summary, count_as_traces=True)
        tries = 0
        while True:
            info, rejected = validate_trace_only(self.scratch, "Trace_Path.tla", "Trace_Path.cfg", 600)
            info["cmd"] = "go test -tags verif (repository's tests, wrapped methods) | mxjconf pathevents | tlc -config Trace_Path.cfg Trace_Path.tla"
            res.add_tlc(info)
            if rejected is None or tries >= 3:
                break
            tries += 1
            lines = open(trace).read().splitlines()
            idx = rejected - 1
            if json.loads(lines[idx]).get("op") == "reset":
                raise MachineryError("Trace_Path.tla rejected a reset event of the repository's tests: " + lines[idx][:300])
            ev = json.loads(lines[idx])
            session = [json.loads(lines[idx - 1]), ev]
            res.mismatches.append(("path", {"sig": "trace:pathrepo:%s" % ev.get("op"),
                                            "detail": "call of the repository's tests rejected by Trace_Path.tla: %s on %s" % (json.dumps(ev)[:500], lines[idx - 1][:300]),
                                            "case": {"session": session}}, 1))
            rest = lines[:idx - 1] + lines[idx + 1:]
            if not rest:
                break
            open(trace, "w").write("\n".join(rest) + "\n")

    def harness_cmd(self, args):
        """runs an auxiliary harness command inside the scratch copy of spec/ (e.g. generated constants modules)"""
        sd = prepare_spec_dir(self.scratch)
        r = run([self.harness()] + list(args), cwd=sd, stdout=subprocess.PIPE, stderr=subprocess.STDOUT, text=True)
        if r.returncode != 0:
            raise MachineryError("harness command %s failed: %s" % (args, r.stdout[-1500:]))

    def apalache_inductive(self, res, spec, timeout_s=300):
        """unbounded safety of a small typed spec: Init => IndInv, IndInv /\\ Next => IndInv', IndInv => the property"""
        sd = prepare_spec_dir(self.scratch)
        outdir = os.path.join(self.scratch, "apalache-out")
        steps = [("Init => IndInv", ["--init=Init", "--inv=IndInv", "--length=0"]),
                 ("IndInv /\\ Next => IndInv'", ["--init=IndInit", "--inv=IndInv", "--length=1"]),
                 ("IndInv => NoLossNoDup", ["--init=IndInit", "--inv=NoLossNoDup", "--length=0"]),
                 ("IndInv => EofOnlyAfterAll", ["--init=IndInit", "--inv=EofOnlyAfterAll", "--length=0"])]
        t0 = time.time()
        for name, args in steps:
            cmd = ["timeout", str(timeout_s), "apalache-mc", "check", "--out-dir=" + outdir, "--cinit=ConstInit"] + args + [spec]
            r = run(cmd, cwd=sd, stdout=subprocess.PIPE, stderr=subprocess.STDOUT, text=True)
            if "EXITCODE: OK" not in r.stdout:
                raise MachineryError("Apalache could not discharge '%s' of %s:\n%s" % (name, spec, r.stdout[-1500:]))
        res.stages.append({"cmd": "apalache-mc check (inductive invariant, unbounded stream length) " + spec,
                           "obligations": len(steps), "discharged": len(steps), "wall_s": round(time.time() - t0, 1)})
        res.extra["apalache.obligations_discharged"] = len(steps)

    def check(self, res, spec, cfg, timeout_s=None, **kw):
        timeout_s = timeout_s or (600 if self.quick else 3600)
        info = tlc_check(self.scratch, spec, cfg, timeout_s, **kw)
        res.add_tlc(info)
        return info


if __name__ == "__main__":
    sys.exit(main())
