#!/usr/bin/env python3
# dev: tools/mk_mutant_prompts.py <suffix> : write /tmp/mutout/<Cxx><suffix>.prompt.txt for a new batch of sub-agent mutants and
# create the scratch worktrees /tmp/mut/<Cxx><suffix>.  The sub-agent gets the property text only (plus one-line summaries of the
# changes already known, so that it looks elsewhere) -- nothing from /verif.
import json, os, subprocess, sys, glob

suffix = sys.argv[1]
IDEAS = sys.argv[2] if len(sys.argv) > 2 else ""
props = [json.loads(l) for l in open('/verif/properties.jsonl')]
os.makedirs('/tmp/mutout', exist_ok=True)
os.makedirs('/tmp/mut', exist_ok=True)
for p in props:
    pid = p['id']
    known = []
    for d in sorted(glob.glob(f'/verif/seeded/{pid}-*/meta.json')):
        m = json.load(open(d))
        t = m.get('needs_to_manifest', '')
        # first line that describes the change
        line = ''
        for ln in t.split('\n'):
            s = ln.strip().lstrip('-* ').strip()
            if s and not s.startswith('#'):
                line = s
                break
        known.append('- ' + line[:260])
    wt = f'/tmp/mut/{pid}{suffix}'
    out = f'/tmp/mutout/{pid}{suffix}'
    if not os.path.isdir(wt):
        subprocess.check_call(['git', '-C', '/repo', 'worktree', 'add', '-q', '--detach', wt, 'HEAD'])
    os.makedirs(out, exist_ok=True)
    prop = f"{pid} — {p['title']}\n\nStatement: {p['statement']}\n\nQuantifier: {p['quantifier']}\n"
    prompt = f"""You are helping test a verification framework by producing *seeded defects* (mutants) for the Go library clbanning/mxj (XML/JSON <-> map[string]interface{{}} with dot-path queries).

Your scratch git worktree of the library is at: {wt}   (work ONLY there; do NOT read or touch /repo, /verif, or /root/.vp).
Go environment for every shell call: export GOFLAGS=-mod=mod GOPROXY=off GOSUMDB=off GOTOOLCHAIN=local   (no network is available).
The existing test suite is run with:  cd {wt} && go test -vet=off -count=1 . ./j2x ./x2j-wrapper
NEVER use `git stash` (the stash is shared between all worktrees of the repository and other agents work in parallel); to restore the tree use `git checkout -- .` inside YOUR worktree only.

This is the semantic property of the library you must break:

{prop}

TASK: produce TWO different, independent changes (mutants; be inventive -- {len(known)} mutants are already known for this property, see the list below: choose DIFFERENT mechanisms, code paths and triggers. Ideas: {IDEAS}) to the library source (non-test .go files) such that, for each:
  1. the library still compiles and the existing test suite above still passes completely;
  2. the property above is violated by the changed code;
  3. the violation needs something SPECIFIC to manifest — a particular multi-step sequence of operations, an unusual input shape, a particular size/width, a particular option combination, or two cooperating sites that each look fine alone — NOT something that ordinary simple use would expose at once. Make them realistic: the kind of bug a maintainer could plausibly introduce in a refactoring or "optimisation" (off-by-one at a boundary, wrong branch for a rare type, stale state, lost case, swapped arguments in a rare path, early return, shared buffer...). The two mutants should touch different mechanisms/code paths.
  4. you provide a demonstration: a small Go test file (package mxj unless the change is in a sub-package, file name demo_test.go, placed in the worktree only while testing) that FAILS with the change applied and PASSES on the unchanged code.

For each mutant k in {{1,2}} write into {out}/m<k>/ :
   patch.diff   — output of `git diff` in the worktree with ONLY the library change (not the demo test), applicable with `git apply` on the unchanged tree
   demo_test.go — the demonstration test
   notes.md     — 5-10 lines: what was changed, why it breaks the property, what it needs in order to manifest, and the exact commands you ran with their outcome (suite passes with change; demo fails with change; demo passes without change)
Between the two mutants restore the worktree (git checkout -- . ; remove demo_test.go). Verify everything yourself by actually running the commands. Leave the worktree clean (git status clean, no demo_test.go) when done. Note: the files verif_export.go, verif_gate_on.go, verif_gate_off.go, the one-line verifGate(...) calls and the `if verifOn {{ ... }}` block in xmlToMap are build-tag-guarded test hooks; do not modify or remove them. Your final answer: a short summary of the two mutants.


Already-known mutants for this property (do NOT repeat these mechanisms or close variants of them):
""" + '\n'.join(known) + '\n'
    open(f'/tmp/mutout/{pid}{suffix}.prompt.txt', 'w').write(prompt)
print('ok')
