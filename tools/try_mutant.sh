#!/bin/bash
# tools/try_mutant.sh <prop> <mutant-dir> [tier] : apply patch to /repo, confirm suite passes + demo fails, run the check, undo.
P=$1; D=$2; TIER=${3:-quick}
export GOFLAGS=-mod=mod GOPROXY=off GOSUMDB=off GOTOOLCHAIN=local
cd /repo || exit 9
if [ -n "$(git status --porcelain)" ]; then echo "repo not clean"; exit 9; fi
git apply --check $D/patch.diff || { echo "PATCH DOES NOT APPLY"; exit 9; }
# demo must pass on the unchanged tree
cp $D/demo_test.go /repo/zz_demo_test.go
go test -vet=off -count=1 -run "$(grep -o 'func Test[A-Za-z0-9_]*' $D/demo_test.go | sed 's/func //' | paste -sd'|')" . > /tmp/demo_clean.txt 2>&1; DC=$?
git apply $D/patch.diff
go test -vet=off -count=1 -run "$(grep -o 'func Test[A-Za-z0-9_]*' $D/demo_test.go | sed 's/func //' | paste -sd'|')" . > /tmp/demo_mut.txt 2>&1; DM=$?
rm -f /repo/zz_demo_test.go
/verif/baseline_off.sh > /tmp/suite_mut.txt 2>&1; SU=$?
echo "demo on clean tree: rc=$DC (want 0) | demo with mutant: rc=$DM (want !=0) | suite with mutant: rc=$SU (want 0)"
cd /verif && python3 check.py $P --tier $TIER > /tmp/check_mut.txt 2>&1; RC=$?
echo "check $P $TIER exit=$RC"; grep -m4 "VIOLATION\|MACHINERY" /tmp/check_mut.txt; grep -A1 -m2 "VIOLATION" /tmp/check_mut.txt | grep "^   " | cut -c1-300
cd /repo && git checkout -- . && git status --porcelain | head -3
exit 0
