#!/bin/bash
# tools/try_mutant.sh <prop> <mutant-dir> [tier] : apply the patch in a scratch worktree of /repo (VERIF_REPO), confirm
# suite passes + demo fails there, run the check against it, remove the worktree.  (/repo itself is not touched, so
# background runs against /repo are not disturbed; `git -C /repo apply` + check + `git checkout -- .` is equivalent.)
P=$1; D=$2; TIER=${3:-quick}
export GOFLAGS=-mod=mod GOPROXY=off GOSUMDB=off GOTOOLCHAIN=local
W=$(mktemp -d /tmp/mutrepo.XXXXXX)
T=${TRYOUT:-/tmp}   # where the logs of this attempt go (set TRYOUT for concurrent attempts)
git -C /repo worktree add -q --detach $W HEAD || exit 9
cd $W
git apply --check $D/patch.diff || { echo "PATCH DOES NOT APPLY"; cd /; git -C /repo worktree remove --force $W; exit 9; }
DEMO=$D/demo_test.go; [ -f $DEMO ] || DEMO=$D/demo_test.go.txt   # (kept changes store the demonstration as .txt)
DEMODIR=.
grep -q "^package j2x" $DEMO && DEMODIR=j2x
grep -q "^package x2j" $DEMO && { grep -q "x2j-wrapper\|package x2j$" $D/notes.md 2>/dev/null; DEMODIR=x2j-wrapper; }
[ -f $D/demo_dir ] && DEMODIR=$(cat $D/demo_dir)
TESTS="$(grep -o 'func Test[A-Za-z0-9_]*' $DEMO | sed 's/func //' | paste -sd'|')"
cp $DEMO $W/$DEMODIR/zz_demo_test.go
( cd $W/$DEMODIR && go test -vet=off -count=1 -run "$TESTS" . > $T/demo_clean.txt 2>&1 ); DC=$?
git apply $D/patch.diff
( cd $W/$DEMODIR && go test -vet=off -count=1 -run "$TESTS" . > $T/demo_mut.txt 2>&1 ); DM=$?
rm -f $W/$DEMODIR/zz_demo_test.go
VERIF_REPO=$W ${VDIR:-/verif}/baseline_off.sh > $T/suite_mut.txt 2>&1; SU=$?
echo "demo on clean tree: rc=$DC (want 0) | demo with mutant: rc=$DM (want !=0) | suite with mutant: rc=$SU (want 0)"
EV=${VDIR:-/verif}/evidence/$P.json; cp $EV /tmp/evidence_keep_$$.json 2>/dev/null   # (evidence of a run against a changed tree is never kept)
cd ${VDIR:-/verif} && VERIF_REPO=$W python3 check.py $P --tier $TIER > $T/check_mut.txt 2>&1; RC=$?
[ -f /tmp/evidence_keep_$$.json ] && mv /tmp/evidence_keep_$$.json $EV
echo "check $P $TIER exit=$RC"; grep -m4 "VIOLATION\|MACHINERY" $T/check_mut.txt; grep -A1 -m2 "VIOLATION" $T/check_mut.txt | grep "^   " | cut -c1-300
cd /; git -C /repo worktree remove --force $W
exit 0
