#!/usr/bin/env python3
"""dev: tools/stage.py <python expr over ctx,res>  e.g. tools/stage.py 'props.path_trace(ctx,res)'"""
import sys, tempfile, shutil, time, json
sys.path.insert(0, '/verif')
import check, props
scratch = tempfile.mkdtemp(prefix='mxjstage-')
try:
    ctx = check.Ctx('DEV', 'quick', int(__import__('os').environ.get('VERIF_SEED', '1')), scratch)
    res = check.Result('DEV', 'quick', ctx.seed)
    t0 = time.time()
    eval(sys.argv[1])
    print('stages:', json.dumps(res.stages)[:1500])
    print('mismatches:', len(res.mismatches))
    for fam, mm, cnt in res.mismatches[:5]:
        print('  ', mm['sig'], cnt, mm['detail'][:300])
    if res.mismatches: json.dump(res.mismatches[0][1], open('/tmp/t1/first_mismatch.json','w'))
    print('wall %.1fs' % (time.time() - t0))
finally:
    shutil.rmtree(scratch, ignore_errors=True)
