#!/usr/bin/env python3
"""tools/keep_mutant.py <prop> <srcdir> <name> <detected-by text> : store a confirmed seeded change under /verif/seeded/"""
import json, os, shutil, sys
prop, src, name, det = sys.argv[1:5]
dst = os.path.join('/verif/seeded', name)
os.makedirs(dst, exist_ok=True)
shutil.copy(os.path.join(src, 'patch.diff'), dst)
shutil.copy(os.path.join(src, 'demo_test.go'), os.path.join(dst, 'demo_test.go.txt'))
notes = open(os.path.join(src, 'notes.md')).read() if os.path.exists(os.path.join(src, 'notes.md')) else ''
meta = {
  "property": prop,
  "origin": "fresh sub-agent given only the property text and a scratch worktree of /repo",
  "needs_to_manifest": notes,
  "confirmed": "tools/try_mutant.sh: patch applies to /repo HEAD; demo passes on the unchanged tree and fails with the patch; the repository's 177 tests pass with the patch (tag off)",
  "detected_by": det,
  "demo": "demo_test.go.txt (rename to demo_test.go in the repository root, package mxj)",
}
json.dump(meta, open(os.path.join(dst, 'meta.json'), 'w'), indent=1)
print("kept", dst)
