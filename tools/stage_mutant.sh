#!/bin/bash
# dev: tools/stage_mutant.sh <seeded-dir> '<python expr over ctx,res>' : run ONE pipeline stage against a seeded change (scratch worktree)
D=$1; EXPR=$2
W=$(mktemp -d /tmp/mutrepo.XXXXXX)
git -C /repo worktree add -q --detach $W HEAD || exit 9
( cd $W && git apply $D/patch.diff ) || { git -C /repo worktree remove --force $W; exit 9; }
cd /verif && VERIF_REPO=$W python3 tools/stage.py "$EXPR" 2>&1 | grep -v "^stages" | cut -c1-400
cd /; git -C /repo worktree remove --force $W
