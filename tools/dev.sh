#!/bin/bash
# dev helper: tools/dev.sh <Module> <cfg> [outfile]  -- runs TLC in a scratch copy of spec/, prints errors and counts
set -u
M=$1; CFG=$2; OUT=${3:-/tmp/t1/out_$M.txt}
S=$(mktemp -d); cp /verif/spec/* $S/; mkdir -p $(dirname $OUT)
( cd $S && /usr/bin/time -f "%e s wall" timeout ${TMO:-300} java -Djava.io.tmpdir=$S -XX:+UseParallelGC -XX:ParallelGCThreads=4 -Xmx${HEAP:-4g} -Xss512m -cp /opt/veriftools/tla/tla2tools.jar:/opt/veriftools/tla/CommunityModules-deps.jar tlc2.TLC -workers ${W:-16} -metadir $S/meta -config $CFG ${EXTRA:-} $M.tla > $OUT 2>&1 )
grep -v '^"' $OUT | grep -v "^Parsing\|^Semantic proc\|^Linting\|^Picked" | grep -i -m3 -A14 "error\|violated\|Unknown\|already defined" | head -${LINES_MAX:-60}
grep -v '^"' $OUT | grep "states generated\|s wall" | tail -2
echo "data lines: $(grep -c '^"' $OUT)  size: $(stat -c %s $OUT)"
rm -rf $S
