#!/bin/bash
# dev helper: tools/trace_xml_debug.sh <dir with trace_xml.ndjson and spec copy> <event index>
# prints what the specification computes for that event next to what was logged
D=$1; N=$2
cd $D || exit 2
cat > Dbg.tla <<EOT
---- MODULE Dbg ----
EXTENDS Trace_Xml
EvN == $N
RECURSIVE OptAtT(_)
OptAtT(i) == IF i = 0 THEN InitOpt ELSE IF Trace[i].op = "reset" THEN InitOpt
             ELSE IF Trace[i].op = "set" THEN Eff(OptAtT(i-1), [fn |-> Trace[i].fn, arg |-> Trace[i].arg]) ELSE OptAtT(i-1)
O == OptAtT(EvN-1)
E == Trace[EvN]
EO == [apfx |-> "-", kpfx |-> O.keyPrefix, esc |-> O.escEnc, goempty |-> O.goEmpty]
Exp == IF E.op = "seq" THEN [dom |-> SeqDomain(E.d), r |-> Jsonable(DecodeSeq(E.d, SeqOpts(O))), x |-> Join(RenderSeq(EncodeSeqRoot(DecodeSeq(E.d, SeqOpts(O)), SeqOpts(O)), EO)),
                             canon |-> (DropEmptyRuns(EncodeSeqRoot(DecodeSeq(E.d, SeqOpts(O)), SeqOpts(O))[1]) = Canon(E.d, SeqOpts(O)))]
       ELSE [dom |-> AttrsDistinct(E.d, DecOpts(O, FALSE)), r |-> Jsonable(Decode(E.d, DecOpts(O, FALSE))),
             x |-> Join(RenderCompact(EncodeRoot(Decode(E.d, DecOpts(O, FALSE)), <<>>, EncOpts(O)), EncOpts(O))), canon |-> TRUE]
ASSUME PrintT(ToJson([opt |-> O, exp |-> Exp]))
====
EOT
timeout 120 java -XX:+UseParallelGC -Xmx4g -Xss512m -cp /opt/veriftools/tla/tla2tools.jar:/opt/veriftools/tla/CommunityModules-deps.jar tlc2.TLC -workers 1 -metadir $D/metadbg -config Trace_Xml.cfg Dbg.tla 2>&1 | grep '^"{' | head -1 > dbg.out
python3 - <<EOT
import json
exp=json.loads(json.loads(open('dbg.out').read()))
ev=[json.loads(x) for x in open('trace_xml.ndjson')][$N-1]
print("opt:", {k:v for k,v in exp['opt'].items() if v not in (False,)})
e=exp['exp']
print("domain:", e['dom'], "canon:", e['canon'])
def flat(v, p, out):
    if isinstance(v, dict) and v.get('t')=='m':
        if not v['kv']: out[p]='{}'
        for k,x in (v['kv'] or {}).items(): flat(x, p+'/'+k, out)
    elif isinstance(v, dict) and v.get('t')=='l':
        for i,x in enumerate(v['it'] or []): flat(x, p+'[%d]'%i, out)
    elif isinstance(v, dict): out[p]=v['t']+':'+str(v.get('v'))
    else: out[p]=repr(v)
for name, a, b in (('r', ev.get('r'), e['r']),):
    fa, fb = {}, {}
    flat(a, '', fa); flat(b, '', fb)
    for k in sorted(set(fa)|set(fb)):
        if fa.get(k)!=fb.get(k): print("  %s: code %r  spec %r"%(k, fa.get(k), fb.get(k)))
if ev.get('x') is not None and ev['x']!=e['x']:
    print("x code:", ev['x']); print("x spec:", e['x'])
if 'r2' in ev:
    fa, fb = {}, {}
    flat(ev['r2'], '', fa); flat(e['r'], '', fb)
    for k in sorted(set(fa)|set(fb)):
        if fa.get(k)!=fb.get(k): print("  r2 %s: code %r  spec %r"%(k, fa.get(k), fb.get(k)))
print({k:v for k,v in ev.items() if k in ('op','err','encerr','err2')})
EOT
