"""check.py selftest -- non-vacuity of the machinery itself.

 1. negative designs: deliberately wrong variants of the stream adaptor (byte dropped with io.EOF, stale byte
    re-delivered, read-ahead) and of the concurrency design (package-level scratch buffer) MUST be rejected by TLC;
 2. binding, code -> spec: a recorded trace is accepted, the same trace with one field altered MUST be rejected at
    that event, with one event removed MUST be rejected as well;
 3. binding, spec -> code: a TLC-generated behaviour whose expected result was altered MUST be reported by the replay.
exit 0 iff all of that holds.
"""
import json
import os
import shutil
import subprocess
import sys
import tempfile

import check


def tlc_expect_violation(scratch, spec, cfg, what):
    sd = check.prepare_spec_dir(scratch)
    meta = tempfile.mkdtemp(prefix="meta_", dir=scratch)
    cmd = ["timeout", "300"] + check.tlc_cmd(spec, cfg, meta, 4)
    r = subprocess.run(cmd, cwd=sd, stdout=subprocess.PIPE, stderr=subprocess.STDOUT, text=True)
    ok = ("Invariant %s is violated" % what) in r.stdout
    print("  %-28s %-12s %s" % (cfg, what, "rejected (as it must be)" if ok else "NOT REJECTED"))
    return ok


def main(args):
    scratch = tempfile.mkdtemp(prefix="mxjverif-selftest-")
    ok = True
    try:
        print("1. negative designs")
        for cfg in ("MC_Stream_neg_eofdrop.cfg", "MC_Stream_neg_stale.cfg", "MC_Stream_neg_readahead.cfg"):
            ok &= tlc_expect_violation(scratch, "MC_Stream.tla", cfg, "Safety")
        ok &= tlc_expect_violation(scratch, "MC_C17.tla", "MC_C17_neg.cfg", "SequentialResults")

        print("1b. coverage: every action of the process-style specifications is taken in the bounded model")
        for spec, cfg, actions in (("MC_Stream.tla", "MC_Stream_xmlh_quick.cfg", ["ReadData", "ReadDataEof", "ReadZero", "ReadEof", "PendEof", "Verdict"]),
                                   ("MC_Stream.tla", "MC_Stream_cut_quick.cfg", ["ReadData", "ReadDataEof", "ReadZero", "ReadEof", "PendEof"]),
                                   ("MC_C17.tla", "MC_C17_p2.cfg", ["Step"]),
                                   ("MC_C18.tla", "MC_C18_hist2.cfg", ["NextHist"]),
                                   ("Mxj.tla", "Mxj_query.cfg", ["SetterStep", "OpStep"])):
            sd = check.prepare_spec_dir(scratch)
            meta = tempfile.mkdtemp(prefix="meta_", dir=scratch)
            r = subprocess.run(["timeout", "300"] + check.tlc_cmd(spec, cfg, meta, 4, ["-coverage", "1"]), cwd=sd, stdout=subprocess.PIPE, stderr=subprocess.STDOUT, text=True)
            for act in actions:
                import re
                mm = re.findall(r"^<%s line .*>: (\d+):(\d+)" % act, r.stdout, re.M)
                taken = sum(int(x[1]) for x in mm)
                print("  %-28s %-12s taken %d times" % (cfg, act, taken))
                ok &= taken > 0

        print("2. recorded trace: accepted / rejected when corrupted")
        harness = check.build_harness(scratch)
        sd = check.prepare_spec_dir(scratch)
        info, summ, rej = check.record_trace_validate(scratch, harness, "path", "Trace_Path.tla", "Trace_Path.cfg", 7, 600, 300)
        print("  original trace: %s" % ("accepted" if rej is None else "REJECTED at %s" % rej))
        ok &= rej is None
        trace = info["trace_file"]
        lines = open(trace).read().splitlines()
        # alter the count of the first successful update
        idx = next(i for i, l in enumerate(lines) if '"op": "upd"' in l or '"op":"upd"' in l)
        ev = json.loads(lines[idx])
        ev["c"] += 1
        bad = lines[:idx] + [json.dumps(ev)] + lines[idx + 1:]
        open(trace, "w").write("\n".join(bad) + "\n")
        _, rej = check.validate_trace_only(scratch, "Trace_Path.tla", "Trace_Path.cfg", 300)
        print("  count of event %d altered: %s" % (idx + 1, "rejected at %s" % rej if rej is not None else "ACCEPTED"))
        ok &= rej == idx + 1
        # drop one mutating event: the chained state no longer matches (unless a later event of the session happens to
        # overwrite everything the dropped one changed: candidates are tried in turn, the first rejected one shows the binding)
        evs = [json.loads(l) for l in lines]
        cands = []
        for i, e in enumerate(evs):
            if e.get("op") == "upd" and e.get("c", 0) > 0:
                j = i + 1
                while j < len(evs) and evs[j].get("op") != "reset":
                    if "post" in evs[j]:
                        cands.append(i)
                        break
                    j += 1
        shown = False
        for midx in cands[:8]:
            dropped = lines[:midx] + lines[midx + 1:]
            open(trace, "w").write("\n".join(dropped) + "\n")
            _, rej = check.validate_trace_only(scratch, "Trace_Path.tla", "Trace_Path.cfg", 300)
            print("  event %d removed: %s" % (midx + 1, "rejected at %s" % rej if rej is not None else "accepted (its effect is overwritten later in the session)"))
            if rej is not None:
                shown = True
                break
        ok &= shown
        print("2b. recorded XML sessions: accepted / rejected when a logged result or a setter call is altered")
        info, summ, rej = check.record_trace_validate(scratch, harness, "xml", "Trace_Xml.tla", "Trace_Xml.cfg", 7, 1200, 300)
        print("  original trace: %s" % ("accepted" if rej is None else "REJECTED at %s" % rej))
        ok &= rej is None
        trace = info["trace_file"]
        lines = open(trace).read().splitlines()
        evs = [json.loads(l) for l in lines]
        # (a) one decoded value altered
        idx = next(i for i, e in enumerate(evs) if e["op"] == "dec" and e["err"] == "ok" and len(e["d"]["ch"]) > 1)
        ev = json.loads(lines[idx])
        rootk = next(iter(ev["r"]["kv"]))
        ev["r"]["kv"][rootk + "x"] = ev["r"]["kv"].pop(rootk)
        open(trace, "w").write("\n".join(lines[:idx] + [json.dumps(ev)] + lines[idx + 1:]) + "\n")
        _, rej = check.validate_trace_only(scratch, "Trace_Xml.tla", "Trace_Xml.cfg", 300)
        print("  root key of the result of event %d altered: %s" % (idx + 1, "rejected at %s" % rej if rej is not None else "ACCEPTED"))
        ok &= rej == idx + 1
        # (b) a setter call that changes the next decode removed from the log: the specification's registers then differ
        sidx = None
        for i, e in enumerate(evs):
            if e["op"] == "set" and e["fn"] == "SetAttrPrefix" and e["arg"] in ("@", ""):
                j = i + 1
                while j < len(evs) and evs[j]["op"] not in ("reset",):
                    if evs[j]["op"] == "set" and evs[j]["fn"] in ("SetAttrPrefix", "PrependAttrWithHyphen"):
                        break
                    if evs[j]["op"] == "dec" and '"at":[{' in lines[j]:
                        sidx = i
                        break
                    j += 1
            if sidx is not None:
                break
        if sidx is None:
            print("  (no suitable setter event in this trace)")
            ok = False
        else:
            open(trace, "w").write("\n".join(lines[:sidx] + lines[sidx + 1:]) + "\n")
            _, rej = check.validate_trace_only(scratch, "Trace_Xml.tla", "Trace_Xml.cfg", 300)
            print("  setter event %d removed: %s" % (sidx + 1, "rejected at %s" % rej if rej is not None else "ACCEPTED"))
            ok &= rej is not None

        print("2c. calls observed while the repository's own tests ran (wrapped methods): accepted / rejected when a logged result is altered")
        ctx = check.Ctx("SELFTEST", "quick", 1, scratch)
        ctx._h = {False: harness}      # (the harness built above)
        res = check.Result("SELFTEST", "quick", 1)
        ctx.repo_tests_path_trace(res, ["vfp", "vfk", "ksearch", "leaf", "upd", "set", "remove", "rename", "newmap"])
        print("  query / update calls: %s" % ("accepted" if not res.mismatches else "REJECTED"))
        ok &= not res.mismatches
        trace = os.path.join(check.prepare_spec_dir(scratch), "trace_path.ndjson")
        lines = open(trace).read().splitlines()
        idx = next(i for i, l in enumerate(lines) if json.loads(l)["op"] == "upd" and json.loads(l)["c"] > 0)
        ev = json.loads(lines[idx])
        ev["c"] += 1
        open(trace, "w").write("\n".join(lines[:idx] + [json.dumps(ev)] + lines[idx + 1:]) + "\n")
        _, rej = check.validate_trace_only(scratch, "Trace_Path.tla", "Trace_Path.cfg", 300)
        print("  count of the UpdateValuesForPath call at event %d altered: %s" % (idx + 1, "rejected at %s" % rej if rej is not None else "ACCEPTED"))
        ok &= rej == idx + 1
        res = check.Result("SELFTEST", "quick", 1)
        ctx.repo_tests_enc_trace(res)
        print("  Map.Xml calls: %s" % ("accepted" if not res.mismatches else "REJECTED"))
        ok &= not res.mismatches
        trace = os.path.join(check.prepare_spec_dir(scratch), "trace_xml.ndjson")
        lines = open(trace).read().splitlines()
        idx = next(i for i, l in enumerate(lines) if json.loads(l)["op"] == "encx" and len(json.loads(l)["x"]) > 20)
        ev = json.loads(lines[idx])
        ev["x"] = ev["x"].replace("</", "< /", 1)
        open(trace, "w").write("\n".join(lines[:idx] + [json.dumps(ev)] + lines[idx + 1:]) + "\n")
        _, rej = check.validate_trace_only(scratch, "Trace_Xml.tla", "Trace_Xml.cfg", 300)
        print("  bytes of the Map.Xml call at event %d altered: %s" % (idx + 1, "rejected at %s" % rej if rej is not None else "ACCEPTED"))
        ok &= rej == idx + 1

        print("3. replay reports an altered expectation")
        meta = tempfile.mkdtemp(prefix="meta_", dir=scratch)
        r = subprocess.run(["timeout", "300"] + check.tlc_cmd("MC_C07.tla", "MC_C07_quick.cfg", meta, 8), cwd=sd, stdout=subprocess.PIPE, stderr=subprocess.STDOUT, text=True)
        data = [l for l in r.stdout.splitlines() if l.startswith('"{')]
        line = json.loads(json.loads(data[len(data) // 2]))
        case = next(c for c in line["cs"] if c["r"])
        case["r"] = case["r"] + [{"t": "s", "v": "bogus"}]
        line["cs"] = [case]
        p = subprocess.run([harness, "replay", "vfp", "-out", os.path.join(scratch, "st.json")], input=json.dumps(json.dumps(line)) + "\n",
                           stdout=subprocess.PIPE, stderr=subprocess.STDOUT, text=True)
        s = json.load(open(os.path.join(scratch, "st.json")))
        print("  altered expectation for path %r: %d mismatch(es) reported" % (case["p"], s["mismatch_count"]))
        ok &= s["mismatch_count"] == 1

        print("4. every exported function / method of the core package is called by the harness (a specification nothing binds decides nothing)")
        import re, glob
        repo = os.environ.get("VERIF_REPO", "/repo")
        exported = set()
        for f in glob.glob(os.path.join(repo, "*.go")):
            if f.endswith("_test.go") or os.path.basename(f).startswith("verif_"):
                continue
            src = re.sub(r"/\*.*?\*/", "", open(f, encoding="utf-8", errors="replace").read(), flags=re.S)    # (block comments hold retired functions)
            for m in re.finditer(r"^func (?:\([a-z]+ \*?([A-Za-z]+)\) )?([A-Z][A-Za-z0-9]*)\(", src, flags=re.M):
                recv, name = m.group(1), m.group(2)
                if recv is None or recv[0].isupper():
                    exported.add(name)
        hsrc = "".join(open(f).read() for f in glob.glob(os.path.join(check.VERIF, "harness", "cmd", "mxjconf", "*.go")) + glob.glob(os.path.join(check.VERIF, "harness", "tagged", "*.go")))
        # out of scope (DESIGN section 7): the deprecated struct stub and its inverse, the trivial constructor
        allowed = {"NewMapStruct", "Struct", "NewMaps"}
        unbound = sorted(n for n in exported if n not in allowed and not re.search(r"\b%s\(" % re.escape(n), hsrc))
        print("  %d exported identifiers, %d out of scope, unbound: %s" % (len(exported), len(allowed), unbound or "none"))
        ok &= not unbound
    finally:
        shutil.rmtree(scratch, ignore_errors=True)
    print("selftest", "OK" if ok else "FAILED")
    return 0 if ok else 2
